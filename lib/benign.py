#!/usr/bin/env python3
"""lib/benign.py <prop> <srcdir> <name> [--checks C01,C02]
A property-PRESERVING refactor (patch.diff + NOTES.md): confirm it builds and passes the suite in a scratch worktree,
then run the quick checks against that worktree (VERIF_REPO).  Expected: exit 0.  Stored under seeded/benign/<name>/."""
import json
import os
import re
import shutil
import subprocess
import sys
import time

ENV = dict(os.environ, GOFLAGS="-mod=mod", GOPROXY="off", GOSUMDB="off", GOTOOLCHAIN="local")
VERIF = os.path.dirname(os.path.dirname(os.path.abspath(__file__)))


def sh(cmd, cwd=None, env=None, timeout=3600):
    p = subprocess.run(cmd, shell=True, cwd=cwd, env=env or ENV, capture_output=True, text=True, timeout=timeout)
    return p.returncode, p.stdout + p.stderr


def main():
    prop, src, name = sys.argv[1], sys.argv[2], sys.argv[3]
    checks = [prop]
    if "--checks" in sys.argv:
        checks = sys.argv[sys.argv.index("--checks") + 1].split(",")
    patch = os.path.abspath(os.path.join(src, "patch.diff"))
    notes = open(os.path.join(src, "NOTES.md")).read() if os.path.exists(os.path.join(src, "NOTES.md")) else ""
    wt = "/tmp/benignwt-%d" % os.getpid()
    sh("git -C /repo worktree add -q --detach %s HEAD" % wt)
    res = {"property": prop, "name": name, "checks": {}}
    try:
        rc, out = sh("git apply %s || git apply --3way %s" % (patch, patch), cwd=wt)
        res["patch_applies"] = rc == 0
        rc, out = sh("go build ./... && go build -tags verif ./... && go test -vet=off -count=1 ./...", cwd=wt)
        res["suite_pass"] = rc == 0
        if rc != 0:
            res["suite_out"] = out[-600:]
        if res["patch_applies"] and res["suite_pass"]:
            for c in checks:
                t = time.time()
                rc, out = sh("./check %s --tier quick" % c, cwd=VERIF, env=dict(ENV, VERIF_REPO=wt, VERIF_NO_EVIDENCE="1"))
                res["checks"][c] = {"exit": rc, "clauses": sorted(set(re.findall(r"clause=([\w-]+)", out))), "wall_s": round(time.time() - t, 1)}
                if rc != 0:
                    res["checks"][c]["tail"] = "\n".join(l for l in out.splitlines() if l.startswith(("VIOLATION", "  clause", "INFRA")))[:1500]
                    if rc == 2:
                        res["checks"][c]["tail"] = out[-3000:]
    finally:
        sh("git -C /repo worktree remove --force %s" % wt)
    out_dir = os.path.join(VERIF, "seeded", "benign", name)
    os.makedirs(out_dir, exist_ok=True)
    shutil.copy(patch, os.path.join(out_dir, "patch.diff"))
    json.dump({"property": prop, "kind": "property-preserving refactor (expected: every check exits 0)", "notes": notes[:3000],
               "patch_applies": res.get("patch_applies"), "suite_pass": res.get("suite_pass"), "checks": res["checks"],
               "false_alarm": any(v["exit"] == 1 for v in res["checks"].values())}, open(os.path.join(out_dir, "meta.json"), "w"), indent=1)
    print(json.dumps(res, indent=1))


if __name__ == "__main__":
    main()
