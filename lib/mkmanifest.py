#!/usr/bin/env python3
"""Regenerates MANIFEST.json from the table below (run after adding a check)."""
import json
import os
import sys

HERE = os.path.dirname(os.path.abspath(__file__))
sys.path.insert(0, HERE)
VERIF = os.path.dirname(HERE)

# id -> (design_ref, technique, level text, level note)
CLAIMS = {
 "C07": ("DESIGN.md §4 C07",
         "TLA+ spec TextCodecs (Base58/Base58Check/BIP173 as functions on code sequences) model-checked by TLC for mutual inverseness on the exhaustive small scope; every call executed on the real code is recorded and judged by TLC trace validation (Trace_TextCodecs), incl. argument-memory purity",
         "model checking of the codec definitions (all byte strings <= 2, all alphabet strings <= 3, bech32 small scope) plus TLC trace validation of tens of thousands of recorded calls of the real functions; the oracle is an independent byte-level definition, not the code's output",
         "SHA-256 is an environment function evaluated with crypto/sha256; purity is observed up to cap of the argument slices"),
 "C01": ("DESIGN.md §4 C01",
         "TLA+ spec AddressCodec (CashAddr/SLP/legacy/pubkey addresses as values with prescribed strings + strict decoder) model-checked for encode->decode round trip on a toy configuration; real constructor and DecodeAddress calls for all nets/kinds/renderings judged by TLC trace validation, incl. purity of constructor arguments, SetFormat sequences on one object (AddressExtras) and a replay of the stateless calls in other orders and from 8 goroutines at once (TraceBase.ConcurrentReplayVerdict)",
         "model checking of the address specification (round trip of every kind and rendering; version-byte sweep) plus TLC trace validation of every constructor / String / EncodeAddress / ScriptAddress / IsForNet / DecodeAddress observation recorded from the real code",
         "SHA-256, RIPEMD-160 and secp256k1 curve membership are environment functions computed by the harness; network parameters are read from chaincfg at run time"),
 "C02": ("DESIGN.md §4 C02",
         "TLC generates strings with VALID checksums over all 256 version bytes x payload lengths 0..65 from the specification's encoder (Gen_AddressCodec); these and structured pad-bit / prefix / case / Base58Check / hex-pubkey families are decoded by the real code and TLC decides each accept/reject and canonical re-encoding against the strict decoder of AddressCodec",
         "model checking (the strict reader accepts exactly the three standard version/length pairs and no non-zero padding) plus TLC trace validation of tens of thousands of DecodeAddress calls on adversarially constructed valid-checksum strings",
         "as C01; mixed-case renderings may be accepted or rejected (case folding is a documented normalisation)"),
 "C03": ("DESIGN.md §4 C03",
         "TLA+ module ChecksumCodes: TLC enumerates every syndrome of weight <=3 / <=2 as a state (VIEW = syndrome) and 'distinct = generated' proves minimum distance 6 (CashAddr, 112-symbol window) and 5 (bech32, 89 symbols), on the generator coefficients and again on the syndrome table computed from the implementation's own polyMod/polymod (verif hooks); affinity/superposition events and corrupted-string acceptance events are judged by TLC trace validation",
         "exhaustive model checking of the code's minimum distance on the implementation's own syndrome table (11.7M + 3.7M states) plus trace validation of substitution patterns of weight 1..5 / 1..4 against the strict decoders",
         "linearity of the implementation's remainder map is sampled (affinity and sparse superposition events), not proved; SHA/curve primitives as in C01"),
 "C09": ("DESIGN.md §4 C09",
         "TLA+ spec Bloom (filter as a state machine over the set of set bits, hash function a parameter) model-checked with every hash function for no-false-negatives / monotonicity / unloaded-inert; BIP37 indices defined with MurmurHash3 on 16-bit halves (LibW32); TLC-enumerated operation histories and seeded random histories are executed on real filters and each step (bit delta, answers, state) judged by TLC trace validation",
         "exhaustive model checking of the abstract filter (all 729 hash functions, all histories) plus TLC trace validation of recorded histories against the bit-exact BIP37 definition",
         "NewFilter sizing only bounded; state observed through MsgFilterLoad()"),
 "C11": ("DESIGN.md §4 C11",
         "TLA+ spec PartialMerkle (canonical BIP37 build + independent extractor over a hash-combine parameter) model-checked for Extract(Build(n,S)) = (root,S) for every n <= 10 and all 2^n subsets on abstract terms; the three real proof builders and the extractor are run on real blocks (all subsets for small n, every n <= 65 structured, random large) and every message/index list/extraction judged by TLC trace validation",
         "exhaustive small-scope model checking of the proof construction plus TLC trace validation of recorded proofs against the canonical definition",
         "double-SHA256 facts logged by the harness; right-edge duplication rule checked in the specification (TreeOK)"),
 "C12": ("DESIGN.md §4 C12",
         "TLC runs the extraction algorithm as an explicit-stack machine over abstract hash terms on a LAZILY chosen message (Gen_PartialMerkle): invariants Sound (every reported hash is the leaf at the reported position under the returned root) and Agree (recursive definition = machine); every terminal equivalence class is replayed on the real extractor (tail filled with 0s and 1s) together with mutated honest proofs, and TLC decides each result with the recursive definition over logged SHA facts",
         "model checking of the extraction design over the exhaustive small scope plus trace validation of every message class on the real code",
         "double-SHA256 pair facts planned by an independent walk in the harness (missing fact = exit 2)"),
 "C10": ("DESIGN.md §4 C10",
         "TLA+ spec TxFilter on top of Bloom: MatchTxAndUpdate as BIP37 IsRelevantAndUpdate (result and post-state exact, bit-level via Murmur3) and the block scan as the relation Lower (least fixpoint of relevance under exact-set semantics) <= reported <= Upper (final filter bits); real transactions with random intra-block spend DAGs, every script shape, three update flags, topological / reverse / random orders are scanned through the three APIs and judged by TLC trace validation; the scan ALGORITHM itself (spender index + recursive re-check, skip of matched transactions) is transcribed in MC_TxScan and model-checked against the least fixpoint for every block order (1.9 M states, negative control without the re-check), and the same TLC run generates sampled configurations that are replayed on the real scanners in all six orders",
         "model checking of the underlying abstract filter plus TLC trace validation of recorded transaction matches and block scans against the BIP37 definition and the scan contract",
         "txscript push extraction / script class are environment facts; named deviation for unparsable scripts (an empty push is a data push and is tested)"),
 "C20": ("DESIGN.md §4 C20",
         "static: a lock-discipline model (paths of LOCK/UNLOCK/RD/WR atoms) is EXTRACTED from the current bloom/filter.go with go/ast and TLC checks every interleaving of K=2,3 threads for accesses outside the mutex, lock leaks and self-deadlock (BloomConc.tla); dynamic: -race build, up to 32 goroutines on one shared tiny filter, every call ticketed; TLC trace validation decides 'no insertion lost / membership after completed insertion' with BIP37 indices, and TLC searches for a linearization of small rounds with reload/unload (Lin_BloomConc.tla); race-detector reports are events no action accepts; further round kinds: AtomRound (an insertion lands in exactly one message, with its tweak), TxRound / TxReloadRound (no outpoint update lost, none applied to a message that never matched), LoadedRound (IsLoaded agrees with the message at quiescence), GcsConc; the static model is skipped (and said so in the evidence) when the source shape is outside the extractor",
         "model checking of all interleavings of the extracted lock discipline plus trace validation / linearization search of recorded concurrent executions",
         "Go memory model not specified; dynamic part observes only the schedules that occurred"),
 "C04": ("DESIGN.md §4 C04",
         "TLA+ spec HDKeys (BIP32 CKDpriv/CKDpub, master generation, neutering, serialisation; modular addition on limb naturals, crypto primitives as logged facts); derivation histories (all paths over the boundary index alphabet with a neutered twin at every level, depth-255 chains, planner-found children with leading-zero scalars, all seed lengths) executed on the real code and every resulting key judged by TLC trace validation",
         "TLC trace validation of recorded derivation histories against the BIP32 definition; design-level model check of the key-pool heap model",
         "HMAC-SHA512 / secp256k1 / hashes are environment functions"),
 "C05": ("DESIGN.md §4 C05",
         "ParseSpec in HDKeys (Base58 -> exactly 82 bytes -> checksum -> scalar range / point validity -> fields); every produced key is re-parsed, plus every single-bit / single-byte corruption with and without recomputed checksum, boundary scalars, off-curve points, parity bytes, wrong lengths; TLC decides accept/reject, value and canonical re-serialisation",
         "TLC trace validation against the strict parser definition",
         "as C04"),
 "C06": ("DESIGN.md §4 C06",
         "WifString / WifDecode in HDKeys; scalars with 1..31 leading zero bytes x compression x nets, single-bit corruptions, all 256 marker bytes and decoded lengths 0..45 with valid checksums, non-ASCII twins; TLC trace validation",
         "TLC trace validation against the WIF definition",
         "as C04"),
 "C15": ("DESIGN.md §4 C15",
         "KeyPool heap model (which operations share byte buffers) model-checked for independence, with the sharing-Neuter variant as negative control; the same module generates all operation histories of bounded depth on a pool of keys; they are replayed on real keys with EVERY live key observed after EVERY step; TLC trace validation checks each call's postcondition, the frame condition (other keys unchanged incl. a derivation probe) and that zeroing erased the four captured buffers",
         "model checking of the heap model plus TLC trace validation of enumerated and random histories",
         "verif hook VerifBuffers exposes the four backing slices"),
 "C13": ("DESIGN.md §4 C13",
         "TLA+ spec GCS: item value = floor(siphash * N*M / 2^64) on limb naturals, membership = value in the filter's value set; Match / MatchAny / ZipMatchAny / HashMatchAny answers of real filters over P=0..32, several M, N=0..100 and N up to 12000 (N*M >= 2^32), multisets with repeats, query sets around N/2, and planner-found non-members colliding modulo 2^32 are judged by TLC trace validation; MC_GCS cross-checks the verifying scanner against an independent encoder on the small scope",
         "small-scope model checking of the codec definitions plus TLC trace validation of recorded filters and queries",
         "SipHash as environment function; unary runs bounded"),
 "C14": ("DESIGN.md §4 C14",
         "the filter bytes are verified by a single scan (ScanFilter) that checks the prescribed unary quotient / terminator / P remainder bits MSB-first / zero padding for every sorted value -- byte equality with the BIP158-style encoding; N/P/NP serialisations as CompactSize concatenations; rebuilt filters identical; block filter builder content (outpoints of non-coinbase inputs + non-empty scripts, de-duplicated), key, P/M, filter hash and header; builder error latch histories",
         "small-scope model checking (MC_GCS) plus TLC trace validation",
         "as C13"),
 "C18": ("DESIGN.md §4 C18",
         "TLA+ spec TxSort: BIP69 as a relation (ordered permutation of whole elements, other fields equal, ties free); MC_TxSort checks the relation is non-empty and idempotent over a key alphabet with ties; real Sort / InPlaceSort / IsSorted calls on all permutations of small element sets with ties and random transactions up to hundreds of elements, with deep snapshots of the original before/after and after mutating the copy, judged by TLC trace validation",
         "small-scope model checking of the relation plus TLC trace validation",
         "amounts are signed 64-bit numbers (negative amounts sort first)"),
 "C16": ("DESIGN.md §4 C16",
         "TLA+ spec BlockCache: the Block wrapper as a cache state machine over object identities (slots, cached hash and bytes) with fresh values as facts; MC_BlockCache explores all call sequences of depth 5 on blocks of 0..3 transactions (identities distinct and stable) and generates every call sequence of bounded depth, which is replayed on real blocks from every constructor (message, bytes, bytes with trailing data, reader, message+bytes) plus random interleavings on large blocks; TLC trace validation checks values, identities, indices, out-of-range errors and transaction locations",
         "model checking of the abstract cache (10^6 states) plus TLC trace validation of enumerated and random accessor histories",
         "fresh facts from wire; pointer identity"),
 "C17": ("DESIGN.md §4 C17",
         "TLA+ spec Amount on exact limb arithmetic: RN53 (the one permitted float rounding), round-half-away, correctly rounded quotient with sticky bit, decimal text parsed and cross-multiplied; MC_Amount cross-checks the definitions on a toy range; NewAmount / ToUnit / ToBCH round trip / Format / String / MulF64 of the real code on every small satoshi count and its half-way neighbours, power-of-two/ten neighbourhoods, the cap, double-rounding corners, subnormals, NaN/Inf and random values are judged by TLC trace validation",
         "TLC trace validation against exact-arithmetic definitions plus a small-scope model check of those definitions",
         "IEEE-754 decomposition logged by the harness; exploration structured + random, not exhaustive"),
 "C19": ("DESIGN.md §4 C19",
         "TLA+ spec CoinSet: selectors as relations (distinct offered coins, MaxInputs, total = target or >= target+MinChange; shortest qualifying prefix of the list / of some descending order with free ties; average value-age for min-priority) and the coin set as a sequence; MC_CoinSet checks the relations are satisfiable exactly when a qualifying prefix exists over all small coin lists and generates every push/pop/shift/read history of bounded depth; all four real selectors on exhaustive small lists and random lists up to 12 coins, and real coin-set histories, are judged by TLC trace validation; thorough tier: the incrementally cached totals are an inductive invariant checked symbolically by Apalache over unbounded integers (CoinSetCache.tla, with a drifting variant as negative control)",
         "small-scope model checking of the relations plus TLC trace validation",
         "pointer identity of coins; no completeness demanded of the min-priority selector"),
 "C08": ("DESIGN.md §4 C08",
         "TLA+ spec Robust: one total action per untrusted-input entry point with outcome in {ok, err} and bounds on time and allocation as functions of the input length; TLC generates adversarial inputs from the parser specifications (all CashAddr strings whose 40-bit checksum verifies over fewer than eight symbols, Gen_Robust) and the harness adds degenerate framings, count maxima, truncations/mutations of valid blocks, transactions, keys, filter-load, merkle-block, GCS and JSON inputs; block scans of dependency chains / DAGs against a loaded filter (BlockScan); each call is executed three times on the real code (panics recovered, 10 s deadline, process death journalled; cost = min(wall clock, process CPU time)) and judged by TLC trace validation",
         "TLC trace validation of totality / time / allocation for fifteen entry points on adversarially constructed inputs",
         "time and memory are measured, only bounded by the spec; hangs by deadline"),
}

# generic clauses of TraceBase that every trace validation carries
COMMON = ("; generic clauses judged by TraceBase for every recorded call: byte-slice arguments sit in patterned spare capacity and a write behind "
          "them is rejected, returned slices / strings / messages are read again at the end of the run")
REPLAY = {k: "; stateless calls are replayed in other orders and from 8 goroutines at once" for k in
          ("C01", "C02", "C03", "C04", "C05", "C06", "C07", "C12", "C13", "C14", "C17", "C18", "C19")}
DEFERRED = {k: "; every object history is executed a second time without reading the object on the way and the final observations must agree "
               "(result-depends-on-when-it-is-observed)" for k in ("C04", "C05", "C15", "C09", "C10", "C19")}

NOT_YET = "check not built yet; see DESIGN.md for the planned TLA+ model"


def main():
    props = [json.loads(l) for l in open(os.path.join(VERIF, "properties.jsonl"))]
    checks = []
    na = []
    for p in props:
        pid = p["id"]
        if pid in CLAIMS:
            ref, tech, text, note = CLAIMS[pid]
            checks.append({
                "property_id": pid,
                "quick_cmd": "./check %s --tier quick" % pid,
                "thorough_cmd": "./check %s --tier thorough" % pid,
                "evidence_file": "/verif/evidence/%s.json" % pid,
                "replay_cmd_template": "./check %s --replay {path}" % pid,
                "engine": "tlc-trace-validation",
                "level_claimed": {"category": "model_checking", "text": text, "design_ref": ref},
                "level_note": note,
                "technique": tech + COMMON + REPLAY.get(pid, "") + DEFERRED.get(pid, ""),
            })
        else:
            na.append({"property_id": pid, "reason": NOT_YET})
    hooks_commits = []
    hc = os.path.join(VERIF, "hooks_commits.txt")
    if os.path.exists(hc):
        hooks_commits = [l.split()[0] for l in open(hc) if l.strip()]
    m = {
        "version": 1,
        "setup_cmd": "./setup.sh",
        "hooks": {
            "guard": "verif",
            "enable": "go build -tags verif (the harness module replaces github.com/gcash/bchutil with /repo)",
            "baseline_off_cmd": "cd /repo && GOFLAGS=-mod=mod GOPROXY=off GOSUMDB=off go test -vet=off -count=1 -timeout 25m ./...",
            "source_commits": hooks_commits,
            "add_only": True,
        },
        "engines": [
            {"name": "tlc-trace-validation", "path": "/verif/check",
             "serves_properties": sorted(CLAIMS),
             "kind_free_text": "explicit TLA+ specifications (spec/*.tla) checked with TLC; Go conformance harness (harness/) records one event per call of the real code; TLC (Trace_*.tla re-using the specification's operators) accepts or rejects every event"},
        ],
        "checks": checks,
        "not_applicable": na,
        "notes": "exit 0 held / 1 VIOLATION / 2 infrastructure. Known findings: /verif/known_findings.json. VERIF_SEED and VERIF_TIER are honoured.",
    }
    with open(os.path.join(VERIF, "MANIFEST.json"), "w") as f:
        json.dump(m, f, indent=1)
    print("MANIFEST: %d checks, %d not_applicable" % (len(checks), len(na)))


if __name__ == "__main__":
    main()
