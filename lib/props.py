"""Per-property recipes.  Each takes a pipeline.Run and returns the exit code."""
import json
import os
import shutil

import pipeline
from pipeline import finish

TRACE_MODULE = {}
PROPS = {}


def prop(pid, trace_module):
    def deco(fn):
        PROPS[pid] = fn
        TRACE_MODULE[pid] = trace_module
        return fn
    return deco


def replay(run, path):
    """Re-execute a recorded history on the real code and let TLC judge it again."""
    rec = json.load(open(path))
    if "history" not in rec or run.pid == "C20":
        # table proofs (C03) and concurrent rounds (C20) cannot be re-executed call by call:
        # the whole check is run again on the current tree
        return PROPS[run.pid](run)
    run.build()
    trace, _ = run.exec("replay", replay=os.path.abspath(path), trace_name="trace-replay.ndjson")
    run.validate(TRACE_MODULE[run.pid], trace)
    return finish(run, rule="replay of one recorded history", write_evidence=False)


# --------------------------------------------------------------------------- C07
@prop("C07", "Trace_TextCodecs")
def c07(run):
    run.build()
    run.mc("MC_TextCodecs")
    trace, _ = run.exec("C07")
    run.validate("Trace_TextCodecs", trace)
    return finish(run,
                  assumptions=["SHA-256 (crypto/sha256) is an environment function logged by the harness",
                               "argument purity is observed on the backing array up to cap (sentinel-filled spare capacity)"],
                  exhaustive=False)


ADDR_ASSUME = ["SHA-256 / RIPEMD-160 / secp256k1 curve membership are environment functions evaluated by the harness with the standard library (math/big for the curve equation)",
               "network parameters (prefixes, legacy ids) are read from chaincfg at run time and passed to the specification as a Config event"]


# --------------------------------------------------------------------------- C01
@prop("C01", "Trace_AddressCodec")
def c01(run):
    run.build()
    run.mc("MC_AddressCodec")
    trace, _ = run.exec("C01")
    run.validate("Trace_AddressCodec", trace)
    # public-key addresses as objects: every format reached through SetFormat on one object (String / EncodeAddress /
    # ScriptAddress after each change), SLP <-> cash conversion (the AddressExtras part of the specification)
    trace2, _ = run.exec("X01")
    run.validate("Trace_AddressExtras", trace2)
    return finish(run, assumptions=ADDR_ASSUME)


# --------------------------------------------------------------------------- C02
@prop("C02", "Trace_AddressCodec")
def c02(run):
    run.build()
    run.mc("MC_AddressCodec")
    cases = run.gen("Gen_AddressCodec", env={"GEN_TIER": run.tier})
    trace, _ = run.exec("C02", cases=cases)
    run.validate("Trace_AddressCodec", trace)
    return finish(run, assumptions=ADDR_ASSUME)


# --------------------------------------------------------------------------- C03
@prop("C03", "Trace_ChecksumCodes")
def c03(run):
    """Minimum-distance proof by exhaustive syndrome enumeration (TLC states), on the design's
    generator and again on the implementation's own syndrome table; affinity events tie the
    table to the implementation's whole remainder map; black-box corrupted strings are judged
    by the strict decoders."""
    run.build()
    # 1. implementation tables + affinity events (verif hooks)
    trace_t, _ = run.exec("C03table", args="out=" + run.dir, trace_name="trace-C03table.ndjson")
    # 2. design-level proofs
    if run.tier == "thorough":
        design = ["MC_CC_cash_112_5.cfg", "MC_CC_bech_89_4.cfg"]
    else:
        design = ["MC_CC_cash_42_5.cfg"]
    for cfg in design:
        r = run.mc("ChecksumCodes", cfg)
        if r["generated"] != r["distinct"]:
            raise pipeline.Infra("design-level code has a low-weight codeword (%s): %d generated, %d distinct" % (cfg, r["generated"], r["distinct"]))
    # 3. the same proof on the implementation's table
    impl_viol = []
    for cfg, tab in (("MC_CCI_cash_112_5.cfg", "table-cash.json"), ("MC_CCI_bech_89_4.cfg", "table-bech.json")):
        r = run.mc("ChecksumCodes", cfg, env={"TABLE": os.path.join(run.dir, tab)}, expect_fail=True)
        if not r["ok"]:
            if "Invariant TableSane is violated" in r["out"]:
                impl_viol.append((cfg, "implementation syndrome table is not that of a polynomial remainder (TableSane)"))
            else:
                raise pipeline.Infra("TLC failed on implementation table (%s):\n%s" % (cfg, "\n".join(r["out"].splitlines()[-30:])))
        elif r["generated"] != r["distinct"]:
            # a fingerprint collision could fake this: re-run with another fingerprint polynomial
            r2 = run.mc("ChecksumCodes", cfg, env={"TABLE": os.path.join(run.dir, tab)}, extra=["-fp", "7"])
            if r2["generated"] != r2["distinct"]:
                impl_viol.append((cfg, "low-weight codeword: %d syndromes generated, only %d distinct" % (r2["generated"], r2["distinct"])))
            else:
                raise pipeline.Infra("collision did not reproduce with another fingerprint (%s)" % cfg)
    for cfg, what in impl_viol:
        os.makedirs(os.path.join(pipeline.VERIF, "replay"), exist_ok=True)
        path = os.path.join(pipeline.VERIF, "replay", "C03-%s-%d-table-%s.json" % (run.tier, run.seed, cfg.split("_")[2]))
        with open(path, "w") as f:
            json.dump({"property": "C03", "clause": "minimum-distance-on-implementation-table", "cfg": cfg, "what": what,
                       "table": json.load(open(os.path.join(run.dir, "table-cash.json" if "cash" in cfg else "table-bech.json")))}, f)
        print("VIOLATION property=C03 replay=%s" % path)
        print("  " + what)
    # 4. trace validation
    run.validate("Trace_ChecksumCodes", trace_t)
    trace, _ = run.exec("C03")
    run.validate("Trace_ChecksumCodes", trace)
    rc = finish(run, assumptions=ADDR_ASSUME + [
        "minimum distance is proved for windows of 112 (CashAddr, <= 5 errors) and 89 (bech32, <= 4 errors) symbols counted from the end of the string, which covers every shorter length and every prefix",
        "the implementation's remainder map is tied to its syndrome table by sampled affinity / superposition events (not exhaustively)"],
        extra_cov={"proof": "distinct TLC states = generated states over all syndromes of weight <= 3 (left) and <= 2 (right)"})
    return 1 if impl_viol else rc


BLOOM_ASSUME = ["NewFilter's sizing formula (natural logarithm) is only bounded by the wire limits, not recomputed",
                "the filter's bit array is observed through MsgFilterLoad() after every call (delta of set / cleared bits, popcount, full bytes for filters <= 64 bytes)",
                "for an empty bit array only totality is demanded; the membership answer is unconstrained"]


# --------------------------------------------------------------------------- C09
@prop("C09", "Trace_Bloom")
def c09(run):
    run.build()
    run.mc("MC_Bloom")
    cases = run.gen("Gen_Bloom", env={"GEN_DEPTH": "4" if run.tier == "thorough" else "3"})
    trace, _ = run.exec("C09", cases=cases)
    run.validate("Trace_Bloom", trace)
    return finish(run, assumptions=BLOOM_ASSUME)


MERKLE_ASSUME = ["double-SHA256 is an environment function: the harness logs the merkle tree of the block together with the 64 bytes hashed for every inner node (the duplication rule for a missing right sibling is checked by the specification) and, for arbitrary messages, the hash of every pair an independent walk meets",
                 "transaction ids come from wire.MsgTx.TxHash()"]


# --------------------------------------------------------------------------- C11
@prop("C11", "Trace_PartialMerkle")
def c11(run):
    run.build()
    run.mc("MC_PartialMerkle")
    trace, _ = run.exec("C11")
    run.validate("Trace_PartialMerkle", trace)
    # WHICH transactions a filter selects (the index lists of the two filter-driven builders) is decided by the scan
    # contract of the TxFilter specification: least fixpoint of relevance <= selected <= what the final filter matches
    trace2, _ = run.exec("C11F")
    run.validate("Trace_TxFilter", trace2)
    return finish(run, assumptions=MERKLE_ASSUME + ["filter-induced subsets: data pushes and script classes are environment facts (txscript), as in C10"])


# --------------------------------------------------------------------------- C12
@prop("C12", "Trace_PartialMerkle")
def c12(run):
    run.build()
    maxn = "6" if run.tier == "thorough" else "4"
    cases = run.gen("Gen_PartialMerkle", env={"GEN_MAXN": maxn})
    trace, _ = run.exec("C12", cases=cases)
    run.validate("Trace_PartialMerkle", trace)
    return finish(run, assumptions=MERKLE_ASSUME,
                  extra_cov={"exhaustive_scope": "transaction count <= %s, hashes over 3 atoms, flag strings of 0..2 bytes: every equivalence class of messages reached by the lazily-chosen extraction machine" % maxn})


# --------------------------------------------------------------------------- C10
@prop("C10", "Trace_TxFilter")
def c10(run):
    run.build()
    run.mc("MC_Bloom")
    # the scan algorithm (spender index + recursive re-check) equals the least fixpoint in every block order;
    # the same TLC run emits a deterministic sample of the explored configurations, replayed on the real code below
    cases = run.gen("MC_TxScan", "Gen_TxScan.cfg", env={"GEN_MOD": "600" if run.tier == "thorough" else "6000"}, timeout=3600)
    if run.tier == "thorough":
        # the original algorithm (matched transactions are visited again) computes the same sets
        run.mc("MC_TxScan", "MC_TxScan_noskip.cfg", timeout=3600)
        r = run.mc("MC_TxScan", "MC_TxScan_norecheck.cfg", expect_fail=True, timeout=3600)
        if r["ok"]:
            raise pipeline.Infra("negative control failed: the scan without the recursive re-check should depend on the block order")
    trace, _ = run.exec("C10", cases=cases)
    run.validate("Trace_TxFilter", trace)
    return finish(run, assumptions=BLOOM_ASSUME + [
        "data pushes and script classes are environment facts (bchd txscript.PushedData / GetScriptClass); for unparsable scripts the pushes before the error come from the harness' own tokenizer",
        "named deviations: an unparsable script may contribute nothing or its leading pushes; an empty push may be tested or skipped",
        "block scan contract: Lower (least fixpoint of relevance under exact-set semantics of the inserted items) <= reported <= Upper (what the final filter bits match)"])


# --------------------------------------------------------------------------- C20
@prop("C20", "Trace_BloomConc")
def c20(run):
    import glob
    import subprocess
    run.build(race=True)
    # ---- static: lock-discipline model extracted from the current source
    ext = os.path.join(run.dir, "extract")
    p = subprocess.run(["go", "build", "-o", ext, "./extract"], cwd=pipeline.HARNESS, env=pipeline.GOENV, capture_output=True, text=True)  # stdlib only
    if p.returncode != 0:
        raise pipeline.Infra("extractor does not build: " + p.stderr)
    model = os.path.join(run.dir, "bloomconc.json")
    p = subprocess.run([ext, os.path.join(pipeline.REPO, "bloom", "filter.go"), model], capture_output=True, text=True)
    static = []
    static_applies = p.returncode == 0
    if not static_applies:
        # a refactored filter (e.g. the lock moved into a nested struct) is outside what the extractor understands:
        # the interleaving model is skipped and the property is decided by the dynamic part alone
        pipeline.log("lock-discipline extraction does not apply to this source shape (%s): static model skipped" % p.stderr.strip()[:200])
    for k in ((2, 3) if static_applies else ()):
        r = run.mc("BloomConc", "MC_BloomConc_%d.cfg" % k, env={"MODEL": model}, expect_fail=True)
        if not r["ok"]:
            inv = [l for l in r["out"].splitlines() if "is violated" in l]
            if not inv:
                raise pipeline.Infra("TLC failed on the extracted model:\n" + "\n".join(r["out"].splitlines()[-30:]))
            static.append((k, inv[0].strip(), r["out"]))
            break
    # ---- dynamic: race detector + trace validation
    racelog = os.path.join(run.dir, "race")
    # exit code 66 = the race detector reported something (the reports are read below)
    reports, first = 0, ""
    try:
        trace, _ = run.exec("C20", env={"GORACE": "log_path=%s halt_on_error=0" % racelog}, ok_codes=(0, 66))
    except pipeline.Infra as ex:
        # the Go runtime kills the process on unsynchronised map access: that IS an observed data race
        if "fatal error: concurrent map" not in str(ex):
            raise
        trace = os.path.join(run.dir, "trace-C20.ndjson")
        open(trace, "w").close()
        reports, first = 1, "fatal error: concurrent map " + str(ex).split("fatal error: concurrent map", 1)[1][:900]
    for f in glob.glob(racelog + "*"):
        txt = open(f, errors="replace").read()
        n = txt.count("WARNING: DATA RACE")
        if n and not first:
            first = txt[:1500]
        reports += n
    a, b = trace + ".a", trace + ".b"
    maxh, nb = 0, 0
    with open(a, "w") as fa, open(b, "w") as fb:
        for line in open(trace):
            hrec = json.loads(line)
            maxh = max(maxh, hrec["h"])
            if hrec["ev"] and hrec["ev"][0]["op"] == "LinRound":
                fb.write(line)
                nb += 1
            else:
                fa.write(line)
        fa.write(json.dumps({"h": maxh + 1, "ev": [{"op": "RaceDetector", "reports": reports, "first": first[:1200]}]}) + "\n")
    run.validate("Trace_BloomConc", a)
    # linearization search
    vout = b + ".lin"
    if os.path.exists(vout):
        os.remove(vout)
    r = run.tlc("Lin_BloomConc", "Lin_BloomConc.cfg", env={"TRACE": b, "VOUT": vout})
    if not r["ok"]:
        raise pipeline.Infra("linearization search failed:\n" + "\n".join(r["out"].splitlines()[-30:]))
    run.val_states += r["distinct"]
    run.val_trans += r["generated"]
    lin = set()
    if os.path.exists(vout):
        for line in open(vout):
            rec = json.loads(line)
            if isinstance(rec, str):
                rec = json.loads(rec)
            lin.add(rec["h"])
    nlin = 0
    for line in open(b):
        hrec = json.loads(line)
        nlin += 1
        run.events += 1
        run.histories += 1
        if hrec["h"] not in lin:
            run.verdicts.append(dict(trace=b, h=hrec["h"], i=1, v=["not-linearizable", "some sequential order of the calls", "none exists"],
                                     event=hrec["ev"][0], history=hrec["ev"]))
    pipeline.log("lin Lin_BloomConc: %d rounds, %d linearizable, %d states" % (nlin, len(lin & set(json.loads(l)["h"] for l in open(b))), r["distinct"]))
    dynamic_bad = len(run.verdicts) > 0
    static_note = []
    if static and not dynamic_bad:
        # the extracted lock-discipline model is an abstraction (it knows Lock / RLock pairs, not atomics or TryLock):
        # a violation of the MODEL that the real code does not confirm in this run is reported as a note, not a verdict
        print("STATIC-MODEL (unconfirmed, no verdict): %s (K=%d) on the model extracted from bloom/filter.go; no race, "
              "non-linearizable round, lost insertion or deadlock was observed on the real code in this run" % (static[0][1], static[0][0]))
        static_note = static
        static = []
    for k, inv, out in static:
        print("STATIC-MODEL: %s (K=%d) on the model extracted from bloom/filter.go" % (inv, k))
    return finish(run, assumptions=BLOOM_ASSUME + [
        "data-race freedom is decided on the lock-discipline model extracted from bloom/filter.go (all interleavings, K=2 and 3) and observed with the Go race detector; the Go memory model itself is not specified",
        "a static-model violation alone is not a verdict: it is printed as STATIC-MODEL (unconfirmed) and the check decides by what the real code showed in this run",
        "tickets come from one atomic counter taken immediately before / after each call"],
        extra_cov={"race_detector_reports": reports, "static_model_violations": len(static), "static_model_violations_unconfirmed": len(static_note),
                   "linearization_rounds": nlin,
                   "static_model": "extracted from bloom/filter.go" if static_applies else "not applicable to this source shape (skipped)"})


HD_ASSUME = ["HMAC-SHA512, secp256k1 base-point multiplication / point addition / decompression, SHA-256 and RIPEMD-160 are environment functions evaluated by the harness (crypto/*, bchec) from fixed offsets of the parent's serialization; the harness logs a superset (both candidate HMACs) and never decides which applies",
             "the abstract key value of the logged state is the 78-byte payload of String() read at fixed offsets",
             "derivation behaviour of a key is probed by one non-hardened child after every call"]


# --------------------------------------------------------------------------- C04
@prop("C04", "Trace_HDKeys")
def c04(run):
    run.build()
    run.mc("KeyPool", "MC_KeyPool.cfg")
    trace, _ = run.exec("C04")
    run.validate("Trace_HDKeys", trace)
    return finish(run, assumptions=HD_ASSUME)


# --------------------------------------------------------------------------- C05
@prop("C05", "Trace_HDKeys")
def c05(run):
    run.build()
    run.mc("MC_TextCodecs")
    trace, _ = run.exec("C05")
    run.validate("Trace_HDKeys", trace)
    return finish(run, assumptions=HD_ASSUME)


# --------------------------------------------------------------------------- C06
@prop("C06", "Trace_HDKeys")
def c06(run):
    run.build()
    run.mc("MC_TextCodecs")
    trace, _ = run.exec("C06")
    run.validate("Trace_HDKeys", trace)
    return finish(run, assumptions=HD_ASSUME)


# --------------------------------------------------------------------------- C15
@prop("C15", "Trace_HDKeys")
def c15(run):
    run.build()
    run.mc("KeyPool", "MC_KeyPool.cfg")
    r = run.mc("KeyPool", "MC_KeyPool_shared.cfg", expect_fail=True)
    if r["ok"]:
        raise pipeline.Infra("negative control failed: the heap model with a sharing Neuter should violate Independent")
    cases = run.gen("KeyPool", "Gen_KeyPool.cfg", env={"GEN_DEPTH": "4" if run.tier == "thorough" else "3"})
    trace, _ = run.exec("C15", cases=cases)
    run.validate("Trace_HDKeys", trace)
    return finish(run, assumptions=HD_ASSUME + ["the buffers inspected after Zero are the four slices captured through the verif hook before the call"])


GCS_ASSUME = ["SipHash-2-4 is an environment function (github.com/aead/siphash), logged positionally for the data items and query items; double-SHA256 facts for filter hash/header",
              "the sort order of the reduced values is proposed by the harness and CHECKED by the specification (permutation + non-decreasing)",
              "model bound: unary quotients up to 100000 (M / 2^P is kept below about 64 by the generators, as the property's quantifier states)"]


# --------------------------------------------------------------------------- C13
@prop("C13", "Trace_GCS")
def c13(run):
    run.build()
    run.mc("MC_GCS")
    trace, _ = run.exec("C13")
    run.validate("Trace_GCS", trace, timeout=5400)
    return finish(run, assumptions=GCS_ASSUME)


# --------------------------------------------------------------------------- C14
@prop("C14", "Trace_GCS")
def c14(run):
    run.build()
    run.mc("MC_GCS")
    trace, _ = run.exec("C14")
    run.validate("Trace_GCS", trace, timeout=5400)
    return finish(run, assumptions=GCS_ASSUME)


# --------------------------------------------------------------------------- C18
@prop("C18", "Trace_TxSort")
def c18(run):
    run.build()
    run.mc("MC_TxSort")
    trace, _ = run.exec("C18")
    run.validate("Trace_TxSort", trace)
    return finish(run, assumptions=["amounts are non-negative (compared as 8-byte big-endian strings)",
                                    "elements with equal sort keys may appear in any order (sort.Sort is not stable)"])


# --------------------------------------------------------------------------- C16
@prop("C16", "Trace_BlockCache")
def c16(run):
    run.build()
    run.mc("MC_BlockCache", "MC_BlockCache.cfg")
    cases = run.gen("MC_BlockCache", "Gen_BlockCache.cfg", env={"GEN_DEPTH": "4" if run.tier == "thorough" else "3"})
    trace, _ = run.exec("C16", cases=cases)
    run.validate("Trace_BlockCache", trace)
    return finish(run, assumptions=["block / transaction hashes and serialisations are 'fresh' facts recomputed by the harness from the underlying wire message (wire.MsgBlock / wire.MsgTx)",
                                    "object identity is observed as pointer identity of the returned wrappers / hash objects / byte slices"])


# --------------------------------------------------------------------------- C17
@prop("C17", "Trace_Amount")
def c17(run):
    run.build()
    run.mc("MC_Amount")
    trace, _ = run.exec("C17")
    run.validate("Trace_Amount", trace)
    return finish(run, assumptions=["a float64 is its IEEE-754 decomposition (sign, 53-bit significand, exponent) logged by the harness; all rounding is recomputed exactly on limb naturals",
                                    "the space (all doubles with |f*1e8| < 2^62, all amounts up to 2.1e15) is explored structurally and randomly, not exhaustively"])


# --------------------------------------------------------------------------- C19
@prop("C19", "Trace_CoinSet")
def c19(run):
    run.build()
    run.mc("MC_CoinSet", "MC_CoinSet.cfg")
    if run.tier == "thorough":
        # "totals never drift" as an inductive invariant over unbounded integers (Apalache); the variant whose Shift
        # subtracts the wrong element is the negative control
        run.apalache("CoinSetCache", "Init", "IndInv", 0)
        run.apalache("CoinSetCache", "IndInit", "IndInv", 1)
        src = open(os.path.join(run.dir, "CoinSetCache.tla")).read()
        with open(os.path.join(run.dir, "CoinSetCacheDrift.tla"), "w") as f:
            f.write(src.replace("MODULE CoinSetCache", "MODULE CoinSetCacheDrift").replace("tv' = tv - Head(coins).value", "tv' = tv - coins[Len(coins)].value"))
        if run.apalache("CoinSetCacheDrift", "IndInit", "IndInv", 1, expect_fail=True):
            raise pipeline.Infra("negative control failed: a Shift that subtracts the last coin's value should break the inductive invariant")
    cases = run.gen("MC_CoinSet", "Gen_CoinSet.cfg", env={"GEN_DEPTH": "6" if run.tier == "thorough" else "5"})
    trace, _ = run.exec("C19", cases=cases)
    run.validate("Trace_CoinSet", trace)
    return finish(run, assumptions=["coins are identified by pointer identity among the offered list",
                                    "for the min-priority selector only successful selections are constrained (the property states no completeness for it)"])


# --------------------------------------------------------------------------- C08
@prop("C08", "Trace_Robust")
def c08(run):
    run.build()
    cases = run.gen("Gen_Robust")
    jcases = run.gen("Gen_JsonWalk", env={"GEN_TIER": "quick"}, out_name="jsoncases.ndjson")
    journal = os.path.join(run.dir, "journal.json")
    traces = []
    skip, avoid, crashes = 0, [], []
    for attempt in range(6):
        name = "trace-C08-%d.ndjson" % attempt
        args = "journal=%s,skip=%d,avoid=%s,json=%s" % (journal, skip, "+".join(str(x) for x in avoid), jcases)
        try:
            trace, _ = run.exec("C08", cases=cases, trace_name=name, args=args, timeout=3000)
            traces.append(trace)
            break
        except pipeline.Infra as ex:
            # the process died (out of memory, fatal runtime error, stack exhaustion): the journal names the input
            if not os.path.exists(journal) or os.path.getsize(journal) == 0:
                raise
            j = json.load(open(journal))
            crashes.append({"op": "Robust", "entry": j["entry"], "in": j["in"], "len": len(j["in"]), "outcome": "crash",
                            "detail": str(ex)[-300:], "cpu_us": 0, "alloc_kib": 0})
            part = os.path.join(run.dir, name)
            done = 0
            if os.path.exists(part):
                good = []
                for line in open(part):
                    try:
                        done += len(json.loads(line)["ev"])
                        good.append(line)
                    except ValueError:
                        break
                with open(part, "w") as f:
                    f.writelines(good)
                if good:
                    traces.append(part)
            avoid.append(j["n"])
            skip = skip + done
            pipeline.log("harness process died on %s input of %d bytes; continuing after it" % (j["entry"], len(j["in"])))
    else:
        pipeline.log("the harness process died %d times; the remaining inputs were not explored in this run" % len(crashes))
    if crashes:
        ct = os.path.join(run.dir, "trace-C08-crashes.ndjson")
        with open(ct, "w") as f:
            f.write(json.dumps({"h": 1, "ev": crashes}) + "\n")
        traces.append(ct)
    for t in traces:
        run.validate("Trace_Robust", t)
    return finish(run, assumptions=["time = minimum wall time of three repetitions, allocation = runtime TotalAlloc delta of one call; both only BOUNDED by the specification (50 ms + 200 ns * len^2, 8 MiB + 64 KiB * len)",
                                    "hangs are detected by a 10 s deadline per call, not proved absent",
                                    "the specification's other modules (C01-C07, C09, C12-C14, C16) judge the VALUES these entry points return; this check judges totality and resources"],
                  rule="distinct (entry point, input) calls; non-trivial = non-empty input")


# =========================================================================================
# Growth of the specification beyond the twenty listed properties (not registered in MANIFEST.checks;
# run with ./check X01 ...).  Evidence is written to evidence/growth-<id>.json.
def _growth_finish(run, **kw):
    rc = finish(run, write_evidence=False, **kw)
    return rc


@prop("X01", "Trace_AddressExtras")
def x01(run):
    """ConvertSlpToCash / ConvertCashToSlp, AddressPubKey formats and AddressPubKeyHash(), Hash160 / Hash256."""
    run.build()
    trace, _ = run.exec("X01")
    run.validate("Trace_AddressExtras", trace)
    return _growth_finish(run, assumptions=ADDR_ASSUME)


@prop("X02", "Trace_PartialMerkle")
def x02(run):
    """A PartialBlock is single-use: ExtractMatches called twice on the same object."""
    run.build()
    trace, _ = run.exec("X02")
    run.validate("Trace_PartialMerkle", trace)
    return _growth_finish(run, assumptions=MERKLE_ASSUME)


@prop("X03", "Trace_AppData")
def x03(run):
    """appdata.go: AppDataDir for every operating-system branch, application-name shape and environment."""
    run.build()
    trace, _ = run.exec("X03")
    run.validate("Trace_AppData", trace)
    return _growth_finish(run, assumptions=["filepath.Join and the current user's home directory are environment facts"])


@prop("X04", "Trace_CertGen")
def x04(run):
    """certgen.go: the self-signed TLS certificate pair (names, addresses, validity, key usage, key match)."""
    run.build()
    trace, _ = run.exec("X04")
    run.validate("Trace_CertGen", trace)
    return _growth_finish(run, assumptions=["the clock is bracketed by the harness (now0 <= time.Now() in the call <= now1)",
                                            "host name, interface addresses, net.SplitHostPort and net.ParseIP are environment facts",
                                            "certificate fields are read back with crypto/x509 (trusted parser)"])


@prop("X05", "Trace_JsonWalk")
def x05(run):
    """jsonpb: the hex <-> base64 tree walks (transcribed, TLC-generated trees) and Marshal / Unmarshal built on them."""
    run.build()
    run.mc("MC_JsonWalk")
    cases = run.gen("Gen_JsonWalk", env={"GEN_TIER": run.tier, "GEN_MOD": "8"})
    trace, _ = run.exec("X05", cases=cases)
    run.validate("Trace_JsonWalk", trace)
    return _growth_finish(run, assumptions=["the protobuf JSON reader / writer (github.com/OpenBazaar/jsonpb) and encoding/json are environment functions",
                                            "the walks are observed through the verif hooks VerifConvertHex / VerifConvertBase64 and through the public entry points"])


@prop("X06", "Trace_LogMutex")
def x06(run):
    """logging_mutex.go (build tag mutexlog): the log of a real program is a behaviour of the lock specification."""
    run.mc("LogMutex", "MC_LogMutex.cfg")
    neg = run.mc("LogMutex", "MC_LogMutex_neg.cfg", expect_fail=True)
    if neg["ok"]:
        raise pipeline.Infra("negative control MC_LogMutex_neg did not fail: 'Locking' lines would prove exclusion")
    if run.tier == "thorough":
        # unbounded number of operations: the safety properties as an inductive invariant (Apalache), with a broken
        # AcquireR (no writer test) as the negative control
        for m in ("LogMutexInd", "LogMutexIndBroken"):
            shutil.copy(os.path.join(pipeline.VERIF, "spec", m + ".tla"), os.path.join(run.dir, m + ".tla"))
        run.apalache("LogMutexInd", "Init", "IndInv", 0)
        run.apalache("LogMutexInd", "IndInit", "IndInv", 1)
        if run.apalache("LogMutexIndBroken", "IndInit", "IndInv", 1, expect_fail=True):
            raise pipeline.Infra("negative control LogMutexIndBroken passed: the inductive invariant does not constrain AcquireR")
    binary = run.build(tags="verif mutexlog", pkg="./mutexlog", out_name="mlog")
    trace, _ = run.exec("X06", binary=binary)
    vout = trace + ".acc"
    if os.path.exists(vout):
        os.remove(vout)
    r = run.tlc("Trace_LogMutex", "Trace_LogMutex.cfg", env={"TRACE": trace, "VOUT": vout})
    if not r["ok"] and "Invariant LogSafe is violated" not in r["out"]:
        raise pipeline.Infra("log validation failed:\n" + "\n".join(r["out"].splitlines()[-30:]))
    run.val_states += r["distinct"]
    run.val_trans += r["generated"]
    acc = set()
    if os.path.exists(vout):
        for line in open(vout):
            rec = json.loads(line)
            if isinstance(rec, str):
                rec = json.loads(rec)
            acc.add(rec["h"])
    for line in open(trace):
        hrec = json.loads(line)
        run.events += len(hrec["ev"])
        run.histories += 1
        if hrec["h"] not in acc:
            run.verdicts.append(dict(trace=trace, h=hrec["h"], i=1, v=["log-is-not-a-behaviour-of-the-lock", "an assignment of the lines to goroutines", "none exists"],
                                     event=hrec["ev"][0], history=hrec["ev"]))
    pipeline.log("val Trace_LogMutex: %d histories, %d accepted, %d states" % (run.histories, len(acc), r["distinct"]))
    return _growth_finish(run, assumptions=["bchlog writes whole lines in a total order (its backend serialises writers)",
                                            "the lines carry no goroutine: TLC searches for the assignment and for the positions of the unlogged acquire / release steps"])
