"""Per-property recipes.  Each takes a pipeline.Run and returns the exit code."""
import json
import os

import pipeline
from pipeline import finish

TRACE_MODULE = {}
PROPS = {}


def prop(pid, trace_module):
    def deco(fn):
        PROPS[pid] = fn
        TRACE_MODULE[pid] = trace_module
        return fn
    return deco


def replay(run, path):
    """Re-execute a recorded history on the real code and let TLC judge it again."""
    rec = json.load(open(path))
    run.build()
    trace, _ = run.exec("replay", replay=os.path.abspath(path), trace_name="trace-replay.ndjson")
    run.validate(TRACE_MODULE[run.pid], trace)
    return finish(run, rule="replay of one recorded history", write_evidence=False)


# --------------------------------------------------------------------------- C07
@prop("C07", "Trace_TextCodecs")
def c07(run):
    run.build()
    run.mc("MC_TextCodecs")
    trace, _ = run.exec("C07")
    run.validate("Trace_TextCodecs", trace)
    return finish(run,
                  assumptions=["SHA-256 (crypto/sha256) is an environment function logged by the harness",
                               "argument purity is observed on the backing array up to cap (sentinel-filled spare capacity)"],
                  exhaustive=False)


ADDR_ASSUME = ["SHA-256 / RIPEMD-160 / secp256k1 curve membership are environment functions evaluated by the harness with the standard library (math/big for the curve equation)",
               "network parameters (prefixes, legacy ids) are read from chaincfg at run time and passed to the specification as a Config event"]


# --------------------------------------------------------------------------- C01
@prop("C01", "Trace_AddressCodec")
def c01(run):
    run.build()
    run.mc("MC_AddressCodec")
    trace, _ = run.exec("C01")
    run.validate("Trace_AddressCodec", trace)
    return finish(run, assumptions=ADDR_ASSUME)


# --------------------------------------------------------------------------- C02
@prop("C02", "Trace_AddressCodec")
def c02(run):
    run.build()
    run.mc("MC_AddressCodec")
    cases = run.gen("Gen_AddressCodec", env={"GEN_TIER": run.tier})
    trace, _ = run.exec("C02", cases=cases)
    run.validate("Trace_AddressCodec", trace)
    return finish(run, assumptions=ADDR_ASSUME)
