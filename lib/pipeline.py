"""Pipeline shared by every check:  build -> mc -> gen -> exec -> val -> classify -> evidence.

Exit codes: 0 property held on everything explored (KNOWN-FINDING lines allowed),
            1 VIOLATION (TLC rejected an event recorded from the real code),
            2 infrastructure (build failure, TLC timeout/error, missing env fact, dead driver).
"""
import collections
import hashlib
import json
import os
import re
import shutil
import subprocess
import sys
import time

VERIF = os.path.dirname(os.path.dirname(os.path.abspath(__file__)))
REPO = os.environ.get("VERIF_REPO", "/repo")
SPEC = os.path.join(VERIF, "spec")
HARNESS = os.path.join(VERIF, "harness")
CP = "/opt/veriftools/tla/tla2tools.jar:/opt/veriftools/tla/CommunityModules-deps.jar"
NCPU = os.cpu_count() or 4

GOENV = dict(os.environ, GOFLAGS="-mod=mod", GOPROXY="off", GOSUMDB="off", GOTOOLCHAIN="local",
             GOCACHE=os.environ.get("GOCACHE", "/root/.cache/go-build"))


class Infra(Exception):
    pass


def log(msg):
    print("[check] " + msg, flush=True)


class Run:
    def __init__(self, pid, tier, seed, keep=False):
        self.pid = pid
        self.tier = tier
        self.seed = seed
        self.keep = keep
        self.t0 = time.time()
        self.dir = os.path.join(VERIF, ".run", "%s-%d" % (pid, os.getpid()))
        shutil.rmtree(self.dir, ignore_errors=True)
        os.makedirs(self.dir)
        for f in os.listdir(SPEC):
            if f.endswith(".tla") or f.endswith(".cfg"):
                shutil.copy(os.path.join(SPEC, f), self.dir)
        self.mc_states = 0
        self.mc_trans = 0
        self.mc_runs = []
        self.val_states = 0
        self.val_trans = 0
        self.events = 0
        self.histories = 0
        self.opcnt = collections.Counter()
        self.verdicts = []      # (trace_path, h, i, verdict)
        self.aborted = []       # harness generators that stopped early (judged: what was recorded)
        self.samples = []
        self.distinct = set()
        self.nontrivial = 0
        self.extra = {}
        self.assumptions = []

    def cleanup(self):
        if not self.keep:
            shutil.rmtree(self.dir, ignore_errors=True)
            try:
                os.rmdir(os.path.join(VERIF, ".run"))
            except OSError:
                pass

    # ---------------------------------------------------------------- build
    def build(self, race=False, tags="verif", pkg=".", out_name="vh"):
        """Rebuild the harness against /repo's current working tree with the verif tag."""
        out = os.path.join(self.dir, out_name)
        # keep the harness module's dependency list in step with /repo
        cmd = ["go", "build", "-tags", tags] + (["-race"] if race else [])
        if os.path.abspath(REPO) != "/repo":
            # seeded-change testing: build against a scratch worktree instead of /repo (VERIF_REPO)
            mod = open(os.path.join(HARNESS, "go.mod")).read().replace("=> /repo", "=> " + os.path.abspath(REPO))
            with open(os.path.join(self.dir, "go.mod"), "w") as f:
                f.write(mod)
            shutil.copy(os.path.join(HARNESS, "go.sum"), os.path.join(self.dir, "go.sum"))
            cmd += ["-modfile", os.path.join(self.dir, "go.mod")]
        cmd += ["-o", out, pkg]
        p = subprocess.run(cmd, cwd=HARNESS, env=GOENV, capture_output=True, text=True)
        if p.returncode != 0:
            raise Infra("harness does not build against /repo:\n" + p.stdout + p.stderr)
        if out_name == "vh":
            self.vh = out
        return out

    # ------------------------------------------------------------------ TLC
    def tlc(self, module, cfg=None, env=None, workers=None, timeout=1800, heap="6g", extra=None, simulate=None, gcthreads=None):
        """One TLC run; a run that ends without a verdict (no 'No error has been found', no violated property) is
        repeated once, so that a transient JVM failure on a loaded machine does not turn into exit 2."""
        r = self._tlc(module, cfg, env, workers, timeout, heap, extra, simulate, gcthreads)
        if not r["ok"] and "violated" not in r["out"] and "Deadlock reached" not in r["out"]:
            log("TLC run of %s (%s) ended without a verdict (rc=%s); output tail:\n%s\n[check] repeating it once"
                % (module, cfg, r["rc"], "\n".join(r["out"].splitlines()[-12:])))
            for k in ("VOUT", "GEN_OUT"):   # outputs of the first attempt (CSVWrite appends)
                v = (env or {}).get(k)
                if v and os.path.exists(v):
                    os.remove(v)
            r = self._tlc(module, cfg, env, workers, timeout, heap, extra, simulate, gcthreads)
        return r

    def _tlc(self, module, cfg=None, env=None, workers=None, timeout=1800, heap="6g", extra=None, simulate=None, gcthreads=None):
        meta = os.path.join(self.dir, "meta-%s-%d" % (module, len(self.mc_runs) + int(time.time() * 1000) % 100000))
        cmd = ["java", "-XX:+UseParallelGC"] + (["-XX:ParallelGCThreads=%d" % gcthreads] if gcthreads else []) + ["-Xmx" + heap, "-Xss256m", "-cp", CP, "tlc2.TLC",
               "-metadir", meta, "-workers", str(workers or NCPU), "-fpmem", "0.15"]
        if cfg:
            cmd += ["-config", cfg]
        if simulate:
            cmd += ["-simulate", simulate]
        if extra:
            cmd += extra
        cmd += [module]
        e = dict(os.environ)
        e.update(env or {})
        t = time.time()
        try:
            p = subprocess.run(cmd, cwd=self.dir, env=e, capture_output=True, text=True, timeout=timeout)
        except subprocess.TimeoutExpired:
            raise Infra("TLC timeout on %s after %ds" % (module, timeout))
        finally:
            shutil.rmtree(meta, ignore_errors=True)
        out = p.stdout + p.stderr
        res = dict(module=module, cfg=cfg, wall=round(time.time() - t, 1), out=out, rc=p.returncode,
                   generated=0, distinct=0, ok=False)
        m = re.findall(r"(\d+) states generated, (\d+) distinct states found", out)
        if m:
            res["generated"], res["distinct"] = int(m[-1][0]), int(m[-1][1])
        res["ok"] = ("No error has been found" in out) or (simulate is not None and p.returncode == 0)
        return res

    def apalache(self, module, init, inv, length, expect_fail=False, timeout=900, src=None):
        """Symbolic check with Apalache (inductive invariants over unbounded integers)."""
        t = time.time()
        out_dir = os.path.join(self.dir, "apalache-out")
        cmd = ["apalache-mc", "check", "--out-dir=" + out_dir, "--init=" + init, "--inv=" + inv, "--length=%d" % length,
               src or (module + ".tla")]
        try:
            p = subprocess.run(cmd, cwd=self.dir, capture_output=True, text=True, timeout=timeout)
        except subprocess.TimeoutExpired:
            raise Infra("Apalache timeout on %s" % module)
        finally:
            shutil.rmtree(out_dir, ignore_errors=True)
        out = p.stdout + p.stderr
        ok = "EXITCODE: OK" in out
        violated = "EXITCODE: ERROR (12)" in out
        self.mc_runs.append(dict(module=module, cfg="apalache --init=%s --inv=%s --length=%d" % (init, inv, length), states=0,
                                 transitions=0, wall_s=round(time.time() - t, 1), ok=ok))
        log("apalache %s init=%s inv=%s length=%d: %s, %.1fs" % (module, init, inv, length,
                                                             "ok" if ok else ("invariant violated" if violated else "FAILED"), time.time() - t))
        if not ok and not (expect_fail and violated):
            raise Infra("Apalache run of %s failed (specification-level error, not a verdict on the code):\n%s"
                        % (module, "\n".join(out.splitlines()[-40:])))
        return ok

    def mc(self, module, cfg=None, timeout=1800, expect_fail=False, **kw):
        """Model-check the design-level specification (a gate on the oracle itself)."""
        r = self.tlc(module, cfg or module + ".cfg", timeout=timeout, **kw)
        self.mc_runs.append(dict(module=module, cfg=r["cfg"], states=r["distinct"], transitions=r["generated"],
                                 wall_s=r["wall"], ok=r["ok"]))
        self.mc_states += r["distinct"]
        self.mc_trans += r["generated"]
        log("mc %s: %d distinct / %d generated states, %.1fs, %s" % (module, r["distinct"], r["generated"], r["wall"],
                                                                 "ok" if r["ok"] else "FAILED"))
        if not r["ok"] and not expect_fail:
            tail = "\n".join(r["out"].splitlines()[-60:])
            raise Infra("model check of %s failed (specification-level error, not a verdict on the code):\n%s" % (module, tail))
        return r

    def gen(self, module, cfg=None, timeout=1800, out_name="cases.ndjson", env=None, **kw):
        """Run a generator spec; every reachable state writes one case line."""
        path = os.path.join(self.dir, out_name)
        if os.path.exists(path):
            os.remove(path)
        e = {"GEN_OUT": path, "VERIF_SEED": str(self.seed)}
        e.update(env or {})
        r = self.tlc(module, cfg or module + ".cfg", env=e, timeout=timeout, **kw)
        if not r["ok"]:
            tail = "\n".join(r["out"].splitlines()[-60:])
            raise Infra("generator %s failed:\n%s" % (module, tail))
        n = sum(1 for _ in open(path)) if os.path.exists(path) else 0
        self.mc_runs.append(dict(module=module, cfg=r["cfg"], states=r["distinct"], transitions=r["generated"],
                                 wall_s=r["wall"], ok=True, cases=n))
        self.mc_states += r["distinct"]
        self.mc_trans += r["generated"]
        log("gen %s: %d cases from %d states, %.1fs" % (module, n, r["distinct"], r["wall"]))
        return path

    # ----------------------------------------------------------------- exec
    def exec(self, family, cases=None, replay=None, trace_name=None, args=None, timeout=3600, batch=None, binary=None,
             env=None, ok_codes=(0,)):
        trace = os.path.join(self.dir, trace_name or ("trace-%s.ndjson" % family))
        stats = trace + ".stats"
        cmd = [binary or self.vh, family, "-tier", self.tier, "-seed", str(self.seed), "-out", trace, "-stats", stats]
        if cases:
            cmd += ["-cases", cases]
        if replay:
            cmd += ["-replay", replay]
        if args:
            cmd += ["-arg", args]
        if batch:
            cmd += ["-batch", str(batch)]
        t = time.time()
        e = dict(GOENV)
        e.update(env or {})
        try:
            p = subprocess.run(cmd, cwd=self.dir, capture_output=True, text=True, timeout=timeout, env=e)
        except subprocess.TimeoutExpired:
            raise Infra("harness timeout (%s)" % family)
        if p.returncode not in ok_codes:
            out = p.stdout + p.stderr
            # a Go runtime crash prints its reason first and a goroutine dump after it: keep both ends
            msg = out if len(out) <= 6000 else out[:2500] + "\n[...]\n" + out[-3000:]
            raise Infra("harness %s exited %d:\n%s" % (family, p.returncode, msg))
        st = json.load(open(stats))
        if st.get("aborted"):
            # the generator stopped on something the code returned; the events recorded so far are judged first
            self.aborted.append("%s: %s" % (family, st["aborted"]))
            log("exec %s: generator aborted (%s); judging what was recorded" % (family, st["aborted"]))
        log("exec %s: %d events in %d histories, %.1fs" % (family, st["events"], st["histories"], time.time() - t))
        for k, v in st["ops"].items():
            self.opcnt[k] += v
        return trace, st

    # ------------------------------------------------------------------ val
    def validate(self, module, trace, cfg=None, timeout=3600, workers=None, heap="8g", javaopts=None):
        """TLC decides, event by event, whether the specification allows what the code did."""
        vout = trace + ".verdicts"
        if os.path.exists(vout):
            os.remove(vout)
        nh = 0
        nev = 0
        with open(trace) as f:
            for line in f:
                if line.strip():
                    nh += 1
        if nh == 0:
            raise Infra("empty trace " + trace)
        # TLC parses the trace file single-threaded at start-up: big traces are validated as
        # several shards by concurrent TLC processes (histories are independent behaviours)
        size = os.path.getsize(trace)
        target = 4 * 1024 * 1024
        t_val = time.time()
        if size >= 6 * 1024 * 1024 and nh >= 8:
            import concurrent.futures
            # a validation run is one chain of states (no parallelism inside it) and parses its trace up front:
            # cut the trace into shards of about 4 MB of whole histories and validate 8 of them at a time,
            # each in a small JVM (2 workers, 2 GC threads, 3 GB heap)
            shards = []
            cur, cur_sz = None, 0
            with open(trace) as f:
                for line in f:
                    if not line.strip():
                        continue
                    if cur is None or cur_sz >= target:
                        if cur:
                            cur.close()
                        shards.append(trace + ".s%d" % len(shards))
                        cur, cur_sz = open(shards[-1], "w"), 0
                    cur.write(line)
                    cur_sz += len(line)
            if cur:
                cur.close()
            nshards = len(shards)

            def one(sp):
                return self.tlc(module, cfg or module + ".cfg", env={"TRACE": sp, "VOUT": sp + ".verdicts"}, timeout=timeout,
                                workers=2, heap="3g", gcthreads=2)
            with concurrent.futures.ThreadPoolExecutor(min(8, nshards)) as ex:
                rs = list(ex.map(one, shards))
            r = dict(ok=all(x["ok"] for x in rs), out="\n".join(x["out"][-3000:] for x in rs if not x["ok"]),
                     distinct=sum(x["distinct"] for x in rs), generated=sum(x["generated"] for x in rs),
                     wall=round(time.time() - t_val, 1))
            with open(vout, "w") as fo:
                for sp in shards:
                    if os.path.exists(sp + ".verdicts"):
                        fo.write(open(sp + ".verdicts").read())
                    os.remove(sp)
        else:
            r = self.tlc(module, cfg or module + ".cfg", env={"TRACE": trace, "VOUT": vout}, timeout=timeout,
                         workers=workers, heap=heap)
        if not r["ok"]:
            tail = "\n".join(r["out"].splitlines()[-60:])
            raise Infra("trace validation run of %s did not complete:\n%s" % (module, tail))
        self.val_states += r["distinct"]
        self.val_trans += r["generated"]
        done = {}
        badl = collections.defaultdict(list)
        if os.path.exists(vout):
            for line in open(vout):
                line = line.strip()
                if not line:
                    continue
                try:
                    rec = json.loads(line)
                    if isinstance(rec, str):
                        rec = json.loads(rec)
                except ValueError:
                    raise Infra("torn verdict line in %s" % vout)
                if "n" in rec:
                    done[rec["h"]] = rec
                else:
                    badl[rec["h"]].append(rec)
        # acceptance: every history consumed to its end
        hist = {}
        with open(trace) as f:
            for line in f:
                if not line.strip():
                    continue
                hrec = json.loads(line)
                hist[hrec["h"]] = hrec
        missing = [h for h in hist if h not in done]
        if missing:
            raise Infra("trace validation incomplete: %d of %d histories not consumed (first %s)" % (len(missing), len(hist), missing[:3]))
        nrej = 0
        for hid, rec in done.items():
            if rec["n"] != len(hist[hid]["ev"]):
                raise Infra("history %s: %d of %d events consumed" % (hid, rec["n"], len(hist[hid]["ev"])))
            nev += rec["n"]
            for b in sorted(badl[hid], key=lambda x: x["i"]):
                nrej += 1
                self.verdicts.append(dict(trace=trace, h=hid, i=b["i"], v=b["v"], event=hist[hid]["ev"][b["i"] - 1],
                                          history=hist[hid]["ev"]))
        self.events += nev
        self.histories += len(hist)
        # distinct / non-trivial accounting and samples (measured on this run's trace)
        for hid, hrec in hist.items():
            for e in hrec["ev"]:
                args = {k: v for k, v in e.items() if k not in RESULT_KEYS}
                key = hashlib.blake2b(json.dumps(args, sort_keys=True).encode(), digest_size=12).digest()
                if key not in self.distinct:
                    self.distinct.add(key)
                    if nontrivial(e):
                        self.nontrivial += 1
        if len(self.samples) < 6:
            for hid in sorted(hist)[:3]:
                evs = hist[hid]["ev"]
                self.samples.append({"history": hid, "events": [shorten(x) for x in evs[:3]]})
        log("val %s: %d events / %d histories judged by TLC (%d states), %d rejected, %.1fs" %
            (module, nev, len(hist), r["distinct"], nrej, r["wall"]))
        return done


RESULT_KEYS = {"ret", "ok", "err", "mem0", "mem1", "env", "panic", "cpu_ns", "alloc", "obs", "rhrp", "rdata"}


def nontrivial(e):
    """A case is non-trivial when it carries a non-empty argument besides the op name."""
    for k, v in e.items():
        if k in RESULT_KEYS or k == "op":
            continue
        if isinstance(v, (list, str, dict)) and len(v) > 0:
            return True
        if isinstance(v, (int, float)) and not isinstance(v, bool) and v != 0:
            return True
    return False


def shorten(x, n=48):
    if isinstance(x, dict):
        return {k: shorten(v, n) for k, v in x.items() if k not in ("mem0", "mem1")}
    if isinstance(x, list):
        if len(x) > n:
            return [shorten(v, n) for v in x[:n]] + ["...(%d more)" % (len(x) - n)]
        return [shorten(v, n) for v in x]
    return x


# ------------------------------------------------------------- known findings
def load_findings():
    p = os.path.join(VERIF, "known_findings.json")
    if not os.path.exists(p):
        return []
    return json.load(open(p)).get("findings", [])


def _get(ev, path):
    cur = ev
    for part in path.split("."):
        if isinstance(cur, dict) and part in cur:
            cur = cur[part]
        else:
            return None
    return cur


def finding_matches(f, pid, verdict):
    """An open finding suppresses exactly the events it names: property, clause, op and
    every listed field constraint (eq / lt / gt / in / len) must hold on the recorded event."""
    if f.get("status") != "open" or f.get("property") != pid:
        return False
    m = f.get("match", {})
    v = verdict["v"]
    ev = verdict["event"]
    if "clause" in m and (not v or v[0] != m["clause"]):
        return False
    if "op" in m and ev.get("op") != m["op"]:
        return False
    for cond in m.get("where", []):
        val = _get(ev, cond["field"])
        if "len" in cond:
            val = len(val) if isinstance(val, (list, str)) else None
            if val != cond["len"]:
                return False
        if "eq" in cond and val != cond["eq"]:
            return False
        if "lt" in cond and not (isinstance(val, (int, float)) and val < cond["lt"]):
            return False
        if "gt" in cond and not (isinstance(val, (int, float)) and val > cond["gt"]):
            return False
        if "in" in cond and val not in cond["in"]:
            return False
    return True


# ------------------------------------------------------------------ finish
def finish(run, level="model_checking", rule="", assumptions=None, extra_cov=None, exhaustive=False, write_evidence=True):
    pid = run.pid
    findings = load_findings()
    infra = [v for v in run.verdicts if v["v"] and v["v"][0] == "ENV-MISSING"]
    real = [v for v in run.verdicts if not (v["v"] and v["v"][0] == "ENV-MISSING")]
    if infra and real:
        # a rejected step can leave an object in a state for which the planner logged no facts;
        # the rejections themselves are the verdict, the follow-up "missing fact" events are dropped
        log("%d event(s) lacked environment facts downstream of %d rejected event(s); reporting the rejections" % (len(infra), len(real)))
        run.verdicts = real
        infra = []
    if infra:
        raise Infra("specification needed an environment fact the harness did not log: %s (event %s)" %
                    (infra[0]["v"], json.dumps(shorten(infra[0]["event"]))[:600]))
    if getattr(run, "aborted", None) and not real:
        raise Infra("harness generator aborted and nothing recorded before it was rejected: " + "; ".join(run.aborted))
    known = collections.OrderedDict()
    viol = []
    for v in run.verdicts:
        hit = None
        for f in findings:
            if finding_matches(f, pid, v):
                hit = f
                break
        if hit:
            known.setdefault(hit["id"], [hit, 0])
            known[hit["id"]][1] += 1
        else:
            viol.append(v)
    for fid, (f, n) in known.items():
        print("KNOWN-FINDING: property=%s %s [%s, %d event(s) in this run]" % (pid, f["what"], fid, n), flush=True)
    replay_paths = []
    if viol:
        os.makedirs(os.path.join(VERIF, "replay"), exist_ok=True)
        seen = collections.Counter()
        for v in viol:
            clause = v["v"][0] if v["v"] else "?"
            seen[clause] += 1
            if seen[clause] > 3:      # at most three replay files per violated clause
                continue
            path = os.path.join(VERIF, "replay", "%s-%s-%d-%d.json" % (pid, run.tier, run.seed, len(replay_paths) + 1))
            with open(path, "w") as f:
                json.dump({"property": pid, "tier": run.tier, "seed": run.seed, "clause": clause,
                           "verdict": shorten(v["v"], 200), "event_index": v["i"],
                           "event": v["event"], "history": v["history"]}, f)
            replay_paths.append(path)
            print("VIOLATION property=%s replay=%s" % (pid, path), flush=True)
            print("  clause=%s op=%s event=%s" % (clause, v["event"].get("op"), json.dumps(shorten(v["event"], 24))[:700]), flush=True)
        log("%d rejected event(s) not covered by known findings: %s" % (len(viol), dict(seen)))
    cov = {
        "states": run.mc_states + run.val_states,
        "transitions": run.mc_trans + run.val_trans,
        "traces_validated_against_impl": run.histories,
        "events_validated_against_impl": run.events,
        "evaluations": run.events,
        "distinct_nontrivial": run.nontrivial,
        "rule": rule or "distinct = distinct (op, arguments) calls executed on the real code and judged by TLC; "
                        "non-trivial = the call carries at least one non-empty / non-zero argument",
        "samples": run.samples[:6] or [{"note": "no events"}],
        "model_checks": run.mc_runs,
        "trace_validator_states": run.val_states,
        "ops": dict(run.opcnt),
        "rejected_events": len(run.verdicts),
        "known_finding_events": sum(n for _, n in known.values()),
        "exhaustive": bool(exhaustive),
    }
    cov.update(run.extra)
    cov.update(extra_cov or {})
    ev = {
        "property_id": pid, "tier": run.tier, "seed": run.seed, "level": level, "coverage": cov,
        "assumptions": (assumptions or []) + run.assumptions,
        "wall_s": round(time.time() - run.t0, 1), "violations": len(viol),
    }
    if write_evidence and not os.environ.get("VERIF_NO_EVIDENCE"):
        os.makedirs(os.path.join(VERIF, "evidence"), exist_ok=True)
        with open(os.path.join(VERIF, "evidence", pid + ".json"), "w") as f:
            json.dump(ev, f, indent=1)
    log("%s %s seed=%d: %d events judged, %d violations, %.1fs" % (pid, run.tier, run.seed, run.events, len(viol), ev["wall_s"]))
    return 1 if viol else 0
