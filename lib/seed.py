#!/usr/bin/env python3
"""lib/seed.py import <prop> <srcdir> <name> [--checks C01,C02]
Confirms a candidate seeded change independently (scratch worktree of /repo HEAD: clean tree
-> demo passes & suite passes; patched -> suite passes & demo fails), then applies it to /repo,
runs the quick checks, undoes it, and stores everything under /verif/seeded/<name>/."""
import json
import os
import re
import shutil
import subprocess
import sys
import time

ENV = dict(os.environ, GOFLAGS="-mod=mod", GOPROXY="off", GOSUMDB="off", GOTOOLCHAIN="local")
VERIF = os.path.dirname(os.path.dirname(os.path.abspath(__file__)))


def sh(cmd, cwd=None, timeout=1800):
    p = subprocess.run(cmd, shell=True, cwd=cwd, env=ENV, capture_output=True, text=True, timeout=timeout)
    return p.returncode, p.stdout + p.stderr


def main():
    prop, src, name = sys.argv[1], sys.argv[2], sys.argv[3]
    checks = [prop]
    if "--checks" in sys.argv:
        checks = sys.argv[sys.argv.index("--checks") + 1].split(",")
    patch = os.path.join(src, "patch.diff")
    notes = open(os.path.join(src, "NOTES.md")).read() if os.path.exists(os.path.join(src, "NOTES.md")) else ""
    demos = [f for f in os.listdir(src) if f.endswith("_test.go") or f.endswith(".go")]
    demo = demos[0]
    dtext = open(os.path.join(src, demo)).read()
    pkg = re.search(r"^package\s+(\w+)", dtext, re.M).group(1)
    # which directory? from the package name
    base = pkg[:-5] if pkg.endswith("_test") else pkg
    sub = {"bchutil": ".", "builder": "gcs/builder"}.get(base, base)
    wt = "/tmp/seedwt-%d" % os.getpid()
    sh("git -C /repo worktree add -q --detach %s HEAD" % wt)
    res = {"property": prop, "name": name, "demo_dir": sub, "demo_file": demo}
    try:
        dst = os.path.join(wt, sub, "zz_seed_demo_test.go")
        shutil.copy(os.path.join(src, demo), dst)
        m = re.findall(r"^func (Test\w+)", dtext, re.M)
        runpat = "^(%s)$" % "|".join(m)
        rc, out = sh("go test -vet=off -count=1 -run '%s' ./%s" % (runpat, sub), cwd=wt)
        res["clean_demo_pass"] = rc == 0
        os.remove(dst)
        rc, out = sh("git apply %s || git apply --3way %s" % (patch, patch), cwd=wt)
        res["patch_applies"] = rc == 0
        if rc != 0:
            res["apply_err"] = out[-500:]
        rc, out = sh("go build ./... && go test -vet=off -count=1 ./...", cwd=wt)
        res["patched_suite_pass"] = rc == 0
        if rc != 0:
            res["suite_out"] = out[-800:]
        shutil.copy(os.path.join(src, demo), dst)
        rc, out = sh("go test -vet=off -count=1 -run '%s' ./%s" % (runpat, sub), cwd=wt)
        res["patched_demo_fails"] = rc != 0
        res["demo_out"] = out[-600:]
    finally:
        sh("git -C /repo worktree remove --force %s" % wt)
    ok = res.get("clean_demo_pass") and res.get("patch_applies") and res.get("patched_suite_pass") and res.get("patched_demo_fails")
    res["confirmed"] = bool(ok)
    detected = {}
    if ok:
        # the checks are run against a scratch worktree carrying the patch (VERIF_REPO), so /repo itself is
        # never modified and several seeds can be examined while other work goes on
        wt2 = "/tmp/seedrun-%d" % os.getpid()
        sh("git -C /repo worktree add -q --detach %s HEAD" % wt2)
        try:
            rc, out = sh("git apply %s || git apply --3way %s" % (os.path.abspath(patch), os.path.abspath(patch)), cwd=wt2)
            for c in checks:
                t = time.time()
                p2 = subprocess.run("./check %s --tier quick" % c, shell=True, cwd=VERIF, env=dict(ENV, VERIF_REPO=wt2, VERIF_NO_EVIDENCE="1"),
                                    capture_output=True, text=True, timeout=3600)
                out = p2.stdout + p2.stderr
                viol = [l for l in out.splitlines() if l.startswith("VIOLATION")]
                clauses = sorted(set(re.findall(r"clause=([\w-]+)", out)))
                detected[c] = {"exit": p2.returncode, "violations": len(viol), "clauses": clauses, "wall_s": round(time.time() - t, 1)}
                if p2.returncode == 2:
                    detected[c]["tail"] = out[-600:]
        finally:
            sh("git -C /repo worktree remove --force %s" % wt2)
    res["checks"] = detected
    out_dir = os.path.join(VERIF, "seeded", name)
    os.makedirs(out_dir, exist_ok=True)
    shutil.copy(patch, os.path.join(out_dir, "patch.diff"))
    shutil.copy(os.path.join(src, demo), os.path.join(out_dir, "demo_test.go.txt"))
    meta = {"property": prop, "breaks": prop, "confirmed": res["confirmed"], "demo_package_dir": sub,
            "needs_to_manifest": notes[:3000], "ran": {
                "clean tree: demo": "pass" if res.get("clean_demo_pass") else "FAIL",
                "patched tree: go build + full suite": "pass" if res.get("patched_suite_pass") else "FAIL",
                "patched tree: demo": "fails (as required)" if res.get("patched_demo_fails") else "PASSES (not a valid seed)"},
            "checks_run_with_patch_applied_to_/repo": detected,
            "detected_by": [c for c, d in detected.items() if d["exit"] == 1]}
    json.dump(meta, open(os.path.join(out_dir, "meta.json"), "w"), indent=1)
    print(json.dumps({k: v for k, v in res.items() if k not in ("demo_out", "suite_out")}, indent=1))
    if not ok:
        print(res.get("demo_out", ""), res.get("suite_out", ""))


if __name__ == "__main__":
    main()
