#!/usr/bin/env python3
"""lib/sweep.py seeds|benign [--only C01,C02] [--jobs 3]
Regression sweep over the stored changes: every seeded change (seeded/<id>-<k>/patch.diff, expected: exit 1) or every
property-preserving refactor (seeded/benign/<id>-R<k>/patch.diff, expected: exit 0) is applied to a scratch worktree of
/repo HEAD and the quick check of its property is run against it (VERIF_REPO).  Writes seeded/sweep-<kind>.json."""
import concurrent.futures
import json
import os
import re
import subprocess
import sys
import time

ENV = dict(os.environ, GOFLAGS="-mod=mod", GOPROXY="off", GOSUMDB="off", GOTOOLCHAIN="local")
VERIF = os.path.dirname(os.path.dirname(os.path.abspath(__file__)))


def sh(cmd, cwd=None, env=None, timeout=3600):
    p = subprocess.run(cmd, shell=True, cwd=cwd, env=env or ENV, capture_output=True, text=True, timeout=timeout)
    return p.returncode, p.stdout + p.stderr


FAMILY = [{"C01", "C02"}, {"C04", "C05", "C15"}, {"C09", "C10", "C20"}, {"C11", "C12"}, {"C13", "C14"}]


def family(prop):
    for f in FAMILY:
        if prop in f:
            return sorted(f)
    return [prop]


def one(args):
    kind, name, prop, patch = args
    wt = "/tmp/sweepwt-%s-%d" % (name, os.getpid())
    sh("git -C /repo worktree add -q --detach %s HEAD" % wt)
    res = {"name": name, "property": prop}
    try:
        rc, out = sh("git apply %s || git apply --3way %s" % (patch, patch), cwd=wt)
        res["patch_applies"] = rc == 0
        if rc == 0:
            t = time.time()
            rc, out = sh("./check %s --tier quick" % prop, cwd=VERIF, env=dict(ENV, VERIF_REPO=wt, VERIF_NO_EVIDENCE="1"))
            res.update(exit=rc, clauses=sorted(set(re.findall(r"clause=([\w-]+)", out))), wall_s=round(time.time() - t, 1))
            if rc == 2:
                res["tail"] = out[-800:]
            if kind == "benign" and rc == 0 and "--family" in sys.argv:
                # a refactor must not alarm the checks of neighbouring properties that exercise the same code either
                for other in family(prop):
                    if other == prop:
                        continue
                    rc2, out2 = sh("./check %s --tier quick" % other, cwd=VERIF, env=dict(ENV, VERIF_REPO=wt, VERIF_NO_EVIDENCE="1"))
                    res.setdefault("family", {})[other] = {"exit": rc2, "clauses": sorted(set(re.findall(r"clause=([\w-]+)", out2)))}
                    if rc2 != 0:
                        res["exit"] = rc2
                        res["clauses"] = res["family"][other]["clauses"]
                        if rc2 == 2:
                            res["tail"] = out2[-800:]
    finally:
        sh("git -C /repo worktree remove --force %s" % wt)
    res["as_expected"] = res.get("exit") == (1 if kind == "seeds" else 0)
    print(json.dumps(res)[:300], flush=True)
    return res


def main():
    kind = sys.argv[1]
    only = sys.argv[sys.argv.index("--only") + 1].split(",") if "--only" in sys.argv else None
    jobs = int(sys.argv[sys.argv.index("--jobs") + 1]) if "--jobs" in sys.argv else 3
    base = os.path.join(VERIF, "seeded", "benign") if kind == "benign" else os.path.join(VERIF, "seeded")
    work = []
    for name in sorted(os.listdir(base)):
        patch = os.path.join(base, name, "patch.diff")
        m = re.match(r"(C\d\d)-([A-Z]\d?)$", name)
        if not m or not os.path.exists(patch):
            continue
        if only and m.group(1) not in only and name not in only:
            continue
        work.append((kind, name, m.group(1), patch))
    with concurrent.futures.ThreadPoolExecutor(jobs) as ex:
        results = list(ex.map(one, work))
    out = os.path.join(VERIF, "seeded", "sweep-%s%s.json" % (kind, ("-seed" + os.environ["VERIF_SEED"]) if os.environ.get("VERIF_SEED") else ""))
    prev = {r["name"]: r for r in json.load(open(out))} if os.path.exists(out) and only else {}
    for r in results:
        prev[r["name"]] = r
    json.dump(sorted(prev.values(), key=lambda r: r["name"]), open(out, "w"), indent=1)
    bad = [r["name"] for r in results if not r["as_expected"]]
    print("%d checked, %d not as expected: %s" % (len(results), len(bad), bad))


if __name__ == "__main__":
    main()
