#!/usr/bin/env python3
"""Reverts each 'fix:' commit of /repo in turn (working tree only), runs the quick check(s) that
should notice, and restores the tree.  Writes seeded/fix-reverts.json."""
import json
import os
import re
import subprocess
import sys

VERIF = os.path.dirname(os.path.dirname(os.path.abspath(__file__)))
MAP = {
 "bech32.Encode must not write": ["C07"],
 "reject cashaddr strings with an unknown": ["C02"],
 "encode and decode the full 32 byte": ["C01"],
 "NewAddressPubKey rejects": ["C02"],
 "bloom filter with an empty bit array": ["C08", "C09"],
 "gcs HashMatchAny must index": ["C13"],
 "gcs HashMatchAny no longer pre-sizes": ["C08"],
 "Neuter returns a key": ["C15"],
 "NewBlockFromBytes caches only": ["C16"],
 "round amounts with math.Round": ["C17"],
 "jsonpb no longer panics": ["C08"],
 "DecodeCashAddress rejects payloads shorter": ["C08"],
 "MinPriorityCoinSelector must not exceed": ["C19"],
 "MinPriorityCoinSelector keeps the total": ["C19"],
}


def sh(cmd, cwd=None):
    p = subprocess.run(cmd, shell=True, cwd=cwd, capture_output=True, text=True)
    return p.returncode, p.stdout + p.stderr


def main():
    only = sys.argv[1:]
    rc, out = sh("git -C /repo log --format='%h %s' | grep ' fix: '")
    res = []
    for line in out.strip().splitlines():
        h, subj = line.split(" ", 1)
        checks = next((v for k, v in MAP.items() if k in subj), None)
        if not checks or (only and not any(c in only for c in checks)):
            continue
        if sh("git -C /repo status --porcelain")[1].strip():
            print("refusing: /repo not clean")
            return 2
        rc, o = sh("git -C /repo revert --no-commit %s" % h)
        entry = {"commit": h, "subject": subj, "revert_applies": rc == 0, "checks": {}}
        try:
            if rc == 0:
                for c in checks:
                    r, o = sh("./check %s --tier quick" % c, cwd=VERIF)
                    entry["checks"][c] = {"exit": r, "clauses": sorted(set(re.findall(r"clause=([\w-]+)", o)))}
        finally:
            sh("git -C /repo revert --abort")
            sh("git -C /repo reset -q --hard HEAD")
        print(json.dumps(entry))
        res.append(entry)
    json.dump(res, open(os.path.join(VERIF, "seeded", "fix-reverts.json"), "w"), indent=1)


if __name__ == "__main__":
    sys.exit(main())
