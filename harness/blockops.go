package main

// C16: Block / Tx wrappers.

import (
	"bytes"
	"reflect"
	"unsafe"

	"github.com/gcash/bchd/wire"
	"github.com/gcash/bchutil"
)

func init() {
	for _, op := range []string{"BlockNew", "Bytes", "Hash", "Tx", "TxHash", "Transactions", "TxLoc", "Height", "SetHeight"} {
		ops[op] = opBlock
	}
	ops["TxWrap"] = opTxWrap
	ops["TwoBlocks"] = opTwoBlocks
	families["C16"] = runC16
}

type blockObj struct {
	b   *bchutil.Block
	msg *wire.MsgBlock
	ids map[uintptr]int
	nid int
}

func (o *blockObj) id(p uintptr) int {
	if p == 0 {
		return 0
	}
	if v, ok := o.ids[p]; ok {
		return v
	}
	o.nid++
	o.ids[p] = o.nid
	return o.nid
}

func sliceData(b []byte) uintptr {
	if len(b) == 0 {
		return 0
	}
	return uintptr(unsafe.Pointer(&b[0]))
}

func serBlock(m *wire.MsgBlock) []byte {
	var buf bytes.Buffer
	m.Serialize(&buf)
	return buf.Bytes()
}
func serTx(t *wire.MsgTx) []byte {
	var buf bytes.Buffer
	t.Serialize(&buf)
	return buf.Bytes()
}

func (o *blockObj) txView(t *bchutil.Tx, i int) map[string]interface{} {
	h := t.Hash()
	same := i >= 0 && i < len(o.msg.Transactions) && t.MsgTx() == o.msg.Transactions[i]
	return map[string]interface{}{"index": t.Index(), "hash": ints(h[:]), "samemsg": same}
}

func opBlock(h *HState, a Event) Event {
	op := gName(a, "op")
	e := with(a)
	if op == "BlockNew" {
		n := gInt(a, "n")
		salt := gInt(a, "salt")
		msg := mkBlock(n, uint32(salt))
		if gBool(a, "token") && n > 0 { // an output carrying token data
			msg.Transactions[n-1].TxOut[0].TokenData = wire.TokenData{}
		}
		ser := serBlock(msg)
		o := &blockObj{msg: msg, ids: map[uintptr]int{}}
		e["bytesobj"] = 0
		p, pm := guard(func() {
			switch gName(a, "ctor") {
			case "msg":
				o.b = bchutil.NewBlock(msg)
			case "bytes":
				bb, err := bchutil.NewBlockFromBytes(append([]byte{}, ser...))
				if err == nil {
					o.b, o.msg = bb, bb.MsgBlock()
				}
			case "bytes+trailing":
				bb, err := bchutil.NewBlockFromBytes(append(append([]byte{}, ser...), 0xde, 0xad, 0xbe))
				if err == nil {
					o.b, o.msg = bb, bb.MsgBlock()
				}
			case "reader":
				bb, err := bchutil.NewBlockFromReader(bytes.NewReader(append(append([]byte{}, ser...), 1, 2, 3)))
				if err == nil {
					o.b, o.msg = bb, bb.MsgBlock()
				}
			case "buffer":
				// the reader is a *bytes.Buffer that the caller re-uses for the next message afterwards
				buf := bytes.NewBuffer(append(append([]byte{}, ser...), 9, 9))
				bb, err := bchutil.NewBlockFromReader(buf)
				if err == nil {
					o.b, o.msg = bb, bb.MsgBlock()
				}
				buf.Reset()
				buf.Write(bytes.Repeat([]byte{0xEE}, len(ser)))
			case "msg+emptybytes": // an empty, non-nil byte slice is not a serialization
				o.b = bchutil.NewBlockFromBlockAndBytes(msg, make([]byte, 0, 16))
			case "msg+emptyscratch": // "no bytes yet" handed over as the empty front of a big recycled buffer full of stale data
				scratch := bytes.Repeat([]byte{0xEE}, len(ser)+64)
				o.b = bchutil.NewBlockFromBlockAndBytes(msg, scratch[:0])
			case "msg+bytescap": // the exact serialization, sitting in a larger buffer
				scratch := append(append([]byte{}, ser...), bytes.Repeat([]byte{0xEE}, 40)...)
				o.b = bchutil.NewBlockFromBlockAndBytes(msg, scratch[:len(ser)])
			case "msg+nilbytes":
				o.b = bchutil.NewBlockFromBlockAndBytes(msg, nil)
			case "msg+bytes":
				o.b = bchutil.NewBlockFromBlockAndBytes(msg, append([]byte{}, ser...))
			}
		})
		if o.b == nil && !p {
			p, pm = true, "constructor failed on a valid block"
		}
		h.Obj["blk"] = o
		// fresh facts recomputed from the underlying wire message
		fh := o.msg.BlockHash()
		var txh, txb [][]int
		for _, t := range o.msg.Transactions {
			hh := t.TxHash()
			txh = append(txh, ints(hh[:]))
			txb = append(txb, ints(serTx(t)))
		}
		if txh == nil {
			txh, txb = [][]int{}, [][]int{}
		}
		e["fresh"] = map[string]interface{}{"hash": ints(fh[:]), "bytes": ints(serBlock(o.msg)), "txhash": txh, "txbytes": txb}
		// re-parse from the fresh bytes: the same block
		rh := []int{}
		guard(func() {
			if rb, err := bchutil.NewBlockFromBytes(serBlock(o.msg)); err == nil {
				x := rb.Hash()
				rh = ints(x[:])
			}
		})
		e["reparse_hash"] = rh
		return panicField(e, p, pm)
	}
	o, _ := h.Obj["blk"].(*blockObj)
	if o == nil || o.b == nil {
		return Event{"op": "Skipped", "orig": op}
	}
	p, pm := guard(func() {
		switch op {
		case "Bytes":
			b, err := o.b.Bytes()
			e["ok"], e["ret"], e["obj"] = err == nil, ints(b), o.id(sliceData(b))
		case "Hash":
			hh := o.b.Hash()
			e["ret"], e["obj"] = ints(hh[:]), o.id(reflect.ValueOf(hh).Pointer())
		case "Tx":
			t, err := o.b.Tx(blockIdx(a))
			_, oor := err.(bchutil.OutOfRangeError)
			e["ok"], e["outofrange"], e["err"], e["obj"], e["tx"] = err == nil, oor, "", 0, map[string]interface{}{}
			if err != nil {
				e["err"] = err.Error()
			} else {
				e["obj"] = o.id(reflect.ValueOf(t).Pointer())
				e["tx"] = o.txView(t, gInt(a, "i"))
			}
		case "TxHash":
			hh, err := o.b.TxHash(blockIdx(a))
			_, oor := err.(bchutil.OutOfRangeError)
			e["ok"], e["outofrange"], e["err"], e["obj"], e["ret"] = err == nil, oor, "", 0, []int{}
			if err != nil {
				e["err"] = err.Error()
			} else {
				e["ret"] = ints(hh[:])
				t, _ := o.b.Tx(gInt(a, "i")) // identity of the wrapper behind the hash
				e["obj"] = o.id(reflect.ValueOf(t).Pointer())
			}
		case "Transactions":
			ts := o.b.Transactions()
			objs, views := []int{}, []interface{}{}
			for i, t := range ts {
				if t == nil {
					objs = append(objs, 0)
					views = append(views, map[string]interface{}{"index": -9, "hash": []int{}, "samemsg": false})
					continue
				}
				objs = append(objs, o.id(reflect.ValueOf(t).Pointer()))
				views = append(views, o.txView(t, i))
			}
			e["objs"], e["txs"] = objs, views
		case "TxLoc":
			locs, err := o.b.TxLoc()
			ret := [][]int{}
			for _, l := range locs {
				ret = append(ret, []int{l.TxStart, l.TxLen})
			}
			e["ok"], e["ret"] = err == nil, ret
		case "Height":
			e["ret"] = int(o.b.Height())
		case "SetHeight":
			o.b.SetHeight(int32(gInt(a, "h")))
		}
	})
	return panicField(e, p, pm)
}

// opTwoBlocks: A.Bytes(), then a second block B (not larger than A) is built and serialised, then A is read again:
// a block's cached serialisation is its own (no scratch buffer shared between blocks).
func opTwoBlocks(_ *HState, a Event) Event {
	na, nb := gInt(a, "na"), gInt(a, "nb")
	ma, mb := mkBlock(na, uint32(gInt(a, "salt"))), mkBlock(nb, uint32(gInt(a, "salt")+1))
	e := with(a, "sera", ints(serBlock(ma)), "a1", []int{}, "a2", []int{}, "b1", []int{}, "serb", ints(serBlock(mb)), "reparse", false)
	p, msg := guard(func() {
		var A, B *bchutil.Block
		if gBool(a, "reader") {
			A, _ = bchutil.NewBlockFromReader(bytes.NewReader(serBlock(ma)))
			B, _ = bchutil.NewBlockFromReader(bytes.NewReader(serBlock(mb)))
		} else {
			A, B = bchutil.NewBlock(ma), bchutil.NewBlock(mb)
		}
		x, _ := A.Bytes()
		e["a1"] = ints(x)
		y, _ := B.Bytes()
		e["b1"] = ints(y)
		z, _ := A.Bytes()
		e["a2"] = ints(z)
		if rb, err := bchutil.NewBlockFromBytes(z); err == nil {
			e["reparse"] = *rb.Hash() == ma.BlockHash()
		}
	})
	return panicField(e, p, msg)
}

// blockIdx: the index of a Tx / TxHash call.  "far": k makes the real argument low + k * 2^32 (low is a VALID index, so
// the low 32 bits of the argument are valid while the argument is far out of range); the specification sees i, which
// is out of range as well (-1 or n).
func blockIdx(a Event) int {
	i := gInt(a, "i")
	if k := gInt(a, "far"); k != 0 {
		return gInt(a, "low") + k<<32
	}
	return i
}

func opTxWrap(_ *HState, a Event) Event {
	msg := mkBlock(1+gInt(a, "k")%3, uint32(gInt(a, "salt"))).Transactions[0]
	// degenerate but serialisable shapes: no inputs, no outputs, neither (10 bytes) -- the wrappers do not judge validity
	switch gInt(a, "shape") {
	case 1:
		msg.TxIn = nil
	case 2:
		msg.TxOut = nil
	case 3:
		msg.TxIn, msg.TxOut = nil, nil
	}
	fh := msg.TxHash()
	e := with(a, "fresh", ints(fh[:]))
	p, pm := guard(func() {
		t := bchutil.NewTx(msg)
		e["index0"] = t.Index()
		h1 := t.Hash()
		h2 := t.Hash()
		e["hash"], e["samehashobj"] = ints(h1[:]), h1 == h2
		t.SetIndex(gInt(a, "setindex"))
		e["index1"] = t.Index()
		fb := []int{}
		e["frombytes_index"], e["fromreader_index"] = -99, -99
		if t2, err := bchutil.NewTxFromBytes(append(serTx(msg), 9, 9)); err == nil {
			e["frombytes_index"] = t2.Index() // a transaction that is in no block: index unknown
			x := t2.Hash()
			fb = ints(x[:])
		}
		if t3, err := bchutil.NewTxFromReader(bytes.NewReader(serTx(msg))); err == nil {
			e["fromreader_index"] = t3.Index()
		}
		e["frombytes_hash"] = fb
	})
	return panicField(e, p, pm)
}

func runC16(c *Ctx) {
	r := c.Rng
	ctors := []string{"msg", "bytes", "reader", "msg+bytes", "bytes+trailing", "buffer", "msg+emptybytes", "msg+nilbytes", "msg+emptyscratch", "msg+bytescap"}
	// TLC-generated call sequences on blocks of 0..3 transactions, for every constructor
	for ci, cs := range readCases(c.Cases) {
		n := gInt(cs, "n")
		calls := []Event{{"op": "BlockNew", "n": n, "salt": 100 + ci%50, "ctor": ctors[ci%len(ctors)], "token": ci%7 == 0}}
		for _, x := range gList(cs, "calls") {
			m := x.(map[string]interface{})
			calls = append(calls, Event{"op": gName(m, "o"), "i": gInt(m, "i")})
		}
		calls = append(calls, Event{"op": "Transactions"}, Event{"op": "Bytes"}, Event{"op": "Hash"}, Event{"op": "TxLoc"})
		c.Run(calls)
	}
	// random blocks with random accessor interleavings
	for k := 0; k < c.Pick(60, 600); k++ {
		n := r.Intn(12)
		if k%12 == 0 {
			n = 50 + r.Intn(c.Pick(100, 250))
		}
		calls := []Event{{"op": "BlockNew", "n": n, "salt": int(r.Int31n(60000)), "ctor": ctors[k%len(ctors)], "token": k%3 == 0}}
		for s := 0; s < 6+r.Intn(20); s++ {
			switch r.Intn(10) {
			case 0:
				calls = append(calls, Event{"op": "Bytes"})
			case 1:
				calls = append(calls, Event{"op": "Hash"})
			case 2, 3, 4:
				calls = append(calls, Event{"op": "Tx", "i": r.Intn(n+3) - 1})
			case 5, 6:
				calls = append(calls, Event{"op": "TxHash", "i": r.Intn(n+3) - 1})
			case 7:
				calls = append(calls, Event{"op": "Transactions"})
			case 8:
				calls = append(calls, Event{"op": "TxLoc"})
			case 9:
				h := r.Intn(1000)
				calls = append(calls, Event{"op": "Height"}, Event{"op": "SetHeight", "h": h}, Event{"op": "Height"})
			}
		}
		for _, i := range []int{-1, n, n + 1, -1 << 31, 1<<31 - 1} {
			calls = append(calls, Event{"op": "Tx", "i": i}, Event{"op": "TxHash", "i": i})
		}
		if n > 0 && k%2 == 0 { // indexes whose LOW 32 bits are valid (0 or n-1) but which are far out of range, with a complete cache
			calls = append(calls, Event{"op": "Transactions"})
			for _, fk := range []int{1, -1, 3, -(1 << 31)} {
				calls = append(calls, Event{"op": "Tx", "i": -1, "far": fk, "low": 0}, Event{"op": "TxHash", "i": n, "far": fk, "low": n - 1})
			}
		}
		c.Run(calls)
	}
	// walks over the first k transactions of blocks around 64 / 128 / 256 transactions (bookkeeping of "which wrappers
	// exist" in machine words), then the whole list, then the rest
	for wi, n := range []int{63, 64, 65, 66, 129, 257} {
		if !c.Thorough() && n != 65 && n != 129 && n != 64 {
			continue
		}
		for _, k := range []int{n - 1, 64, 63, 32, 1} {
			if k >= n || k < 1 {
				continue
			}
			calls := []Event{{"op": "BlockNew", "n": n, "salt": 8800 + wi, "ctor": ctors[(wi+k)%len(ctors)], "token": false}}
			for _, i := range r.Perm(k) {
				if i%2 == 0 {
					calls = append(calls, Event{"op": "Tx", "i": i})
				} else {
					calls = append(calls, Event{"op": "TxHash", "i": i})
				}
			}
			calls = append(calls, Event{"op": "Transactions"}, Event{"op": "Tx", "i": n - 1}, Event{"op": "TxHash", "i": k}, Event{"op": "Transactions"})
			c.Run(calls)
		}
	}
	// big blocks whose count is not a multiple of 2, 4, 8 (wrapping split between workers leaves a remainder):
	// Transactions() first, then every index
	for i, n := range []int{513, 1027} {
		if !c.Thorough() && n != 513 {
			continue
		}
		calls := []Event{{"op": "BlockNew", "n": n, "salt": 9900 + i, "ctor": ctors[i%3], "token": false}, {"op": "Transactions"}}
		for _, ix := range []int{n - 1, n - 2, n - 3, 511, 512, 0} {
			calls = append(calls, Event{"op": "Tx", "i": ix}, Event{"op": "TxHash", "i": ix})
		}
		calls = append(calls, Event{"op": "Transactions"})
		c.Run(calls)
	}
	// transaction counts around the CompactSize boundary (one-byte / three-byte count): locations and bytes
	for i, n := range []int{252, 253, 254, c.Pick(300, 1000)} {
		c.Run([]Event{{"op": "BlockNew", "n": n, "salt": 7700 + i, "ctor": ctors[(i+1)%len(ctors)], "token": false},
			{"op": "TxLoc"}, {"op": "Bytes"}, {"op": "Tx", "i": n - 1}, {"op": "TxHash", "i": 0}, {"op": "TxLoc"}})
	}
	for k := 0; k < c.Pick(12, 120); k++ {
		na := 1 + r.Intn(6)
		c.Call(Event{"op": "TwoBlocks", "na": na, "nb": 1 + r.Intn(na), "salt": int(r.Int31n(60000)), "reader": k%2 == 1})
	}
	for k := 0; k < c.Pick(20, 200); k++ {
		c.Call(Event{"op": "TxWrap", "k": k, "salt": int(r.Int31n(60000)), "setindex": r.Intn(100) - 1, "shape": (k / 3) % 4})
	}
}
