package main

import (
	"math"
)

func gcsCall(c *Ctx, key []byte, p int, m uint64, items [][]byte, queries [][][]byte) Event {
	var q []interface{}
	for _, qq := range queries {
		q = append(q, bytesList(qq))
	}
	if q == nil {
		q = []interface{}{}
	}
	return c.Call(Event{"op": "Gcs", "key": ints(key), "p": p, "m": m8(m), "items": bytesList(items), "qitems": q})
}

func gcsItems(c *Ctx, n int, tag byte) [][]byte {
	out := make([][]byte, n)
	for i := range out {
		l := 1 + c.Rng.Intn(40)
		b := randBytes(c.Rng, l)
		b[0] = tag
		out[i] = b
	}
	return out
}

func gcsParams(c *Ctx, p int) []uint64 {
	two := uint64(1) << uint(p)
	ms := []uint64{two}
	if p > 0 {
		ms = append(ms, 1, two/2+1)
	}
	big := 64 * two
	if big > math.MaxUint32 {
		big = math.MaxUint32
	}
	ms = append(ms, big)
	if p >= 14 && p <= 26 {
		ms = append(ms, 784931)
	}
	ms = append(ms, two+two/2) // not a multiple of 2^P
	return ms
}

func gcsQueries(c *Ctx, items [][]byte) [][][]byte {
	r := c.Rng
	n := len(items)
	non := gcsItems(c, 6, 0xEE)
	qs := [][][]byte{{}, non[:1], non}
	if n > 0 {
		mem := [][]byte{items[r.Intn(n)], items[n-1], items[0]}
		qs = append(qs, mem[:1], mem, append(append([][]byte{}, non[:2]...), mem[0]), [][]byte{mem[0], mem[0], mem[0]})
		// sizes around N/2 (strategy switch), members only at the end
		for _, sz := range []int{n/2 - 1, n / 2, n/2 + 1} {
			if sz < 1 || sz > 40 {
				continue
			}
			q := gcsItems(c, sz, 0xDD)
			if r.Intn(2) == 0 {
				q[sz-1] = items[r.Intn(n)]
			}
			qs = append(qs, q)
		}
	}
	return qs
}

func runC13(c *Ctx) {
	c.Conc = true // stateless calls are also replayed from several goroutines at once
	r := c.Rng
	c.Batch = 20
	keys := [][]byte{make([]byte, 16), randBytes(r, 16), randBytes(r, 16)}
	for i := range keys[1] {
		keys[1][i] = 0xff
	}
	for p := 0; p <= 32; p++ {
		for mi, m := range gcsParams(c, p) {
			var ns []int
			if c.Thorough() {
				for n := 0; n <= 50; n++ {
					ns = append(ns, n)
				}
				ns = append(ns, 100)
			} else {
				ns = []int{0, 1, 2, 3, (p + mi) % 50, 4 + (p*7+mi*3)%46, 100}
			}
			for _, n := range ns {
				items := gcsItems(c, n, 0x11)
				if n >= 1 && (n+p+mi)%3 == 0 { // the empty byte string as a member
					items[0] = []byte{}
				}
				if n >= 3 && (n+p)%4 == 0 { // a multiset: repeated elements
					items[n-1] = items[0]
					items[n-2] = items[1]
				}
				gcsCall(c, keys[(p+n)%3], p, m, items, gcsQueries(c, items))
			}
		}
	}
	// larger sets; N*M >= 2^32 from N = 5472 on (BIP158 parameters)
	big := []int{1100, 5472, 5473}
	if c.Thorough() {
		big = []int{1100, 5471, 5472, 5473, 8195, 11000, 65537}
	}
	for _, n := range big {
		items := gcsItems(c, n, 0x22)
		qs := gcsQueries(c, items)[:6]
		// large query sets (the any-of strategies sort / index them): members hidden among non-members, one member
		// many times over, non-members only
		mixed := gcsItems(c, 150, 0xCC)
		for k := 0; k < 20; k++ {
			mixed[r.Intn(len(mixed))] = items[r.Intn(n)]
		}
		same := make([][]byte, 130)
		for k := range same {
			same[k] = items[n/3]
		}
		qs = append(qs, mixed, same, gcsItems(c, 200, 0xCB), append(gcsItems(c, 127, 0xCA), items[n-1]))
		if n <= 1100 || n == 5473 {
			qs = append(qs, items) // EVERY member asked individually (and all of them at once)
		}
		gcsCall(c, keys[2], 19, 784931, items, qs)
	}
	// N*M just above a power of 256 for small parameters as well (2^8, 2^16, 2^24), with large query sets
	for _, pm := range [][3]int{{4, 16, 17}, {8, 256, 257}, {12, 4096, 4097}, {8, 300, 219}, {16, 65536, 257}} {
		items := gcsItems(c, pm[2], 0x23)
		mixed := gcsItems(c, 140, 0xC9)
		for k := 0; k < 15; k++ {
			mixed[r.Intn(len(mixed))] = items[r.Intn(len(items))]
		}
		gcsCall(c, keys[1], pm[0], uint64(pm[1]), items, [][][]byte{mixed, items, gcsItems(c, 129, 0xC8)})
	}
	// a FRESH filter queried by several goroutines released together (first use of anything the filter builds lazily)
	for round := 0; round < c.Pick(6, 30); round++ {
		items := gcsItems(c, []int{3000, 20000, 60000}[round%3], 0x24)
		q := append(gcsItems(c, 4, 0x98), items[3], items[len(items)-1])
		c.Call(Event{"op": "GcsConc", "items": bytesList(items), "q": bytesList(q), "k": []int{8, 16}[round%2], "malformed": false, "reused": false, "hashfirst": round%3 != 0})
	}
	// planner: non-members whose reduced value equals a member's modulo 2^32 but not exactly
	{
		n := 12000
		items := gcsItems(c, n, 0x33)
		var key [16]byte
		copy(key[:], keys[0])
		nm := uint64(n) * 784931
		low := map[uint32]uint64{}
		for _, it := range items {
			v := refReduce(key, it, nm)
			low[uint32(v)] = v
		}
		var coll [][]byte
		for k := 0; k < c.Pick(12000000, 40000000) && len(coll) < 6; k++ {
			cand := []byte{0x44, byte(k), byte(k >> 8), byte(k >> 16), byte(k >> 24), byte(c.Seed)}
			v := refReduce(key, cand, nm)
			if mv, ok := low[uint32(v)]; ok && mv != v {
				coll = append(coll, cand)
			}
		}
		qs := [][][]byte{}
		for _, cd := range coll {
			qs = append(qs, [][]byte{cd})
		}
		if len(coll) > 1 {
			qs = append(qs, coll)
		}
		qs = append(qs, [][]byte{items[5]})
		gcsCall(c, keys[0], 19, 784931, items, qs)
	}
}

func runC14(c *Ctx) {
	c.Conc = true // stateless calls are also replayed from several goroutines at once
	r := c.Rng
	c.Batch = 20
	// exact bytes / serialisations for a spread of parameters (the Gcs verdict checks them)
	for p := 0; p <= 32; p++ {
		for _, m := range gcsParams(c, p) {
			n := 1 + r.Intn(60)
			items := gcsItems(c, n, 0x55)
			gcsCall(c, randBytes(r, 16), p, m, items, gcsQueries(c, items)[:4])
		}
	}
	// both 32-bit halves of the 128-bit product: N*M >= 2^32
	ns := []int{5472, 8195} // 8195: large, and not a multiple of 2, 4 or 8 (work split between several workers leaves a remainder)
	if c.Thorough() {
		ns = []int{5471, 5472, 6000, 8195, 20001, 70003}
	}
	for _, n := range ns {
		items := gcsItems(c, n, 0x66)
		gcsCall(c, randBytes(r, 16), 19, 784931, items, [][][]byte{{items[1]}, {{1, 2, 3}}})
	}
	// CompactSize boundaries of N
	for _, n := range []int{252, 253, 254} {
		items := gcsItems(c, n, 0x77)
		gcsCall(c, randBytes(r, 16), 20, 1<<20, items, [][][]byte{{items[0]}})
	}
	// block filter builder on random blocks (coinbase skipping, empty scripts, duplicates)
	for k := 0; k < c.Pick(60, 600); k++ {
		n := 1 + r.Intn(6)
		desc := randDesc(c, n, 3)
		if k%3 == 0 { // an empty output script and a duplicated script
			d0 := desc[r.Intn(n)].(map[string]interface{})
			d0["outs"] = append(gList(d0, "outs"), map[string]interface{}{"kind": "emptyscript", "item": 0, "item2": 0})
		}
		if k%4 == 1 { // spent outpoints with large output indexes (every byte of the index matters)
			d0 := desc[n-1].(map[string]interface{})
			for _, idx := range []int64{65535, 65536, 0x01000000, 0x01020304, 0x00010001, math.MaxUint32} {
				d0["ins"] = append(gList(d0, "ins"), map[string]interface{}{"parent": -1, "out": idx, "sig": -1, "ext": r.Intn(200)})
			}
		}
		c.Call(Event{"op": "GcsBuilder", "desc": desc, "salt": int(r.Int31n(60000)), "mempool": k%5 == 4})
	}
	// empty filters: nothing but a coinbase with empty scripts, an empty mempool
	emptyTx := map[string]interface{}{"outs": []interface{}{map[string]interface{}{"kind": "emptyscript", "item": 0, "item2": 0}},
		"ins": []interface{}{map[string]interface{}{"parent": -1, "out": 0, "sig": -1, "ext": 1}}}
	c.Call(Event{"op": "GcsBuilder", "desc": []interface{}{emptyTx}, "salt": 4711, "mempool": false})
	c.Call(Event{"op": "GcsBuilder", "desc": []interface{}{}, "salt": 4712, "mempool": true})
	c.Call(Event{"op": "GcsBuilder", "desc": []interface{}{}, "salt": 4713, "mempool": false})
	// a Build in the middle of a builder's life: whatever is set or added afterwards counts in the next Build
	{
		st := func(k string, kv ...interface{}) map[string]interface{} {
			m := map[string]interface{}{"k": k}
			for i := 0; i+1 < len(kv); i += 2 {
				m[kv[i].(string)] = kv[i+1]
			}
			return m
		}
		base := []interface{}{st("Add", "item", ints([]byte{1})), st("Add", "item", ints([]byte{2, 2})), st("Build")}
		for _, after := range [][]interface{}{
			{st("SetM", "v", int64(1))}, {st("SetM", "v", int64(math.MaxUint32))}, {st("SetM", "v", int64(784930))},
			{st("SetP", "v", 1)}, {st("SetP", "v", 32)}, {st("SetP", "v", 20)}, {st("SetKey", "v", 7)},
			{st("Add", "item", ints([]byte{3}))}, {st("Add", "item", ints([]byte{1}))}, {st("AddHash", "item", ints([]byte{9, 1}))},
			{st("SetM", "v", int64(999)), st("Build"), st("SetM", "v", int64(784931))},
			{st("SetKey", "v", 3), st("Build"), st("SetKey", "v", 0)},
			{st("Build"), st("Build")},
		} {
			prog := append(append([]interface{}{}, base...), after...)
			c.Call(Event{"op": "BuilderHist", "p0": 19, "m0": int64(784931), "prog": prog})
			c.Call(Event{"op": "BuilderHist", "p0": 8, "m0": int64(300), "prog": prog})
		}
	}
	// builder histories: error latch and de-duplication
	for k := 0; k < c.Pick(150, 2000); k++ {
		var prog []interface{}
		for s := 0; s < 1+r.Intn(6); s++ {
			switch r.Intn(7) {
			case 6:
				prog = append(prog, map[string]interface{}{"k": "Build"})
			case 0:
				prog = append(prog, map[string]interface{}{"k": "SetP", "v": []int{1, 19, 32, 33, 200}[r.Intn(5)]})
			case 1:
				prog = append(prog, map[string]interface{}{"k": "SetM", "v": []int64{1, 784931, math.MaxUint32, math.MaxUint32 + 1, 1 << 40}[r.Intn(5)]})
			case 2, 3:
				prog = append(prog, map[string]interface{}{"k": "Add", "item": ints([]byte{byte(r.Intn(4))})})
			case 4:
				prog = append(prog, map[string]interface{}{"k": "AddHash", "item": ints([]byte{byte(r.Intn(3)), 1})})
			case 5:
				prog = append(prog, map[string]interface{}{"k": "SetKey", "v": r.Intn(9)})
			}
		}
		ctors := []string{"KeyPM", "KeyPNM", "Key", "KeyHashPM", "KeyHashPNM", "KeyHash", "RandomKeyPM", "RandomKeyPNM", "RandomKey"}
		if k%2 == 0 { // the less used ways in: lists of entries, keys from hashes, size hints
			switch r.Intn(3) {
			case 0:
				prog = append(prog, map[string]interface{}{"k": "AddEntries", "items": []interface{}{ints([]byte{byte(r.Intn(4))}), ints([]byte{9, byte(r.Intn(3))}), ints([]byte{byte(r.Intn(4))})}})
			case 1:
				prog = append(prog, map[string]interface{}{"k": "SetKeyFromHash", "v": r.Intn(200)})
			case 2:
				prog = append(prog, map[string]interface{}{"k": "Preallocate", "v": []int{0, 1, 1000}[r.Intn(3)]})
			}
			r.Shuffle(len(prog), func(i, j int) { prog[i], prog[j] = prog[j], prog[i] })
		}
		c.Call(Event{"op": "BuilderHist", "ctor": ctors[k%len(ctors)], "n0": []int{0, 1, 5000}[r.Intn(3)], "p0": []int{0, 5, 19, 32, 40}[r.Intn(5)], "m0": []int64{0, 10, 784931, 1 << 33}[r.Intn(4)], "prog": prog})
	}
}
