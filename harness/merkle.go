package main

// Merkle block ops (C11, C12).

import (
	"bytes"
	"math"
	"sort"
	"time"

	"github.com/gcash/bchd/chaincfg/chainhash"
	"github.com/gcash/bchd/wire"
	"github.com/gcash/bchutil"
	"github.com/gcash/bchutil/bloom"
	"github.com/gcash/bchutil/merkleblock"
)

func init() {
	ops["ExtractMsg"] = opExtractMsg
	ops["Proof"] = opProof
	ops["ExtractTwice"] = opExtractMsg
	ops["ExtractAgain"] = opExtractMsg
	families["X02"] = runX02
	families["C11"] = runC11
	families["C12"] = runC12
}

func hashList(l []interface{}) []*chainhash.Hash {
	var out []*chainhash.Hash
	for _, x := range l {
		var h chainhash.Hash
		copy(h[:], gBytes(Event{"x": x}, "x"))
		out = append(out, &h)
	}
	return out
}

func hashesInts(hs []*chainhash.Hash) [][]int {
	out := [][]int{}
	for _, h := range hs {
		out = append(out, ints(h[:]))
	}
	return out
}

func treeWidth(n uint32, h uint) uint32 { return (n + (1 << h) - 1) >> h }

// planPairs is the (untrusted) planner for env facts: it walks the message like a
// partial merkle tree and logs the double-SHA256 of every pair it meets.
func planPairs(n uint32, hashes []*chainhash.Hash, bits []byte) []interface{} {
	env := []interface{}{}
	if n == 0 || n > 1<<27 {
		return env
	}
	height := uint(0)
	for treeWidth(n, height) > 1 {
		height++
	}
	bu, hu := 0, 0
	var rec func(h uint, pos uint32) []byte
	rec = func(h uint, pos uint32) []byte {
		if bu >= len(bits) {
			return make([]byte, 32)
		}
		par := bits[bu]
		bu++
		if h == 0 || par == 0 {
			if hu >= len(hashes) {
				return make([]byte, 32)
			}
			v := hashes[hu][:]
			hu++
			return v
		}
		l := rec(h-1, pos*2)
		r := l
		if pos*2+1 < treeWidth(n, h-1) {
			r = rec(h-1, pos*2+1)
		}
		in := append(append([]byte{}, l...), r...)
		env = append(env, envSha256d(in))
		return sha256d(in)
	}
	rec(height, 0)
	return env
}

func unpackBits(flags []byte) []byte {
	bits := make([]byte, 8*len(flags))
	for i := range bits {
		bits[i] = flags[i/8] >> uint(i%8) & 1
	}
	return bits
}

func opExtractMsg(_ *HState, a Event) Event {
	ntx := gW32(a, "ntx")
	hashes := hashList(gList(a, "hashes"))
	flags := gBytes(a, "flags")
	msg := wire.MsgMerkleBlock{Transactions: ntx, Hashes: hashes, Flags: flags}
	// the transaction limit is an exported variable (it follows the block size): a call may run under a raised limit
	// (such calls take no part in the concurrent replay)
	if lim := gInt(a, "limit"); lim > 0 {
		old := merkleblock.MaxTxnCount
		merkleblock.MaxTxnCount = uint32(lim)
		defer func() { merkleblock.MaxTxnCount = old }()
	}
	e := with(a, "maxtxn", int(merkleblock.MaxTxnCount), "ok", false, "root", []int{}, "matches", [][]int{}, "items", []int{}, "bad", false)
	p, pmsg, hung := guardT(20*time.Second, func() {
		pb := merkleblock.NewMerkleBlockFromMsg(msg)
		root := pb.ExtractMatches()
		if root != nil {
			e["ok"] = true
			e["root"] = ints(root[:])
		}
		e["matches"] = hashesInts(pb.GetMatches())
		it := []int{}
		for _, x := range pb.GetItems() {
			it = append(it, int(x))
		}
		e["items"] = it
		e["bad"] = pb.BadTree()
		if gName(a, "op") == "ExtractTwice" || gName(a, "op") == "ExtractAgain" { // the same object asked again (X02 strict, C12 relaxed)
			r2 := pb.ExtractMatches()
			it2 := []int{}
			for _, x := range pb.GetItems() {
				it2 = append(it2, int(x))
			}
			root2 := []int{}
			if r2 != nil {
				root2 = ints(r2[:])
			}
			e["second"] = map[string]interface{}{"ok": r2 != nil, "root": root2, "bad": pb.BadTree(), "matches": hashesInts(pb.GetMatches()), "items": it2}
		}
	})
	if hung {
		p, pmsg = true, "ExtractMatches did not return within 20s (hang)"
	}
	e["env"] = planPairs(ntx, hashes, unpackBits(flags))
	return panicField(e, p, pmsg)
}

// mkBlock builds a block of n distinct tiny transactions (no intra-block spends).
func mkBlock(n int, salt uint32) *wire.MsgBlock {
	blk := wire.NewMsgBlock(wire.NewBlockHeader(1, &chainhash.Hash{1, 2, 3}, &chainhash.Hash{}, 0x1d00ffff, salt))
	blk.Header.Timestamp = time.Unix(1600000000+int64(salt%100000), 0) // a function of the arguments (NewBlockHeader takes the clock)
	for i := 0; i < n; i++ {
		tx := wire.NewMsgTx(1)
		prev := chainhash.Hash{byte(salt), byte(salt >> 8), 0xEE, byte(i), byte(i >> 8), byte(i >> 16)}
		tx.AddTxIn(wire.NewTxIn(wire.NewOutPoint(&prev, uint32(i)), []byte{0x51}))
		tx.AddTxOut(wire.NewTxOut(int64(1000+i), []byte{0x6a, byte(i), byte(i >> 8)}, wire.TokenData{}))
		blk.AddTransaction(tx)
	}
	return blk
}

func msgEvent(m *wire.MsgMerkleBlock, idx []uint32) map[string]interface{} {
	var hdr bytes.Buffer
	m.Header.Serialize(&hdr)
	ix := []int{}
	for _, x := range idx {
		ix = append(ix, int(x))
	}
	return map[string]interface{}{"ntx": int(m.Transactions), "hashes": hashesInts(m.Hashes), "flags": ints(m.Flags), "indices": ix, "hdr": ints(hdr.Bytes())}
}

func opProof(_ *HState, a Event) Event {
	n := gInt(a, "n")
	var matched []int
	for _, x := range gList(a, "matched") {
		matched = append(matched, int(x.(float64)))
	}
	sort.Ints(matched)
	blk := mkBlock(n, uint32(gInt(a, "salt")))
	var fitems [][]byte
	if desc := gList(a, "desc"); desc != nil {
		// a block with intra-block spends in the given order; the filter watches script items and updates itself
		txs := buildTxs(desc, gInt(a, "salt"))
		blk = wire.NewMsgBlock(wire.NewBlockHeader(1, &chainhash.Hash{1, 2, 3}, &chainhash.Hash{}, 0x1d00ffff, uint32(gInt(a, "salt"))))
		blk.Header.Timestamp = time.Unix(1600000000+int64(gInt(a, "salt")%100000), 0) // not the clock: the call is a function of its arguments
		for _, x := range gList(a, "order") {
			blk.AddTransaction(txs[int(x.(float64))])
		}
		fitems = filterItems(a, txs)
	}
	e := with(a)
	// merkle tree, level by level: tree[h][pos], pairs[h][pos] = the 64 bytes hashed (h >= 1).
	var tree [][][]int
	var pairs [][][]int
	level := [][]byte{}
	for _, tx := range blk.Transactions {
		h := tx.TxHash()
		level = append(level, append([]byte{}, h[:]...))
	}
	for {
		var row [][]int
		for _, v := range level {
			row = append(row, ints(v))
		}
		tree = append(tree, row)
		if len(level) <= 1 {
			break
		}
		var next [][]byte
		var prow [][]int
		for i := 0; i < len(level); i += 2 {
			l := level[i]
			r := l
			if i+1 < len(level) {
				r = level[i+1]
			}
			in := append(append([]byte{}, l...), r...)
			prow = append(prow, ints(in))
			next = append(next, sha256d(in))
		}
		if len(pairs) == 0 {
			pairs = append(pairs, [][]int{})
		}
		pairs = append(pairs, prow)
		level = next
	}
	if len(pairs) == 0 {
		pairs = append(pairs, [][]int{})
	}
	e["tree"], e["pairs"] = tree, pairs
	var bh bytes.Buffer
	blk.Header.Serialize(&bh)
	e["blockhdr"] = ints(bh.Bytes())
	p, pmsg, hung := guardT(60*time.Second, func() {
		block := bchutil.NewBlock(blk)
		var set []*chainhash.Hash
		for _, i := range matched {
			if i >= 0 && i < n {
				h := blk.Transactions[i].TxHash()
				set = append(set, &h)
			}
		}
		// the caller's set is a SET: it is handed over in another order than block order (reversed, or rotated)
		if salt := gInt(a, "salt"); len(set) > 1 {
			if salt%2 == 0 {
				for i, j := 0, len(set)-1; i < j; i, j = i+1, j-1 {
					set[i], set[j] = set[j], set[i]
				}
			} else {
				k := 1 + salt%(len(set)-1)
				set = append(append([]*chainhash.Hash{}, set[k:]...), set[:k]...)
			}
		}
		m1, i1 := merkleblock.NewMerkleBlockWithTxnSet(block, set)
		e["txnset"] = msgEvent(m1, i1)
		// the exported membership helper on the same set: one answer per transaction of the block (small blocks only)
		inset := []bool{}
		if n <= 70 {
			for _, tx := range blk.Transactions {
				h := tx.TxHash()
				inset = append(inset, merkleblock.TxInSet(&h, set))
			}
		}
		e["inset"] = inset
		mkFilter := func() *bloom.Filter {
			if fitems != nil {
				f := bloom.LoadFilter(wire.NewMsgFilterLoad(make([]byte, 4096), 3, 99, wire.BloomUpdateType(gInt(a, "flags"))))
				for _, it := range fitems {
					f.Add(it)
				}
				return f
			}
			f := bloom.NewFilter(uint32(len(set)+1), 12345, 1e-9, wire.BloomUpdateNone)
			for _, h := range set {
				f.AddHash(h)
			}
			return f
		}
		// the SAME block object serves all builders (a node builds one proof per peer from its block): building a
		// proof leaves the block as it was
		m2, i2 := merkleblock.NewMerkleBlockWithFilter(block, mkFilter())
		e["withfilter"] = msgEvent(m2, i2)
		m3, i3 := bloom.NewMerkleBlock(block, mkFilter())
		e["bloom"] = msgEvent(m3, i3)
		// a message that was handed out stays what it was, whatever is built afterwards
		for k, mm := range []*wire.MsgMerkleBlock{m1, m2, m3} {
			mm := mm
			retainFn("Proof", []string{"txnset", "withfilter", "bloom"}[k], func() []byte {
				var b bytes.Buffer
				mm.BchEncode(&b, wire.ProtocolVersion, wire.BaseEncoding)
				return b.Bytes()
			})
		}
		pb := merkleblock.NewMerkleBlockFromMsg(*m1)
		root := pb.ExtractMatches()
		x := map[string]interface{}{"ok": root != nil, "root": []int{}, "matches": hashesInts(pb.GetMatches()), "items": []int{}}
		if root != nil {
			x["root"] = ints(root[:])
		}
		it := []int{}
		for _, v := range pb.GetItems() {
			it = append(it, int(v))
		}
		x["items"] = it
		e["extract"] = x
		// the same object asked again gives the same root, hashes and positions
		root2 := pb.ExtractMatches()
		it2 := []int{}
		for _, v := range pb.GetItems() {
			it2 = append(it2, int(v))
		}
		x2 := map[string]interface{}{"ok": root2 != nil, "root": []int{}, "matches": hashesInts(pb.GetMatches()), "items": it2}
		if root2 != nil {
			x2["root"] = ints(root2[:])
		}
		e["extract2"] = x2
	})
	if hung {
		p, pmsg = true, "proof construction did not return within 60s (hang)"
	}
	return panicField(e, p, pmsg)
}

func subsetList(mask int, n int) []int {
	out := []int{}
	for i := 0; i < n; i++ {
		if mask>>uint(i)&1 == 1 {
			out = append(out, i)
		}
	}
	return out
}

func runC11(c *Ctx) {
	c.Conc = true // proofs are stateless calls: replayed in other orders and from 8 goroutines at once
	c.Batch = 20
	r := c.Rng
	proof := func(n int, m []int) {
		c.Call(Event{"op": "Proof", "n": n, "matched": m, "salt": int(r.Int31())})
	}
	// all subsets for small n (quick: n <= 7 plus a seeded slice of n = 8..10; thorough: n <= 12)
	full := c.Pick(7, 10)
	for n := 1; n <= full; n++ {
		for mask := 0; mask < 1<<uint(n); mask++ {
			proof(n, subsetList(mask, n))
		}
	}
	for n := full + 1; n <= 12; n++ {
		for k := 0; k < c.Pick(40, 1500); k++ {
			proof(n, subsetList(r.Intn(1<<uint(n)), n))
		}
	}
	// every n up to 65 with structured subsets
	for n := 1; n <= 65; n++ {
		var alt, edge []int
		for i := 0; i < n; i += 2 {
			alt = append(alt, i)
		}
		edge = append(edge, n-1)
		if n > 1 {
			edge = append(edge, n-2)
		}
		all := subsetList((1<<uint(minInt(n, 30)))-1, minInt(n, 30))
		for i := 30; i < n; i++ {
			all = append(all, i)
		}
		for _, m := range [][]int{{}, all, {0}, {n / 2}, {n - 1}, edge, alt} {
			proof(n, m)
		}
		if c.Thorough() {
			for i := 0; i < n; i++ {
				proof(n, []int{i})
			}
		}
	}
	// many matches: aligned subtrees holding 255 / 256 / 257 / 512 chosen transactions
	for _, n := range []int{255, 256, 257, 300, 512, 513, 700} {
		if !c.Thorough() && n != 256 && n != 300 && n != 700 && n != 513 {
			continue
		}
		all := []int{}
		for i := 0; i < n; i++ {
			all = append(all, i)
		}
		proof(n, all)
		proof(n, all[:minInt(n, 256)])
		proof(n, all[n-minInt(n, 256):])
		if n >= 512 {
			var sc []int
			for i := 0; i < n && len(sc) < 256; i += 2 {
				sc = append(sc, i)
			}
			proof(n, sc)
		}
	}
	// filter-induced subsets on blocks with intra-block spends, in topological / reverse / random order:
	// the two filter-driven builders must agree on message and index list
	for k := 0; k < c.Pick(120, 1500); k++ {
		nn := 2 + r.Intn(5)
		desc := randDesc(c, nn, 3)
		fit := randFItems(c, desc, 3)
		ord := r.Perm(nn)
		if k%3 == 0 {
			for i := range ord {
				ord[i] = nn - 1 - i
			}
		}
		c.Call(Event{"op": "Proof", "n": nn, "matched": []int{}, "salt": int(r.Int31n(50000)), "desc": desc, "order": ord, "fitems": fit, "flags": 1 + k%2})
	}
	// sparse choices in a 4096-transaction block: whole flag bytes of zeros (eight unflagged nodes in a row) directly
	// followed by a flagged node
	for _, m := range [][]int{{3584, 3840}, {0, 256}, {2048, 2304, 4095}, {255, 256}, {3585, 3840}} {
		proof(4096, m)
	}
	// block sizes around and above 1024 / 2048 that are not multiples of 2, 4, 8 (leaf hashing or level building split
	// between several workers leaves a remainder; the last leaves are chosen)
	for _, n := range []int{1023, 1027, 2053} {
		if !c.Thorough() && n != 1027 {
			continue
		}
		proof(n, []int{0, n / 2, n - 3, n - 2, n - 1})
		proof(n, []int{n - 1})
	}
	// larger random blocks
	for k := 0; k < c.Pick(3, 30); k++ {
		n := 66 + r.Intn(c.Pick(400, 4000))
		var m []int
		for i := 0; i < n; i++ {
			if r.Intn(1+k%7*3) == 0 {
				m = append(m, i)
			}
		}
		proof(n, m)
	}
}

func minInt(a, b int) int {
	if a < b {
		return a
	}
	return b
}

// ---------------------------------------------------------------------------- C12

func runC12(c *Ctx) {
	c.Conc = true // stateless calls are also replayed from several goroutines at once
	r := c.Rng
	atoms := [][]byte{nil, randBytes(r, 32), randBytes(r, 32), randBytes(r, 32)}
	nExtract := 0
	limited := 0 // > 0: the next extractions run under this transaction limit
	extract := func(ntx uint32, hs [][]byte, flags []byte) Event {
		hl := [][]int{}
		for _, h := range hs {
			hl = append(hl, ints(h))
		}
		// every third message is asked twice (the second answer is judged as well: what was refused stays refused)
		nExtract++
		op := "ExtractMsg"
		if nExtract%3 == 0 {
			op = "ExtractAgain"
		}
		if limited > 0 {
			return c.Call(Event{"op": op, "ntx": w32(ntx), "hashes": hl, "flags": ints(flags), "limit": limited})
		}
		return c.Call(Event{"op": op, "ntx": w32(ntx), "hashes": hl, "flags": ints(flags)})
	}
	// TLC-generated equivalence classes of messages (lazily chosen), tail filled with 0s and 1s
	for _, cs := range readCases(c.Cases) {
		n := gInt(cs, "n")
		nb, nh := gInt(cs, "nbits"), gInt(cs, "nhashes")
		for fill := 0; fill < 2; fill++ {
			bits := gBytes(cs, "bits")
			for len(bits) < nb {
				bits = append(bits, byte(fill))
			}
			flags := make([]byte, nb/8)
			for i, b := range bits {
				flags[i/8] |= b << uint(i%8)
			}
			var hs [][]byte
			for _, x := range gList(cs, "hashes") {
				hs = append(hs, atoms[int(x.(float64))])
			}
			for len(hs) < nh {
				hs = append(hs, atoms[1+fill])
			}
			extract(uint32(n), hs, flags)
		}
	}
	// mutation of honest proofs
	// CVE-2012-2459 in its mixed form: the transaction list of a block whose tree duplicates a FULL subtree at some level
	// is extended by a copy of that subtree's leaves (same merkle root, more transactions).  In the proof the original
	// subtree is given verbatim as ONE hash and the copy is descended into (a leaf of it is "matched"): the two equal
	// children are one message hash and one computed hash, and all message hashes are pairwise distinct.
	for _, nh := range [][2]int{{6, 1}, {10, 1}, {12, 2}, {20, 2}, {24, 3}, {14, 1}, {28, 2}} {
		n, h := nh[0], uint(nh[1])
		blk := mkBlock(n, r.Uint32())
		var leaves [][]byte
		for _, tx := range blk.Transactions {
			th := tx.TxHash()
			leaves = append(leaves, append([]byte{}, th[:]...))
		}
		forged := append(append([][]byte{}, leaves...), leaves[n-(1<<h):]...)
		for _, pick := range []int{n, len(forged) - 1} { // first / last leaf of the copy
			hs, flags := refPartial(forged, map[int]bool{pick: true})
			extract(uint32(len(forged)), hs, flags)
		}
		hs, flags := refPartial(forged, map[int]bool{n - 1: true}) // the original descended into, the copy verbatim
		extract(uint32(len(forged)), hs, flags)
	}
	for k := 0; k < c.Pick(150, 1500); k++ {
		n := 1 + r.Intn(40)
		if k%10 == 0 {
			n = 1 + r.Intn(300)
		}
		blk := mkBlock(n, r.Uint32())
		var set []*chainhash.Hash
		for i := 0; i < n; i++ {
			if r.Intn(4) == 0 {
				h := blk.Transactions[i].TxHash()
				set = append(set, &h)
			}
		}
		m, _ := merkleblock.NewMerkleBlockWithTxnSet(bchutil.NewBlock(blk), set)
		var hs [][]byte
		for _, h := range m.Hashes {
			hs = append(hs, append([]byte{}, h[:]...))
		}
		flags := append([]byte{}, m.Flags...)
		ntx := m.Transactions
		extract(ntx, hs, flags) // honest
		for mut := 0; mut < 6; mut++ {
			h2 := append([][]byte{}, hs...)
			f2 := append([]byte{}, flags...)
			n2 := ntx
			switch (k + mut) % 9 {
			case 0: // flip a flag bit
				if len(f2) > 0 {
					f2[r.Intn(len(f2))] ^= 1 << uint(r.Intn(8))
				}
			case 1: // drop a hash
				if len(h2) > 0 {
					i := r.Intn(len(h2))
					h2 = append(h2[:i:i], h2[i+1:]...)
				}
			case 2: // duplicate a hash (CVE-2012-2459 style)
				if len(h2) > 0 {
					i := r.Intn(len(h2))
					h2 = append(h2[:i+1:i+1], h2[i:]...)
				}
			case 3: // swap two hashes
				if len(h2) > 1 {
					i, j := r.Intn(len(h2)), r.Intn(len(h2))
					h2[i], h2[j] = h2[j], h2[i]
				}
			case 4: // altered count
				n2 = uint32(int(ntx) + []int{-1, 1, 2, int(ntx)}[r.Intn(4)])
			case 5: // truncated flags
				if len(f2) > 0 {
					f2 = f2[:len(f2)-1]
				}
			case 6: // extended flags
				f2 = append(f2, byte(r.Intn(256)))
			case 7: // make two siblings equal
				if len(h2) > 1 {
					i := r.Intn(len(h2) - 1)
					h2[i+1] = h2[i]
				}
			case 8: // last transaction duplicated: count + 1 with the same hashes
				n2 = ntx + 1
				if len(h2) > 0 {
					h2 = append(h2, h2[len(h2)-1])
				}
			}
			extract(n2, h2, f2)
		}
	}
	// declared counts: zero, the limit, beyond it, maxima
	max := uint32(merkleblock.MaxTxnCount)
	for _, n := range []uint32{0, max - 1, max, max + 1, 1 << 31, math.MaxUint32} {
		extract(n, [][]byte{atoms[1]}, []byte{1})
		extract(n, [][]byte{atoms[1], atoms[2]}, []byte{0xff, 0xff, 0xff})
		extract(n, nil, nil)
	}
	// structurally consistent proofs for counts beyond the limit: the path to the leftmost transaction (height+1 set
	// bits, one unset bit and one hash per right sibling); and counts near 2^32 whose tree width wraps in 32 bits
	pathProof := func(n uint32) {
		h := 0
		for (uint64(n)+(uint64(1)<<uint(h))-1)>>uint(h) > 1 {
			h++
		}
		nb := 2*h + 1
		flags := make([]byte, (nb+7)/8)
		for i := 0; i <= h; i++ {
			flags[i/8] |= 1 << uint(i%8)
		}
		hs := [][]byte{atoms[1]}
		for i := 0; i < h; i++ {
			hs = append(hs, atoms[2+i%2])
		}
		extract(n, hs, flags)
	}
	for _, n := range []uint32{max - 1, max, max + 1, max + 2, max + max/3, 1 << 22, 1<<22 - 1, 1<<22 + 1, 1 << 23, 1 << 26} {
		pathProof(n)
	}
	// the same under a raised limit (bigger blocks): counts around 2^20 .. 2^26 are then legal and must be traversed at
	// their real height
	for _, n := range []uint32{1 << 20, 1<<20 + 1, 1<<21 - 1, 1 << 21, 1<<22 + 1, 1 << 26} {
		limited = int(n) + 5
		pathProof(n)
		limited = int(n) - 1
		pathProof(n)
		limited = 0
	}
	for _, n := range []uint32{math.MaxUint32, math.MaxUint32 - 1, math.MaxUint32 - 2, 1<<31 + 1, 1<<32 - 1<<10} {
		for _, fl := range []byte{0x07, 0x03, 0x05, 0x01} {
			extract(n, [][]byte{atoms[1], atoms[2]}, []byte{fl})
		}
		extract(n, [][]byte{atoms[1], atoms[2], atoms[0]}, []byte{0x1f})
	}
	// the same object asked a second time: it either refuses, or gives the same answer again (never more matches)
	twice(c, "ExtractAgain", c.Pick(60, 600))
}

// growth X02: PartialBlock objects are single-use
func runX02(c *Ctx) { twice(c, "ExtractTwice", c.Pick(300, 3000)) }

// twice: honest proofs extracted twice from the same object (op = ExtractTwice: strict single-use reading of X02;
// op = ExtractAgain: what C12 itself demands of a second call)
func twice(c *Ctx, op string, rounds int) {
	r := c.Rng
	for k := 0; k < rounds; k++ {
		n := 1 + r.Intn(40)
		blk := mkBlock(n, r.Uint32())
		var set []*chainhash.Hash
		for i := 0; i < n; i++ {
			if r.Intn(3) == 0 {
				h := blk.Transactions[i].TxHash()
				set = append(set, &h)
			}
		}
		m, _ := merkleblock.NewMerkleBlockWithTxnSet(bchutil.NewBlock(blk), set)
		hl := [][]int{}
		for _, h := range m.Hashes {
			hl = append(hl, ints(h[:]))
		}
		flags := append([]byte{}, m.Flags...)
		if k%3 == 0 && len(flags) > 0 { // non-canonical padding bits (accepted by the first extraction)
			flags[len(flags)-1] |= 0x80
		}
		c.Call(Event{"op": op, "ntx": w32(m.Transactions), "hashes": hl, "flags": ints(flags)})
	}
}

// refPartial builds a BIP37 partial merkle tree over the given leaves for the leaves chosen BY POSITION (the library's
// builders choose by hash, which cannot tell a duplicated leaf from its original).  Input builder only: what the real
// extractor makes of the message is judged by the specification.
func refPartial(leaves [][]byte, chosen map[int]bool) (hashes [][]byte, flags []byte) {
	n := uint32(len(leaves))
	height := uint(0)
	for treeWidth(n, height) > 1 {
		height++
	}
	var node func(h uint, pos uint32) []byte
	node = func(h uint, pos uint32) []byte {
		if h == 0 {
			return leaves[pos]
		}
		l := node(h-1, 2*pos)
		r := l
		if 2*pos+1 < treeWidth(n, h-1) {
			r = node(h-1, 2*pos+1)
		}
		return sha256d(append(append([]byte{}, l...), r...))
	}
	var bits []byte
	var walk func(h uint, pos uint32)
	walk = func(h uint, pos uint32) {
		any := false
		for i := pos << h; i < (pos+1)<<h && i < n; i++ {
			any = any || chosen[int(i)]
		}
		if any {
			bits = append(bits, 1)
		} else {
			bits = append(bits, 0)
		}
		if h == 0 || !any {
			hashes = append(hashes, node(h, pos))
			return
		}
		walk(h-1, 2*pos)
		if 2*pos+1 < treeWidth(n, h-1) {
			walk(h-1, 2*pos+1)
		}
	}
	walk(height, 0)
	flags = make([]byte, (len(bits)+7)/8)
	for i, b := range bits {
		flags[i/8] |= b << uint(i%8)
	}
	return hashes, flags
}
