package main

// C19: coin sets and selectors.

import (
	"github.com/gcash/bchd/chaincfg/chainhash"
	"github.com/gcash/bchd/wire"
	"github.com/gcash/bchutil"
	"github.com/gcash/bchutil/coinset"
	"sync"
)

func init() {
	ops["Select"] = opSelect
	ops["SelectBig"] = opSelect
	ops["SimpleCoin"] = opSimpleCoin
	for _, op := range []string{"CsNew", "CsPush", "CsPop", "CsShift", "CsObserve", "CsFinal"} {
		ops[op] = opCoinSet
	}
	families["C19"] = runC19
}

type tCoin struct {
	id    int
	value int64
	confs int64
	hash  chainhash.Hash
	index uint32
}

func (c *tCoin) Hash() *chainhash.Hash { return &c.hash }
func (c *tCoin) Index() uint32         { return c.index }
func (c *tCoin) Value() bchutil.Amount { return bchutil.Amount(c.value) }
func (c *tCoin) PkScript() []byte      { return nil }
func (c *tCoin) NumConfs() int64       { return c.confs }
func (c *tCoin) ValueAge() int64       { return c.confs * c.value }

func mkCoin(m map[string]interface{}) *tCoin {
	c := &tCoin{id: gInt(m, "id"), value: gInt64(m, "value"), confs: gInt64(m, "confs"), index: uint32(gInt(m, "index"))}
	// txk names the funding transaction (several coins may be outputs of one transaction); default: one each
	txk := c.id
	if v, ok := m["txk"]; ok {
		txk = gInt(Event{"x": v}, "x")
	}
	c.hash = chainhash.Hash{byte(txk), byte(txk >> 8), 0xC0}
	return c
}

// opSimpleCoin: the library's own Coin implementation (an output of a wrapped transaction with a confirmation count):
// what it reports is what the transaction says, and it selects like any other coin.
func opSimpleCoin(_ *HState, a Event) Event {
	vals := gList(a, "values")
	tx := wire.NewMsgTx(1)
	for i, v := range vals {
		tx.AddTxOut(wire.NewTxOut(gInt64(Event{"x": v}, "x"), []byte{0x51, byte(i)}, wire.TokenData{}))
	}
	th := tx.TxHash()
	e := with(a, "fresh", ints(th[:]), "coins", []interface{}{})
	p, msg := guard(func() {
		wtx := bchutil.NewTx(tx)
		var obs []interface{}
		var offered []coinset.Coin
		for i := range vals {
			sc := &coinset.SimpleCoin{Tx: wtx, TxIndex: uint32(i), TxNumConfs: gInt64(a, "confs") + int64(i)}
			offered = append(offered, sc)
			h := sc.Hash()
			obs = append(obs, map[string]interface{}{"hash": ints(h[:]), "index": int(sc.Index()), "value": int(sc.Value()), "confs": int(sc.NumConfs()),
				"va": int(sc.ValueAge()), "script": ints(sc.PkScript())})
		}
		e["coins"] = obs
		cs := coinset.NewCoinSet(offered)
		e["total"], e["totalage"], e["num"] = int(cs.TotalValue()), int(cs.TotalValueAge()), cs.Num()
	})
	return panicField(e, p, msg)
}

func coinList(a Event, k string) []coinset.Coin {
	var out []coinset.Coin
	for _, x := range gList(a, k) {
		out = append(out, mkCoin(x.(map[string]interface{})))
	}
	return out
}

// The offered list of successive calls lives in a re-used backing array (per length; each running call owns its
// array exclusively): a selector that remembers anything about "the slice at this address" sees other contents there.
var (
	coinBufMu   sync.Mutex
	coinBufFree = map[int][][]coinset.Coin{}
)

func borrowCoinBuf(n int) []coinset.Coin {
	coinBufMu.Lock()
	defer coinBufMu.Unlock()
	if l := coinBufFree[n]; len(l) > 0 {
		b := l[len(l)-1]
		coinBufFree[n] = l[:len(l)-1]
		return b
	}
	return make([]coinset.Coin, n)
}

func returnCoinBuf(b []coinset.Coin) {
	coinBufMu.Lock()
	coinBufFree[len(b)] = append(coinBufFree[len(b)], b)
	coinBufMu.Unlock()
}

func opSelect(_ *HState, a Event) Event {
	fresh := coinList(a, "coins")
	coins := borrowCoinBuf(len(fresh))
	copy(coins, fresh)
	defer returnCoinBuf(coins)
	var sel coinset.CoinSelector
	mi, mc, ma := gInt(a, "maxinputs"), bchutil.Amount(gInt64(a, "minchange")), gInt64(a, "minavg")
	switch gName(a, "selector") {
	case "MinIndex":
		sel = coinset.MinIndexCoinSelector{MaxInputs: mi, MinChangeAmount: mc}
	case "MinNumber":
		sel = coinset.MinNumberCoinSelector{MaxInputs: mi, MinChangeAmount: mc}
	case "MaxValueAge":
		sel = coinset.MaxValueAgeCoinSelector{MaxInputs: mi, MinChangeAmount: mc}
	case "MinPriority":
		sel = coinset.MinPriorityCoinSelector{MaxInputs: mi, MinChangeAmount: mc, MinAvgValueAgePerInput: ma}
	}
	e := with(a, "ok", false, "sel", []int{})
	p, msg := guard(func() {
		res, err := sel.CoinSelect(bchutil.Amount(gInt64(a, "target")), coins)
		if err != nil {
			return
		}
		e["ok"] = true
		ids := []int{}
		for _, c := range res.Coins() {
			id := 0
			for k, oc := range coins { // identity of the returned coin among the offered ones
				if oc == c {
					id = k + 1
				}
			}
			ids = append(ids, id)
		}
		e["sel"] = ids
		// a selection that was handed out stays what it was, whatever is selected afterwards
		retainFn("Select", "coins", func() []byte {
			var b []byte
			for _, c := range res.Coins() {
				tc, _ := c.(*tCoin)
				if tc == nil {
					b = append(b, 0xff, 0xff)
					continue
				}
				b = append(b, byte(tc.id>>8), byte(tc.id))
			}
			return b
		})
	})
	return panicField(e, p, msg)
}

func csPost(cs *coinset.CoinSet) map[string]interface{} {
	ids := []int{}
	for _, c := range cs.Coins() {
		ids = append(ids, c.(*tCoin).id)
	}
	tx := coinset.NewMsgTxWithInputCoins(1, cs)
	ins := [][]int{}
	for _, in := range tx.TxIn {
		ins = append(ins, []int{int(in.PreviousOutPoint.Hash[0]) | int(in.PreviousOutPoint.Hash[1])<<8, int(in.PreviousOutPoint.Index)})
	}
	return map[string]interface{}{"num": cs.Num(), "total": int(cs.TotalValue()), "totalage": int(cs.TotalValueAge()), "ids": ids, "txins": ins}
}

func opCoinSet(h *HState, a Event) Event {
	e := with(a)
	p, msg := guard(func() {
		switch gName(a, "op") {
		case "CsNew":
			h.Obj["cs"] = coinset.NewCoinSet(coinList(a, "coins"))
		case "CsPush":
			h.Obj["cs"].(*coinset.CoinSet).PushCoin(mkCoin(a["coin"].(map[string]interface{})))
		case "CsPop", "CsShift":
			cs := h.Obj["cs"].(*coinset.CoinSet)
			var c coinset.Coin
			if gName(a, "op") == "CsPop" {
				c = cs.PopCoin()
			} else {
				c = cs.ShiftCoin()
			}
			e["ret"] = 0
			if c != nil {
				e["ret"] = c.(*tCoin).id
			}
		}
		if gName(a, "op") == "CsFinal" { // final observation of a history (DeferredOp)
			e["all"] = csPost(h.Obj["cs"].(*coinset.CoinSet))
			return
		}
		if !gBool(a, "noobs") { // the quiet second execution does not read the totals between the calls
			e["post"] = csPost(h.Obj["cs"].(*coinset.CoinSet))
		}
	})
	return panicField(e, p, msg)
}

func coinRec(id int, v, cf int64) map[string]interface{} {
	return map[string]interface{}{"id": id, "value": v, "confs": cf, "index": id % 5, "txk": id}
}

// coinOfTx: a coin that is output `index` of funding transaction txk
func coinOfTx(id, txk, index int, v, cf int64) map[string]interface{} {
	return map[string]interface{}{"id": id, "value": v, "confs": cf, "index": index, "txk": txk}
}

func runC19(c *Ctx) {
	c.DeferredOp = "CsFinal"
	// coins whose value-ages lie above 2^53 and differ by less than a double can tell (planner: neighbouring products of
	// factors near 2^27), the smaller one offered first: a ranking on rounded keys gets them the wrong way round
	for k := 0; k < c.Pick(40, 400); k++ {
		// v1 * (v1 + 1 - d) and (v1 + 1) * (v1 - d) differ by exactly d
		v1 := int64(1<<27) + c.Rng.Int63n(1<<27)
		d := 1 + c.Rng.Int63n(3)
		b, a := coinRec(1, v1+1, v1-d), coinRec(2, v1, v1+1-d) // the smaller value-age (b) is offered first
		small := coinRec(3, 5, 1)
		for _, sn := range []string{"MaxValueAge", "MinNumber"} {
			c.Call(Event{"op": "SelectBig", "selector": sn, "coins": []interface{}{b, a, small}, "target": 1, "maxinputs": 1 + k%3, "minchange": 0, "minavg": 0})
			c.Call(Event{"op": "SelectBig", "selector": sn, "coins": []interface{}{small, b, a}, "target": int(v1), "maxinputs": 3, "minchange": 0, "minavg": 0})
		}
	}
	for k := 0; k < c.Pick(30, 300); k++ { // the library's own coin type
		n := 1 + c.Rng.Intn(5)
		var vals []int
		for i := 0; i < n; i++ {
			vals = append(vals, []int{0, 1, 5, 1000, 20000}[c.Rng.Intn(5)])
		}
		c.Call(Event{"op": "SimpleCoin", "values": vals, "confs": c.Rng.Intn(4)})
	}
	c.Conc = true // stateless calls are also replayed from several goroutines at once
	r := c.Rng
	selectors := []string{"MinIndex", "MinNumber", "MaxValueAge", "MinPriority"}
	sel := func(coins []interface{}, name string, target, mi, mc, ma int) {
		c.Call(Event{"op": "Select", "selector": name, "coins": coins, "target": target, "maxinputs": mi, "minchange": mc, "minavg": ma})
	}
	// exhaustive small scope: coin lists up to L over values {0..3} x confirmations {0,1,2}
	L := c.Pick(3, 4)
	vals := []int64{0, 1, 2, 3}
	cfs := []int64{0, 1, 2}
	var lists [][]interface{}
	var rec func(cur []interface{})
	rec = func(cur []interface{}) {
		if len(cur) > 0 {
			lists = append(lists, append([]interface{}{}, cur...))
		}
		if len(cur) == L {
			return
		}
		for _, v := range vals {
			for _, cf := range cfs {
				rec(append(cur, coinRec(len(cur)+1, v, cf)))
			}
		}
	}
	rec(nil)
	lists = append(lists, []interface{}{})
	for li, l := range lists {
		if !c.Thorough() && len(l) == 3 && (li+int(c.Seed))%3 != 0 {
			continue
		}
		if c.Thorough() && len(l) == 4 && (li+int(c.Seed))%9 != 0 {
			continue
		}
		for t := 0; t <= 7; t++ {
			if (t+li)%2 == 1 && len(l) >= 3 {
				continue
			}
			mi := 1 + (li+t)%3
			mc := (li / 3) % 2
			ma := []int{0, 1, 2, 4}[(li+t)%4]
			for _, s := range selectors {
				sel(l, s, t, mi, mc, ma)
			}
		}
	}
	// the design's concrete counterexample shapes and random lists up to 12 coins
	hard := []interface{}{coinRec(1, 2, 1), coinRec(2, 1, 0), coinRec(3, 1, 0), coinRec(4, 1, 0)}
	for _, p := range [][3]int{{3, 1, 1}, {4, 3, 1}, {3, 2, 1}, {5, 3, 1}, {4, 2, 0}} {
		for _, s := range selectors {
			sel(hard, s, p[0], p[1], 0, p[2])
		}
	}
	// wide spreads of confirmations: old dust (tiny value, huge value-age), big young coins, and a demanding minimum
	// average value-age -- the priority selector's windows, top-ups and extensions all come into play
	for k := 0; k < c.Pick(1500, 20000); k++ {
		n := 2 + r.Intn(5)
		var l []interface{}
		for i := 0; i < n; i++ {
			l = append(l, coinRec(i+1, []int64{1, 5, 10, 50, 3}[r.Intn(5)], []int64{0, 1, 20, 160, 1500, 5}[r.Intn(6)]))
		}
		sel(l, "MinPriority", []int{1, 5, 10, 11, 15, 60}[r.Intn(6)], 1+r.Intn(4), []int{0, 1, 5, 10}[r.Intn(4)], []int{10, 100, 850, 1000, 2000, 300}[r.Intn(6)])
	}
	// exact-match targets with a large minimum change: any extra coin invalidates the total
	found := []interface{}{coinRec(1, 2, 1), coinRec(2, 0, 2), coinRec(3, 5, 0), coinRec(4, 1, 0), coinRec(5, 0, 3), coinRec(6, 3, 1), coinRec(7, 0, 0),
		coinRec(8, 1, 0), coinRec(9, 4, 3), coinRec(10, 3, 0), coinRec(11, 5, 2)}
	for _, s := range selectors {
		sel(found, s, 8, 7, 3, 3)
	}
	for k := 0; k < c.Pick(1200, 20000); k++ {
		n := 2 + r.Intn(10)
		var l []interface{}
		tgt := 0
		for i := 0; i < n; i++ {
			v := int64(r.Intn(7))
			l = append(l, coinRec(i+1, v, int64(r.Intn(4))))
			if r.Intn(3) == 0 {
				tgt += int(v)
			}
		}
		sel(l, selectors[3-k%2*k%4%4], tgt, 1+r.Intn(n+1), 2+r.Intn(4), r.Intn(5))
	}
	for k := 0; k < c.Pick(1500, 30000); k++ {
		n := r.Intn(13)
		var l []interface{}
		for i := 0; i < n; i++ {
			v := int64(r.Intn(6))
			if r.Intn(4) == 0 {
				v = int64(r.Intn(1000))
			}
			l = append(l, coinRec(i+1, v, int64(r.Intn(4))))
		}
		if l == nil {
			l = []interface{}{}
		}
		tot := 0
		for _, x := range l {
			tot += int(x.(map[string]interface{})["value"].(int64))
		}
		sel(l, selectors[k%4], r.Intn(tot+3), r.Intn(n+2), r.Intn(4), r.Intn(6))
	}
	c.Flush()
	// coin set histories (push / pop / shift incl. on empty sets), reading the contents in between
	for _, cs := range readCases(c.Cases) {
		calls := []Event{{"op": "CsNew", "coins": []interface{}{}}}
		id := 1
		for _, x := range gList(cs, "ops") {
			switch x.(string) {
			case "push":
				calls = append(calls, Event{"op": "CsPush", "coin": coinRec(id, int64(id%4), int64(id%3))})
				id++
			case "pop":
				calls = append(calls, Event{"op": "CsPop"})
			case "shift":
				calls = append(calls, Event{"op": "CsShift"})
			case "read":
				calls = append(calls, Event{"op": "CsObserve"})
			}
		}
		c.Run(calls)
	}
	// several outputs of ONE funding transaction in a set (same hash, different index), an unrelated coin in between
	for k := 0; k < c.Pick(10, 100); k++ {
		calls := []Event{{"op": "CsNew", "coins": []interface{}{coinOfTx(1, 700+k, 0, 10, 1)}},
			{"op": "CsPush", "coin": coinRec(2, 5, 2)}, {"op": "CsPush", "coin": coinOfTx(3, 700+k, 2, 7, 3)}, {"op": "CsObserve"},
			{"op": "CsPush", "coin": coinOfTx(4, 700+k, 1, 1, 0)}, {"op": "CsObserve"}}
		for s := 0; s < k%4; s++ {
			calls = append(calls, Event{"op": []string{"CsShift", "CsPop"}[(k+s)%2]}, Event{"op": "CsObserve"})
		}
		c.Run(calls)
	}
	for k := 0; k < c.Pick(150, 2000); k++ {
		var init []interface{}
		id := 1
		for i := 0; i < r.Intn(4); i++ {
			init = append(init, coinRec(id, int64(r.Intn(50)), int64(r.Intn(5))))
			id++
		}
		if init == nil {
			init = []interface{}{}
		}
		calls := []Event{{"op": "CsNew", "coins": init}}
		for s := 0; s < 5+r.Intn(25); s++ {
			switch r.Intn(5) {
			case 0, 1:
				calls = append(calls, Event{"op": "CsPush", "coin": coinRec(id, int64(r.Intn(50)), int64(r.Intn(5)))})
				id++
			case 2:
				calls = append(calls, Event{"op": "CsPop"})
			case 3:
				calls = append(calls, Event{"op": "CsShift"})
			case 4:
				calls = append(calls, Event{"op": "CsObserve"})
			}
		}
		c.Run(calls)
	}
}
