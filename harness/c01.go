package main

import (
	"github.com/gcash/bchd/chaincfg"
	"strings"

	"github.com/gcash/bchd/bchec"
)

func init() {
	families["C01"] = runC01
	families["C02"] = runC02
	families["C03"] = runC03
}

func newAddr(c *Ctx, ctor string, net int, data []byte) Event {
	return c.Call(Event{"op": "NewAddr", "ctor": ctor, "net": net, "data": ints(data)})
}

var nDecode int

func decode(c *Ctx, s string, net int) Event {
	// the CashAddr reader underneath is an entry point of its own (prefix-qualified strings only): every seventh
	// string is also given to it directly
	if nDecode++; nDecode%7 == 0 && strings.Contains(s, ":") {
		decodeCash(c, s)
	}
	return c.Call(Event{"op": "Decode", "s": str(s), "net": net})
}
func decodeCash(c *Ctx, s string) Event { return c.Call(Event{"op": "DecodeCash", "s": str(s)}) }

var cashCtors20 = []string{"PubKeyHash", "ScriptHashFromHash", "SlpPubKeyHash", "SlpScriptHashFromHash"}
var cashCtors32 = []string{"ScriptHash32FromHash", "SlpScriptHash32FromHash"}
var legacyCtors = []string{"LegacyPubKeyHash", "LegacyScriptHashFromHash"}

func isSlpCtor(s string) bool { return strings.HasPrefix(s, "Slp") }

// renderings decodes every documented rendering of an encoded address on net.
func renderings(c *Ctx, e Event, ctor string, net int) {
	if !gBool(e, "ok") {
		return
	}
	enc := gStr(e, "enc")
	n := nets[net-1]
	switch {
	case strings.HasPrefix(ctor, "Legacy"):
		decode(c, enc, net)
	case ctor == "PubKey":
		s := gStr(e, "str")
		decode(c, s, net)
		decode(c, strings.ToUpper(s), net)
		decode(c, enc, net)
	default:
		prefix := n.CashAddressPrefix
		if isSlpCtor(ctor) {
			prefix = n.SlpAddressPrefix
			if prefix == "" {
				return
			}
		}
		decode(c, enc, net)
		decode(c, strings.ToUpper(enc), net)
		decode(c, prefix+":"+enc, net)
		decode(c, strings.ToUpper(prefix+":"+enc), net)
	}
}

func hashPatterns(c *Ctx, n int, full bool) [][]byte {
	var out [][]byte
	z := make([]byte, n)
	out = append(out, z)
	ff := make([]byte, n)
	for i := range ff {
		ff[i] = 0xff
	}
	out = append(out, ff)
	for k := 1; k < n; k++ { // k leading zero bytes
		b := randBytes(c.Rng, n)
		for i := 0; i < k; i++ {
			b[i] = 0
		}
		if b[k] == 0 {
			b[k] = 1
		}
		out = append(out, b)
		// ... followed by the largest / smallest value of the remaining bytes (digit-count estimates of the legacy text
		// form are tight exactly there)
		if k <= 14 {
			hi, lo := make([]byte, n), make([]byte, n)
			for i := k; i < n; i++ {
				hi[i] = 0xff
			}
			lo[k] = 1
			out = append(out, hi, lo)
		}
	}
	stepBits := 1
	if !full {
		stepBits = 7
	}
	for bit := int(c.Seed) % stepBits; bit < 8*n; bit += stepBits { // single-bit hashes
		b := make([]byte, n)
		b[bit/8] = 1 << uint(bit%8)
		out = append(out, b)
	}
	for k := 0; k < 4; k++ { // last bits set: these make the padding bits matter
		b := randBytes(c.Rng, n)
		b[n-1] |= byte(1 + k)
		out = append(out, b)
	}
	for k := 0; k < c.Pick(6, 60); k++ {
		out = append(out, randBytes(c.Rng, n))
	}
	return out
}

// edgeScalars (untrusted planner, cached): small private keys whose public point has an X or a Y coordinate that
// starts with a zero byte (1 in 256 each) -- hand-written serialisation and padding code is wrong exactly there.
var edgeScalarCache [][]byte

func edgeScalars() [][]byte {
	if edgeScalarCache != nil {
		return edgeScalarCache
	}
	nx, ny := 0, 0
	for v := 2; v < 6000 && (nx < 2 || ny < 3); v++ {
		var kb [32]byte
		kb[30], kb[31] = byte(v>>8), byte(v)
		_, pub := bchec.PrivKeyFromBytes(bchec.S256(), kb[:])
		u := pub.SerializeUncompressed()
		if u[1] == 0 && nx < 2 {
			nx++
			edgeScalarCache = append(edgeScalarCache, append([]byte{}, kb[:]...))
		} else if u[33] == 0 && ny < 3 {
			ny++
			edgeScalarCache = append(edgeScalarCache, append([]byte{}, kb[:]...))
		}
	}
	return edgeScalarCache
}

func randPubKeys(c *Ctx, k int) [][]byte {
	var out [][]byte
	for _, sc := range edgeScalars() {
		_, pub := bchec.PrivKeyFromBytes(bchec.S256(), sc)
		out = append(out, pub.SerializeCompressed(), pub.SerializeUncompressed(), pub.SerializeHybrid())
	}
	for i := 0; i < k; i++ {
		sc := randBytes(c.Rng, 32)
		sc[0] &= 0x7f
		if i == 0 {
			sc = make([]byte, 32)
			sc[31] = 1
		}
		_, pub := bchec.PrivKeyFromBytes(bchec.S256(), sc)
		out = append(out, pub.SerializeCompressed(), pub.SerializeUncompressed(), pub.SerializeHybrid())
	}
	return out
}

func runC01(c *Ctx) {
	c.Conc = true // stateless calls are also replayed from several goroutines at once
	c.Prelude = []Event{{"op": "Config"}}
	for net := 1; net <= len(nets); net++ {
		full := c.Thorough() || net == 1+int(c.Seed)%len(nets)
		for _, h := range hashPatterns(c, 20, full) {
			for _, ctor := range append(append([]string{}, cashCtors20...), legacyCtors...) {
				renderings(c, newAddr(c, ctor, net, h), ctor, net)
			}
		}
		for _, h := range hashPatterns(c, 32, full) {
			for _, ctor := range cashCtors32 {
				renderings(c, newAddr(c, ctor, net, h), ctor, net)
			}
		}
		// script-taking constructors
		for k := 0; k < c.Pick(16, 128); k++ {
			script := randBytes(c.Rng, []int{0, 1, 20, 25, 32, 33, 55, 56, 64, 119, 120, 200, 520, 521, 1000, 10001}[k%16])
			for _, ctor := range []string{"ScriptHash", "ScriptHash32", "LegacyScriptHash"} {
				renderings(c, newAddr(c, ctor, net, script), ctor, net)
			}
		}
		// public keys in the three serialisations
		for _, pk := range randPubKeys(c, c.Pick(4, 40)) {
			renderings(c, newAddr(c, "PubKey", net, pk), "PubKey", net)
		}
		// public keys whose hex form consists of cashaddr-alphabet characters only (no 'b', no '1'): both
		// cashaddr attempts end in a checksum mismatch before the key is considered (planner search)
		if net == 1 || net == 6 || c.Thorough() {
			found := 0
			for sc := 2; sc < c.Pick(120000, 300000) && found < 3; sc++ {
				var kb [32]byte
				kb[29], kb[30], kb[31] = byte(sc>>16), byte(sc>>8), byte(sc)
				_, pub := bchec.PrivKeyFromBytes(bchec.S256(), kb[:])
				hx := hexLower(pub.SerializeCompressed())
				if !strings.ContainsAny(hx, "b1") {
					found++
					renderings(c, newAddr(c, "PubKey", net, pub.SerializeCompressed()), "PubKey", net)
				}
			}
		}
		// public keys of impossible lengths (nothing at all, one byte, a coordinate missing or too many): refused, not a panic
		for _, n := range []int{0, 1, 2, 32, 34, 64, 66, 100} {
			pk := randBytes(c.Rng, n)
			if n > 0 {
				pk[0] = []byte{2, 3, 4, 6, 7}[n%5]
			}
			newAddr(c, "PubKey", net, pk)
		}
		newAddr(c, "PubKey", net, nil)
		// wrong-length hashes are refused
		for _, n := range []int{0, 19, 21, 31, 32, 33} {
			for _, ctor := range append(append(append([]string{}, cashCtors20...), legacyCtors...), cashCtors32...) {
				newAddr(c, ctor, net, randBytes(c.Rng, n))
			}
		}
	}
}

// ---------------------------------------------------------------------------- C02

func runC02(c *Ctx) {
	c.Conc = true // stateless calls are also replayed from several goroutines at once
	// two custom networks whose legacy version bytes collide (P2PKH of one = P2SH of the other, both ways): a
	// Base58Check string carrying such a byte is undeterminable and must be refused (the Config event logs the id sets)
	chaincfg.Register(&chaincfg.Params{Name: "verifa", Net: 0x76657261, LegacyPubKeyHashAddrID: 0x1c, LegacyScriptHashAddrID: 0x2a,
		HDPrivateKeyID: [4]byte{0x0f, 0x0e, 0x0d, 0x01}, HDPublicKeyID: [4]byte{0x0f, 0x0e, 0x0d, 0x02}, CashAddressPrefix: "verifa"})
	chaincfg.Register(&chaincfg.Params{Name: "verifb", Net: 0x76657262, LegacyPubKeyHashAddrID: 0x2a, LegacyScriptHashAddrID: 0x1c,
		HDPrivateKeyID: [4]byte{0x0f, 0x0e, 0x0d, 0x03}, HDPublicKeyID: [4]byte{0x0f, 0x0e, 0x0d, 0x04}, CashAddressPrefix: "verifb"})
	c.Prelude = []Event{{"op": "Config"}}
	r := c.Rng
	// F1 (TLC-generated): strings with valid checksums over all version bytes x lengths
	for _, cs := range readCases(c.Cases) {
		decode(c, gStr(cs, "s"), gInt(cs, "net"))
	}
	// F2: core versions x lengths x pad bits x prefixes x case x nets
	versions := []byte{0x00, 0x08, 0x0b, 0x01, 0x03, 0x09, 0x10, 0x18, 0x78, 0x80, 0x88, 0xff}
	lengths := []int{0, 19, 20, 21, 24, 28, 32, 33, 40, 48, 56, 64, 65}
	for _, ver := range versions {
		for _, ln := range lengths {
			payload := append([]byte{ver}, randBytes(r, ln)...)
			padBits := (5 - (8*len(payload))%5) % 5
			for pad := 0; pad < 1<<uint(padBits); pad++ {
				if pad > 1 && pad != 1<<uint(padBits)-1 && !c.Thorough() && r.Intn(3) != 0 {
					continue
				}
				syms := refTo5(payload, byte(pad))
				for net := 1; net <= len(nets); net++ {
					if !c.Thorough() && (net+int(c.Seed)+ln)%3 != 0 && net != 1 {
						continue
					}
					n := nets[net-1]
					prefixes := []string{n.CashAddressPrefix, n.SlpAddressPrefix, "bitcoincash", "bchtest", "simpleledger", "unknownpfx"}
					// near misses of the net's own prefixes: extensions, truncations, the empty prefix
					if ver == 0 || ver == 8 || ver == 0x0b || c.Thorough() {
						cp, sp := n.CashAddressPrefix, n.SlpAddressPrefix
						prefixes = append(prefixes, cp+"x", cp+"sv", cp+cp, cp[:len(cp)-1], cp[1:], "x"+cp)
						if sp != "" {
							prefixes = append(prefixes, sp+"s", sp+"net", sp[:len(sp)-1], sp[1:], cp+sp)
						}
					}
					// a payload whose checksum was computed for ANOTHER prefix than the one written in front of it (a decoder
					// that tries several prefixes must not let the attempts bleed into each other)
					if (ver == 0 || ver == 8) && ln == 20 && pad == 0 {
						known := []string{"bitcoincash", "simpleledger", "bchtest", "slptest", "bchreg", "slpreg", "bchsim", n.CashAddressPrefix, n.SlpAddressPrefix}
						for _, written := range known {
							for _, summed := range known {
								if written != summed && written != "" && summed != "" {
									decode(c, written+":"+refCashString(summed, syms), net)
								}
							}
						}
					}
					for pi, pfx := range prefixes {
						if pfx == "" {
							continue
						}
						body := refCashString(pfx, syms)
						switch (pi + ln + int(ver)) % 4 {
						case 0:
							decode(c, body, net)
							decode(c, pfx+":"+body, net)
						case 1:
							decode(c, strings.ToUpper(body), net)
							decode(c, strings.ToUpper(pfx+":"+body), net)
						case 2:
							decode(c, pfx+":"+strings.ToUpper(body), net) // mixed
							decode(c, body, net)
						case 3:
							m := []byte(body)
							for i := range m {
								if i%2 == 0 && m[i] >= 'a' && m[i] <= 'z' {
									m[i] -= 32
								}
							}
							decode(c, string(m), net) // mixed, no prefix
							decode(c, pfx+":"+body, net)
						}
					}
				}
			}
		}
	}
	// non-ASCII look-alikes: only ASCII case folding is a documented normalisation, so a string in which a
	// letter is replaced by a code point that Unicode case mapping folds onto it (KELVIN SIGN -> k,
	// LATIN CAPITAL I WITH DOT, long s, fullwidth letters) is a different string and must be rejected
	for k := 0; k < c.Pick(120, 1200); k++ {
		net := 1 + k%len(nets)
		n := nets[net-1]
		ver := []byte{0, 8}[k%2]
		body := refCashString(n.CashAddressPrefix, refTo5(append([]byte{ver}, randBytes(r, 20)...), 0))
		for _, sub := range [][2]string{{"k", "\u212a"}, {"K", "\u212a"}, {"s", "\u017f"}, {"i", "\u0130"}, {"q", "\uff51"}, {"p", "\u1e57"}} {
			if i := strings.Index(body, sub[0]); i >= 0 {
				t := body[:i] + sub[1] + body[i+1:]
				decode(c, t, net)
				decode(c, strings.ToUpper(body[:i])+sub[1]+strings.ToUpper(body[i+1:]), net)
				decode(c, n.CashAddressPrefix+":"+t, net)
			}
		}
		if i := strings.Index(n.CashAddressPrefix, "s"); i >= 0 { // inside the prefix
			decode(c, n.CashAddressPrefix[:i]+"\u017f"+n.CashAddressPrefix[i+1:]+":"+body, net)
		}
	}
	// alphanumerics outside the alphabet (b i o 1) at one position x every symbol at the position before it: a decoder
	// that lets them through as some value makes a second string decode to the same address
	for k := 0; k < c.Pick(2, 12); k++ {
		net := 1 + k%len(nets)
		n := nets[net-1]
		body := refCashString(n.CashAddressPrefix, refTo5(append([]byte{[]byte{0, 8}[k%2]}, randBytes(r, 20)...), 0))
		for p := 1; p < len(body); p++ {
			if !c.Thorough() && body[p] != 'l' && (p+k+int(c.Seed))%5 != 0 {
				continue
			}
			for _, f := range []byte("bio1") {
				for v := 0; v < 32; v++ {
					m := []byte(body)
					m[p], m[p-1] = f, b32alpha[v]
					if k%2 == 0 {
						decode(c, string(m), net)
					} else {
						decode(c, n.CashAddressPrefix+":"+string(m), net)
					}
				}
			}
		}
	}
	// white space around a valid cash address (with and without the prefix)
	for k := 0; k < c.Pick(6, 60); k++ {
		net := 1 + k%len(nets)
		n := nets[net-1]
		body := refCashString(n.CashAddressPrefix, refTo5(append([]byte{[]byte{0, 8}[k%2]}, randBytes(r, 20)...), 0))
		for _, w := range wsWraps(body) {
			decode(c, w, net)
		}
		for _, w := range wsWraps(n.CashAddressPrefix + ":" + body) {
			decode(c, w, net)
		}
		decode(c, n.CashAddressPrefix+": "+body, net)
		decode(c, n.CashAddressPrefix+" :"+body, net)
	}
	// byte-level aliases: a character replaced by a byte that a sloppy normalisation maps onto it (bit 5 cleared or
	// set: 'q' -> 'Q' is case folding, but '2' -> 0x12 and 'q' -> 0x11+... are not; bit 7 set; bit 6 flipped)
	for k := 0; k < c.Pick(40, 400); k++ {
		net := 1 + k%len(nets)
		n := nets[net-1]
		ver := []byte{0, 8}[k%2]
		body := refCashString(n.CashAddressPrefix, refTo5(append([]byte{ver}, randBytes(r, 20)...), 0))
		for tries := 0; tries < 6; tries++ {
			i := r.Intn(len(body))
			if tries < 3 { // aim at digits: '0'..'9' &^ 0x20 are control bytes
				for j := 0; j < len(body); j++ {
					if body[(i+j)%len(body)] >= '0' && body[(i+j)%len(body)] <= '9' {
						i = (i + j) % len(body)
						break
					}
				}
			}
			for _, alias := range []byte{body[i] &^ 0x20, body[i] | 0x80, body[i] ^ 0x40, body[i] ^ 0x10} {
				if alias == body[i] || (alias >= 'A' && alias <= 'Z') {
					continue
				}
				t := body[:i] + string([]byte{alias}) + body[i+1:]
				decode(c, t, net)
				decode(c, n.CashAddressPrefix+":"+t, net)
				decode(c, strings.ToUpper(body[:i])+string([]byte{alias})+strings.ToUpper(body[i+1:]), net)
			}
		}
	}
	// an extra symbol / a missing symbol with a valid checksum (wrong payload length in symbols)
	for k := 0; k < c.Pick(60, 600); k++ {
		ver := []byte{0, 8, 0x0b}[k%3]
		ln := 20
		if ver == 0x0b {
			ln = 32
		}
		syms := refTo5(append([]byte{ver}, randBytes(r, ln)...), 0)
		switch k % 4 {
		case 0:
			syms = append(syms, 0)
		case 1:
			syms = syms[:len(syms)-1]
		case 2:
			syms = append([]byte{0}, syms...)
		}
		net := 1 + k%len(nets)
		pfx := nets[net-1].CashAddressPrefix
		decode(c, refCashString(pfx, syms), net)
		decode(c, pfx+":"+refCashString(pfx, syms), net)
	}
	// F3: Base58Check over all version bytes x lengths 0..40
	for ver := 0; ver < 256; ver++ {
		for ln := 0; ln <= 40; ln++ {
			if !c.Thorough() && ln != 20 && (ver*41+ln+int(c.Seed))%9 != 0 && !(ver == 0x1c || ver == 0x2a) {
				continue
			}
			b := append([]byte{byte(ver)}, randBytes(r, ln)...)
			if r.Intn(4) == 0 && ln > 2 {
				b[1], b[2] = 0, 0
			}
			b = append(b, sha256d(b)[:4]...)
			s := base58Ref(b)
			net := 1 + (ver+ln)%len(nets)
			decode(c, s, net)
			if ln == 20 && (ver == 0 || ver == 5 || ver == 111 || ver == 196 || ver%32 == 0) {
				// a digit replaced by a code point whose low byte is that digit (rune/byte confusion)
				rs := []rune(s)
				p := r.Intn(len(rs))
				for _, off := range []rune{0x100, 0x200, 0x2100} {
					t := append([]rune{}, rs...)
					t[p] = off + rs[p]
					decode(c, string(t), net)
				}
			}
			if ln == 20 && (ver == 0 || ver == 5 || ver == 111 || ver == 196) {
				for _, w := range wsWraps(s) {
					decode(c, w, net)
				}
			}
			if ln == 20 && ver%16 == 0 { // one corrupted checksum
				bb := append([]byte{}, b...)
				bb[len(bb)-1] ^= 1
				decode(c, base58Ref(bb), net)
			}
			if ln == 20 && (ver == 0 || ver == 5 || ver == 111) { // forgeries confined to the checksum bytes
				for _, q := range checksumForgeries(b) {
					for nn := 1; nn <= len(nets); nn += 2 {
						decode(c, base58Ref(q), nn)
					}
				}
			}
		}
	}
	// a valid 25-byte legacy payload as the low part of a LONGER number: k * 2^256 (or 2^200, 2^208) added on top -- a
	// decoder with a fixed-width accumulator wraps around to the valid address
	for _, ver := range []byte{5, 111, 196, 0x1c} {
		b := append([]byte{ver}, randBytes(r, 20)...)
		b = append(b, sha256d(b)[:4]...)
		for _, pad := range []int{7, 0, 1} {
			for _, top := range []byte{1, 2, 3, 0xff} {
				q := append(append([]byte{top}, make([]byte, pad)...), b...)
				for nn := 1; nn <= len(nets); nn++ {
					decode(c, base58Ref(q), nn)
				}
			}
		}
	}
	// F4: hex strings of public-key length with every first byte
	pks := randPubKeys(c, c.Pick(2, 10))
	// 130 characters whose first 66 are a complete compressed key: whatever follows (hex or not), it is not that key
	for _, pk := range pks {
		if len(pk) != 33 {
			continue
		}
		head := hexLower(pk)
		for _, tail := range []string{strings.Repeat("0", 64), "g" + strings.Repeat("0", 63), "0g" + strings.Repeat("a", 62), strings.Repeat("a", 63) + "z",
			"zz" + strings.Repeat("1", 62), " " + strings.Repeat("0", 63), hexLower(pk[1:]) + hexLower(pk[1:])[:0], strings.Repeat("f", 64)} {
			if len(head)+len(tail) == 130 {
				decode(c, head+tail, 1)
				decode(c, strings.ToUpper(head)+tail, 2)
			}
		}
		decode(c, head[:65]+"g", 1)
		decode(c, head+"0", 1)
		decode(c, head+"00", 1)
	}
	for fb := 0; fb < 256; fb++ {
		for _, pk := range pks {
			m := append([]byte{}, pk...)
			m[0] = byte(fb)
			s := hexLower(m)
			net := 1 + fb%len(nets)
			decode(c, s, net)
			if fb%5 == 0 {
				decode(c, strings.ToUpper(s), net)
			}
		}
	}
	for k := 0; k < c.Pick(40, 400); k++ { // off-curve / random X, wrong parity, wrong lengths
		pk := append([]byte{}, pks[r.Intn(len(pks))]...)
		switch k % 4 {
		case 0:
			copy(pk[1:], randBytes(r, 32))
		case 1:
			pk[len(pk)-1] ^= 1
		case 2:
			pk = randBytes(r, len(pk))
			pk[0] = []byte{2, 3, 4, 6, 7}[r.Intn(5)]
		case 3:
			for i := 1; i < 33; i++ {
				pk[i] = 0xff
			}
		}
		decode(c, hexLower(pk), 1+k%len(nets))
	}
	for _, n := range []int{64, 65, 66, 67, 128, 130, 132} {
		decode(c, randStr(c, "0123456789abcdef", n), 1)
		decode(c, randStr(c, "0123456789abcdefg", n), 2)
	}
	// junk and near-misses
	for k := 0; k < c.Pick(200, 2000); k++ {
		alpha := []string{b32alpha, b58alpha, "abcdefghijklmnopqrstuvwxyz:0123456789", b32alpha + ":"}[k%4]
		decode(c, randStr(c, alpha, r.Intn(80)), 1+k%len(nets))
	}
}

func hexLower(b []byte) string {
	const hx = "0123456789abcdef"
	out := make([]byte, 2*len(b))
	for i, x := range b {
		out[2*i] = hx[x>>4]
		out[2*i+1] = hx[x&15]
	}
	return string(out)
}

// ---------------------------------------------------------------------------- C03

func runC03(c *Ctx) {
	c.Conc = true // stateless calls are also replayed from several goroutines at once
	c.Prelude = []Event{{"op": "Config"}}
	r := c.Rng
	hashLens := []int{20, 24, 28, 32, 40, 48, 56, 64}
	sizeCode := map[int]byte{20: 0, 24: 1, 28: 2, 32: 3, 40: 4, 48: 5, 56: 6, 64: 7}
	prefixes := []string{}
	seen := map[string]bool{}
	for _, n := range nets {
		for _, p := range []string{n.CashAddressPrefix, n.SlpAddressPrefix} {
			if p != "" && !seen[p] {
				seen[p] = true
				prefixes = append(prefixes, p)
			}
		}
	}
	// the checksum covers the prefix: a payload summed for one prefix is a corrupted string behind every other prefix
	// (the two cosets differ by a fixed syndrome), for both readers and on every network
	for _, written := range prefixes {
		for _, summed := range prefixes {
			if written == summed {
				continue
			}
			for _, typ := range []byte{0, 1} {
				syms := refTo5(append([]byte{typ << 3}, randBytes(r, 20)...), 0)
				s := written + ":" + refCashString(summed, syms)
				decodeCash(c, s)
				for net := 1; net <= len(nets); net++ {
					decode(c, s, net)
				}
			}
		}
	}
	perCombo := c.Pick(14, 400)
	for _, pfx := range prefixes {
		for _, hl := range hashLens {
			for _, typ := range []byte{0, 1} {
				ver := typ<<3 | sizeCode[hl]
				syms := refTo5(append([]byte{ver}, randBytes(r, hl)...), 0)
				body := refCashString(pfx, syms)
				decodeCash(c, pfx+":"+body) // the valid string itself is accepted
				if typ == 0 {               // substitution by the other-case form of a letter (one to four letters), white space at the ends
					seenL := map[byte]bool{}
					var lp []int
					for i := 0; i < len(body); i++ {
						if ch := body[i]; ch >= 'a' && ch <= 'z' && !seenL[ch] {
							seenL[ch] = true
							lp = append(lp, i)
						}
					}
					for w := 1; w <= 4 && w <= len(lp); w++ {
						b := []byte(body)
						for _, j := range r.Perm(len(lp))[:w] {
							b[lp[j]] -= 32
						}
						decodeCash(c, pfx+":"+string(b))
					}
					if hl == 20 {
						for _, i := range lp {
							b := []byte(body)
							b[i] -= 32
							decodeCash(c, pfx+":"+string(b))
						}
						for _, w := range wsWraps(pfx + ":" + body) {
							decodeCash(c, w)
						}
						decodeCash(c, pfx+":"+body[:len(body)-1]+" ")
						// the last character in the other case (a scan that stops one short never sees it)
						for q := len(body) - 1; q >= 0; q-- {
							if ch := body[q]; ch >= 'a' && ch <= 'z' {
								decodeCash(c, pfx+":"+body[:q]+string(ch-32)+body[q+1:])
								up := strings.ToUpper(body)
								decodeCash(c, strings.ToUpper(pfx)+":"+up[:q]+string(ch)+up[q+1:])
								break
							}
						}
						// byte-level aliases of a character (bit 5 cleared: digits become control bytes; bit 7 set; bits 6 / 4 flipped)
						for t := 0; t < 6; t++ {
							q := r.Intn(len(body))
							if t < 3 {
								for j := 0; j < len(body); j++ {
									if d := body[(q+j)%len(body)]; d >= '0' && d <= '9' {
										q = (q + j) % len(body)
										break
									}
								}
							}
							for _, al := range []byte{body[q] &^ 0x20, body[q] | 0x80, body[q] ^ 0x40, body[q] ^ 0x10} {
								if al != body[q] && !(al >= 'A' && al <= 'Z') {
									decodeCash(c, pfx+":"+body[:q]+string([]byte{al})+body[q+1:])
								}
							}
						}
						// upper-case rendering with one symbol replaced by each upper-case letter / digit outside the alphabet
						up := strings.ToUpper(body)
						for _, fc := range "BIO1" {
							for t := 0; t < 3; t++ {
								q := r.Intn(len(up))
								if t == 0 { // where the symbol of value 1 ('P') stands, and value 0 ('Q')
									if j := strings.IndexAny(up, "PQ"); j >= 0 {
										q = j
									}
								}
								decodeCash(c, strings.ToUpper(pfx)+":"+up[:q]+string(fc)+up[q+1:])
							}
						}
					}
				}
				// every single substitution inside the checksum and (sampled) the payload:
				// a remainder compared on fewer than 40 bits shows up here
				if (hl == 20 && typ == 0) || c.Thorough() {
					for p := 0; p < len(body); p++ {
						if p < len(body)-8 && !c.Thorough() && (p+int(c.Seed))%6 != 0 {
							continue
						}
						for v := 0; v < 32; v++ {
							if b32alpha[v] == body[p] {
								continue
							}
							m := []byte(body)
							m[p] = b32alpha[v]
							decodeCash(c, pfx+":"+string(m))
						}
					}
				}
				for k := 0; k < perCombo; k++ {
					w := 1 + k%5
					m := []byte(body)
					pos := r.Perm(len(m))[:w]
					if k%7 == 0 { // burst: adjacent positions
						st := r.Intn(len(m) - w + 1)
						for i := range pos {
							pos[i] = st + i
						}
					}
					if k%11 == 0 { // all inside the checksum
						for i := range pos {
							pos[i] = len(m) - 8 + i
						}
					}
					for _, p := range pos {
						old := m[p]
						for m[p] == old {
							if k%5 == 4 { // any character at all, not only the 32 symbols
								m[p] = byte(33 + r.Intn(94))
							} else {
								m[p] = b32alpha[r.Intn(32)]
							}
						}
					}
					s := pfx + ":" + string(m)
					if k%3 == 0 {
						s = strings.ToUpper(s)
					}
					decodeCash(c, s)
					// the address decoder with an explicit prefix, on a net that owns the prefix
					if hl == 20 || hl == 32 {
						for ni, n := range nets {
							if n.CashAddressPrefix == pfx || n.SlpAddressPrefix == pfx {
								decode(c, s, ni+1)
								break
							}
						}
					}
				}
			}
		}
	}
	// alphanumerics outside the alphabet (b i o 1) at one position x every symbol at the position before it
	for _, pfx := range []string{"bitcoincash", "bchtest"} {
		syms := refTo5(append([]byte{0}, randBytes(r, 20)...), 0)
		body := refCashString(pfx, syms)
		for p := 1; p < len(body); p++ {
			if !c.Thorough() && body[p] != 'l' && (p+int(c.Seed))%4 != 0 {
				continue
			}
			for _, f := range []byte("bio1BIO") {
				for v := 0; v < 32; v++ {
					m := []byte(body)
					m[p] = f
					m[p-1] = b32alpha[v]
					decodeCash(c, pfx+":"+string(m))
				}
			}
		}
	}
	// other final constants: a string whose remainder is a different constant (0, or the analogue of the
	// bech32m constant) is not valid -- otherwise the valid set is a union of cosets with a smaller distance
	for k := 0; k < c.Pick(60, 600); k++ {
		pfx := prefixes[k%len(prefixes)]
		syms := refTo5(append([]byte{byte(k%2) << 3}, randBytes(r, 20)...), 0)
		for _, x := range []uint64{1, 2, 0x2bc830a3, 0xffffffffff, 1 << 39} {
			decodeCash(c, pfx+":"+refCashStringConst(pfx, syms, x))
		}
		hrp := []string{"bc", "tb", "a"}[k%3]
		data := make([]byte, r.Intn(40))
		for i := range data {
			data[i] = byte(r.Intn(32))
		}
		for _, x := range []int{0, 2, 0x2bc830a3, 0x3fffffff, 1 << 29} {
			b32dec(c, refBech32Const(hrp, data, x))
		}
	}
	// the checksum covers the human-readable part: the data part of a valid string is invalid behind another one --
	// also right after a decode with that other part failed for a different reason (a foreign character)
	for k := 0; k < c.Pick(12, 120); k++ {
		ha, hb := []string{"bc", "tb", "bcrt", "a"}[k%4], []string{"tb", "bc", "x", "bitcoincash"}[k%4]
		data := make([]byte, 10+r.Intn(30))
		for i := range data {
			data[i] = byte(r.Intn(32))
		}
		sa := refBech32Const(ha, data, 1)
		body := sa[len(ha)+1:]
		b32dec(c, sa)
		b32dec(c, hb+"1"+body[:len(body)-3]+"b"+body[len(body)-2:]) // fails on the alphabet
		b32dec(c, hb+"1"+body)                                      // same data, other prefix: checksum mismatch
		b32dec(c, sa)
		b32dec(c, refBech32Const(hb, data, 1))
	}
	// bech32: valid strings up to 90 chars, substitutions of weight 1..4 in the data part
	hrps := []string{"a", "bc", "tb", "bcrt", "bitcoincash", randStr(c, "abcdefghijklmnopqrstuvwxyz", 30)}
	for k := 0; k < c.Pick(900, 20000); k++ {
		hrp := hrps[k%len(hrps)]
		maxd := 90 - len(hrp) - 7
		n := r.Intn(maxd + 1)
		if k%5 == 0 {
			n = maxd
		}
		data := make([]byte, n)
		for i := range data {
			data[i] = byte(r.Intn(32))
		}
		e := Do(nil, Event{"op": "Bech32Encode", "hrp": str(hrp), "data": ints(data), "extra": 0})
		s := gStr(e, "ret")
		if k%50 == 0 {
			c.Add(e)
			b32dec(c, s)
		}
		if k%8 == 0 { // substitutions by characters that Unicode case mapping folds onto letters of the string
			b32Lookalikes(c, s)
		}
		if k%10 == 0 { // substitutions by the other-case form of a letter, by white space at either end
			b32CaseFlips(c, s)
			for _, w := range wsWraps(s) {
				b32dec(c, w)
			}
			b32dec(c, s[:len(s)-1]+" ")
			b32dec(c, s[:len(s)-2]+"p ")
			b32dec(c, " "+s[1:])
		}
		m := []byte(s)
		dl := len(m) - len(hrp) - 1
		w := 1 + k%4
		if w > dl {
			w = dl
		}
		pos := r.Perm(dl)[:w]
		if k%3 == 2 { // aim at the symbols of value 0 / 31 ('q', 'l'): a decoder that maps unknown characters to a symbol shows up here
			var qs []int
			for p := 0; p < dl; p++ {
				if ch := m[len(hrp)+1+p]; ch == 'q' || ch == 'l' {
					qs = append(qs, p)
				}
			}
			if len(qs) >= w {
				r.Shuffle(len(qs), func(i, j int) { qs[i], qs[j] = qs[j], qs[i] })
				pos = qs[:w]
			}
		}
		for _, p := range pos {
			q := len(hrp) + 1 + p
			old := m[q]
			for m[q] == old {
				if k%3 != 0 { // any printable character (foreign characters, digits 'b' 'i' 'o', the other case)
					m[q] = byte(33 + r.Intn(94))
				} else {
					m[q] = b32alpha[r.Intn(32)]
				}
			}
		}
		t := string(m)
		if k%4 == 0 {
			t = strings.ToUpper(t)
		}
		b32dec(c, t)
	}
}
