package main

// C18: BIP69 sorting.

import (
	"encoding/binary"
	"math"

	"github.com/gcash/bchd/chaincfg/chainhash"
	"github.com/gcash/bchd/wire"
	"github.com/gcash/bchutil/txsort"
)

func init() {
	ops["TxSort"] = opTxSort
	families["C18"] = runC18
}

func txRecord(tx *wire.MsgTx) map[string]interface{} {
	ins := []interface{}{}
	for _, in := range tx.TxIn {
		ins = append(ins, map[string]interface{}{"hash": ints(in.PreviousOutPoint.Hash[:]), "idx": w32(in.PreviousOutPoint.Index),
			"script": ints(in.SignatureScript), "seq": w32(in.Sequence)})
	}
	outs := []interface{}{}
	for _, o := range tx.TxOut {
		var v [8]byte
		binary.BigEndian.PutUint64(v[:], uint64(o.Value))
		// the whole element: token data (CashTokens) belongs to the output
		var tb [8]byte
		binary.BigEndian.PutUint64(tb[:], o.TokenData.Amount)
		tok := append(append(append([]byte{o.TokenData.BitField}, o.TokenData.CategoryID[:]...), tb[:]...), o.TokenData.Commitment...)
		outs = append(outs, map[string]interface{}{"value": ints(v[:]), "script": ints(o.PkScript), "token": ints(tok)})
	}
	return map[string]interface{}{"version": int(tx.Version), "locktime": w32(tx.LockTime), "ins": ins, "outs": outs}
}

// args: ins: [{hash,idx,script,seq}], outs: [{value(8 bytes),script}]
func opTxSort(_ *HState, a Event) Event {
	tx := wire.NewMsgTx(int32(gInt(a, "version")))
	tx.LockTime = uint32(gInt(a, "locktime"))
	for _, x := range gList(a, "ins") {
		m := x.(map[string]interface{})
		var h chainhash.Hash
		copy(h[:], gBytes(m, "hash"))
		in := wire.NewTxIn(wire.NewOutPoint(&h, gW32(m, "idx")), gBytes(m, "script"))
		in.Sequence = gW32(m, "seq")
		tx.AddTxIn(in)
	}
	for _, x := range gList(a, "outs") {
		m := x.(map[string]interface{})
		td := wire.TokenData{}
		if tk := gBytes(m, "tok"); len(tk) > 0 { // an output carrying a fungible token amount and a commitment
			td.BitField = 0x30 | tk[0]&0x0f
			copy(td.CategoryID[:], tk)
			td.Amount = uint64(tk[0]) + 1
			td.Commitment = append([]byte{}, tk...)
		}
		tx.AddTxOut(wire.NewTxOut(int64(binary.BigEndian.Uint64(gBytes(m, "value"))), gBytes(m, "script"), td))
	}
	e := Event{"op": "TxSort", "tx": txRecord(tx)}
	p, msg := guard(func() {
		e["issorted"] = txsort.IsSorted(tx)
		s := txsort.Sort(tx)
		e["sorted"] = txRecord(s)
		e["origafter"] = txRecord(tx)
		e["issorted2"] = txsort.IsSorted(s)
		// mutate the copy: the original must not see it
		for _, in := range s.TxIn {
			if len(in.SignatureScript) > 0 {
				in.SignatureScript[0] ^= 0xff
			}
			in.PreviousOutPoint.Index ^= 1
		}
		for _, o := range s.TxOut {
			if len(o.PkScript) > 0 {
				o.PkScript[0] ^= 0xff
			}
			o.Value ^= 1
		}
		e["origaftermut"] = txRecord(tx)
		c := tx.Copy()
		txsort.InPlaceSort(c)
		e["inplace"] = txRecord(c)
	})
	return panicField(e, p, msg)
}

func runC18(c *Ctx) {
	c.Conc = true // stateless calls are also replayed from several goroutines at once
	r := c.Rng
	c.Batch = 100
	mkHash := func(k int) []byte {
		h := make([]byte, 32)
		switch k % 6 {
		case 0: // differ only in the first stored byte (least significant)
			h[0] = byte(k / 6 % 3)
		case 1: // differ only in the last stored byte (most significant)
			h[31] = byte(k / 6 % 3)
		case 2:
			h[0], h[31] = byte(k/6%2), byte(1-k/6%2)
		case 3:
			h[15] = byte(k / 6 % 3)
		case 4:
			h[16] = byte(k / 6 % 3)
		case 5:
			copy(h, randBytes(r, 32))
		}
		return h
	}
	mkVal := func(k int) []byte {
		// amounts are signed 64-bit numbers: -1 (the placeholder of SIGHASH_SINGLE signing copies) and the minimum sort first
		v := []uint64{0, 1, 2, 255, 256, 1 << 32, math.MaxInt64, math.MaxUint64, 1 << 63}[k%9]
		var b [8]byte
		binary.BigEndian.PutUint64(b[:], v)
		return b[:]
	}
	scripts := [][]byte{{}, {1}, {1, 0}, {1, 0, 0}, {2}, {1, 255}, {0}}
	call := func(ins, outs []interface{}) {
		c.Call(Event{"op": "TxSort", "version": 1 + r.Intn(2), "locktime": r.Intn(1000), "ins": ins, "outs": outs})
	}
	// all permutations of small element sets with ties
	permute := func(n int, f func(p []int)) {
		var rec func(p []int, used int)
		rec = func(p []int, used int) {
			if len(p) == n {
				f(p)
				return
			}
			for i := 0; i < n; i++ {
				if used>>uint(i)&1 == 0 {
					rec(append(p, i), used|1<<uint(i))
				}
			}
		}
		rec(nil, 0)
	}
	maxn := c.Pick(5, 6)
	for set := 0; set < c.Pick(9, 16); set++ {
		n := 2 + set%(maxn-1)
		var inEl, outEl []interface{}
		for k := 0; k < n; k++ {
			hk := r.Intn(18)
			inEl = append(inEl, map[string]interface{}{"hash": ints(mkHash(hk)), "idx": w32([]uint32{0, 1, 2, 1 << 31, math.MaxUint32}[r.Intn(5)]),
				"script": ints(scripts[r.Intn(len(scripts))]), "seq": w32(r.Uint32())})
			oe := map[string]interface{}{"value": ints(mkVal(r.Intn(9))), "script": ints(scripts[r.Intn(len(scripts))])}
			if k%2 == 1 {
				oe["tok"] = ints([]byte{byte(k), 7})
			}
			outEl = append(outEl, oe)
		}
		if n >= 3 { // force ties: identical keys, identical whole elements
			inEl[1] = map[string]interface{}{"hash": inEl[0].(map[string]interface{})["hash"], "idx": inEl[0].(map[string]interface{})["idx"], "script": ints([]byte{9}), "seq": w32(1)}
			outEl[1] = outEl[0]
		}
		permute(n, func(p []int) {
			var ins, outs []interface{}
			for _, i := range p {
				ins = append(ins, inEl[i])
				outs = append(outs, outEl[i])
			}
			call(ins, outs)
		})
	}
	// inputs spending many outputs of ONE previous transaction: the tie on the hash is broken by the index as a NUMBER
	// (not as decimal text, not by its little-endian bytes)
	idxAlpha := []uint32{0, 2, 9, 10, 11, 99, 100, 255, 256, 257, 1000, 65535, 65536, 1 << 24, 1<<24 + 1, 1<<31 - 1, 1 << 31, 1<<31 + 1, math.MaxUint32 - 1, math.MaxUint32}
	for set := 0; set < c.Pick(10, 60); set++ {
		n := 3 + set%2
		var inEl []interface{}
		h := mkHash(5 + 6*set)
		pick := r.Perm(len(idxAlpha))[:n]
		if set%3 == 0 { // indexes more than 2^31 apart
			pick[0], pick[1] = 0, len(idxAlpha)-1-set%4
		}
		for _, j := range pick {
			inEl = append(inEl, map[string]interface{}{"hash": ints(h), "idx": w32(idxAlpha[j]), "script": ints([]byte{byte(j)}), "seq": w32(uint32(j))})
		}
		oe := []interface{}{map[string]interface{}{"value": ints(mkVal(1)), "script": ints([]byte{1})}}
		permute(n, func(p []int) {
			var ins []interface{}
			for _, i := range p {
				ins = append(ins, inEl[i])
			}
			call(ins, oe)
		})
	}
	// previous transaction ids that agree everywhere but in two neighbouring bytes, in opposite directions (every
	// position of the 32-byte reversal matters, the middle pair included)
	for pos := 0; pos < 31; pos++ {
		if !c.Thorough() && pos%5 != int(c.Seed)%5 && pos != 15 {
			continue
		}
		ha, hb := make([]byte, 32), make([]byte, 32)
		ha[pos], ha[pos+1] = 1, 0
		hb[pos], hb[pos+1] = 0, 1
		a := map[string]interface{}{"hash": ints(ha), "idx": w32(0), "script": ints([]byte{1}), "seq": w32(1)}
		b := map[string]interface{}{"hash": ints(hb), "idx": w32(0), "script": ints([]byte{2}), "seq": w32(2)}
		oe := []interface{}{map[string]interface{}{"value": ints(mkVal(1)), "script": ints([]byte{1})}}
		call([]interface{}{a, b}, oe)
		call([]interface{}{b, a}, oe)
	}
	// outputs with equal amounts and scripts of different lengths that are not prefixes of each other
	for set := 0; set < c.Pick(4, 24); set++ {
		scs := [][]byte{{0x76, 0xa9, 0x14, 1, 2, 3}, {0xa9, 0x14, 9}, {0x76}, {0xa9, 0x14, 9, 0}, {0x00, 0xff, 0xff, 0xff, 0xff}, {0xef, 1}, {0xee}}
		var outEl []interface{}
		for _, j := range r.Perm(len(scs))[:4] {
			outEl = append(outEl, map[string]interface{}{"value": ints(mkVal(2 + set%3)), "script": ints(scs[j])})
		}
		outEl = append(outEl, map[string]interface{}{"value": ints(mkVal(0)), "script": ints([]byte{0xff})})
		ie := []interface{}{map[string]interface{}{"hash": ints(mkHash(1)), "idx": w32(0), "script": ints([]byte{}), "seq": w32(0)}}
		permute(len(outEl), func(p []int) {
			var outs []interface{}
			for _, i := range p {
				outs = append(outs, outEl[i])
			}
			call(ie, outs)
		})
	}
	// transactions of 512 and more elements (work handed to a second goroutine above some size must be waited for):
	// many inputs with few outputs and the reverse
	for _, sz := range [][2]int{{510, 2}, {600, 1}, {3, 700}, {1100, 1100}} {
		if !c.Thorough() && sz[0]+sz[1] > 800 {
			continue
		}
		var ins, outs []interface{}
		for i := 0; i < sz[0]; i++ {
			ins = append(ins, map[string]interface{}{"hash": ints(mkHash(r.Intn(40))), "idx": w32(uint32(r.Intn(1000))), "script": ints([]byte{byte(i)}), "seq": w32(uint32(i))})
		}
		for i := 0; i < sz[1]; i++ {
			outs = append(outs, map[string]interface{}{"value": ints(mkVal(r.Intn(9))), "script": ints([]byte{byte(r.Intn(6)), byte(i), byte(i >> 8)})})
		}
		call(ins, outs)
	}
	// random transactions up to hundreds of elements
	for k := 0; k < c.Pick(60, 600); k++ {
		ni, no := r.Intn(12), r.Intn(12)
		if k%15 == 0 {
			ni, no = 100+r.Intn(200), 100+r.Intn(200)
		}
		var ins, outs []interface{}
		for i := 0; i < ni; i++ {
			ins = append(ins, map[string]interface{}{"hash": ints(mkHash(r.Intn(30))), "idx": w32([]uint32{0, 1, 2, 3, 9, 10, 100, 256, 65536}[r.Intn(9)]), "script": ints(randBytes(r, r.Intn(4))), "seq": w32(r.Uint32())})
		}
		for i := 0; i < no; i++ {
			sc := scripts[r.Intn(len(scripts))]
			if r.Intn(3) == 0 {
				sc = randBytes(r, r.Intn(30))
			}
			om := map[string]interface{}{"value": ints(mkVal(r.Intn(9))), "script": ints(sc)}
			if r.Intn(4) == 0 {
				om["tok"] = ints(randBytes(r, 1+r.Intn(6)))
			}
			outs = append(outs, om)
		}
		if ins == nil {
			ins = []interface{}{}
		}
		if outs == nil {
			outs = []interface{}{}
		}
		call(ins, outs)
		if k%4 == 0 { // an already sorted transaction, and one with a single swap
			e := Do(nil, Event{"op": "TxSort", "version": 1, "locktime": 0, "ins": ins, "outs": outs})
			if s, ok := e["sorted"].(map[string]interface{}); ok {
				call(s["ins"].([]interface{}), s["outs"].([]interface{}))
			}
		}
	}
}
