//go:build mutexlog

// Growth X06: a real program using bchutil.Mutex / bchutil.RWMutex built with -tags mutexlog.  In child mode it runs
// the workload (the log lines go to stdout through bchlog); in driver mode (the harness command line) it starts
// children, parses their output and writes one history per mutex: Config, the log lines in order, Final.
package main

import (
	"bufio"
	"encoding/json"
	"flag"
	"fmt"
	"math/rand"
	"os"
	"os/exec"
	"regexp"
	"runtime"
	"strconv"
	"strings"
	"sync"
	"sync/atomic"

	"github.com/gcash/bchutil"
)

func child(kind string, k, ops int, seed int64) {
	var counter int64 // protected by the lock under test (deliberately not atomic)
	var torn, writes int64
	var wg sync.WaitGroup
	start := make(chan struct{})
	rw := bchutil.NewRWMutex("rw")
	m := bchutil.NewMutex("m")
	for g := 0; g < k; g++ {
		wg.Add(1)
		go func(g int) {
			defer wg.Done()
			r := rand.New(rand.NewSource(seed + int64(g)*7919))
			<-start
			for i := 0; i < ops; i++ {
				write := kind == "m" || r.Intn(3) == 0
				switch {
				case kind == "m":
					m.Lock()
				case write:
					rw.Lock()
				default:
					rw.RLock()
				}
				if write {
					v := counter
					runtime.Gosched()
					counter = v + 1
					atomic.AddInt64(&writes, 1)
				} else {
					v1 := counter
					runtime.Gosched()
					if counter != v1 {
						atomic.AddInt64(&torn, 1)
					}
				}
				switch {
				case kind == "m":
					m.Unlock()
				case write:
					rw.Unlock()
				default:
					rw.RUnlock()
				}
			}
		}(g)
	}
	close(start)
	wg.Wait()
	fmt.Printf("FINAL %d %d %d\n", counter, atomic.LoadInt64(&writes), atomic.LoadInt64(&torn))
}

var lineRe = regexp.MustCompile(`(R?(?:Locking|Locked|Unlocking|Unlocked)) mutex: ?(\S+)`)

func main() {
	if len(os.Args) > 1 && os.Args[1] == "child" {
		k, _ := strconv.Atoi(os.Args[3])
		ops, _ := strconv.Atoi(os.Args[4])
		seed, _ := strconv.ParseInt(os.Args[5], 10, 64)
		child(os.Args[2], k, ops, seed)
		return
	}
	fs := flag.NewFlagSet("mutexlog", flag.ExitOnError)
	tier := fs.String("tier", "quick", "")
	seed := fs.Int64("seed", 1, "")
	out := fs.String("out", "trace.ndjson", "")
	stats := fs.String("stats", "", "")
	fs.String("cases", "", "")
	fs.String("replay", "", "")
	fs.String("arg", "", "")
	fs.Int("batch", 0, "")
	args := os.Args[1:]
	if len(args) > 0 && !strings.HasPrefix(args[0], "-") {
		args = args[1:] // family name
	}
	fs.Parse(args)
	rounds := 40
	if *tier == "thorough" {
		rounds = 400
	}
	f, err := os.Create(*out)
	if err != nil {
		fmt.Fprintln(os.Stderr, err)
		os.Exit(2)
	}
	w := bufio.NewWriter(f)
	r := rand.New(rand.NewSource(*seed))
	nh, nev := 0, 0
	for round := 0; round < rounds; round++ {
		kind := []string{"rw", "m"}[round%2]
		k := 2 + r.Intn(3)
		ops := 2 + r.Intn(9)
		cmd := exec.Command(os.Args[0], "child", kind, strconv.Itoa(k), strconv.Itoa(ops), strconv.FormatInt(r.Int63(), 10))
		b, err := cmd.Output()
		if err != nil {
			fmt.Fprintln(os.Stderr, "child:", err)
			os.Exit(2)
		}
		ev := []map[string]interface{}{{"op": "Config", "ev": "Config", "kind": kind, "k": k, "ops": ops}}
		fin := map[string]interface{}{"op": "Final", "ev": "Final", "counter": -1, "expected": -2, "torn": 0}
		for _, line := range strings.Split(string(b), "\n") {
			if strings.HasPrefix(line, "FINAL ") {
				var c, e, t int
				fmt.Sscanf(line, "FINAL %d %d %d", &c, &e, &t)
				fin["counter"], fin["expected"], fin["torn"] = c, e, t
				continue
			}
			if mm := lineRe.FindStringSubmatch(line); mm != nil {
				ev = append(ev, map[string]interface{}{"op": "Line", "ev": mm[1], "name": mm[2]})
			}
		}
		ev = append(ev, fin)
		nh++
		nev += len(ev)
		jb, _ := json.Marshal(map[string]interface{}{"h": nh, "ev": ev})
		w.Write(jb)
		w.WriteByte('\n')
	}
	w.Flush()
	f.Close()
	st, _ := json.Marshal(map[string]interface{}{"family": "X06", "histories": nh, "events": nev, "ops": map[string]int{"Line": nev}})
	if *stats != "" {
		os.WriteFile(*stats, st, 0o644)
	}
	fmt.Println(string(st))
}
