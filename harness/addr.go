package main

// Address family ops (C01, C02, C03, address part of C08).

import (
	"bytes"
	"crypto/sha256"
	"fmt"
	"math/big"
	"strings"

	"github.com/gcash/bchd/chaincfg"
	"github.com/gcash/bchutil"
	"golang.org/x/crypto/ripemd160"
)

var nets = []*chaincfg.Params{&chaincfg.MainNetParams, &chaincfg.TestNet3Params, &chaincfg.TestNet4Params,
	&chaincfg.ChipNetParams, &chaincfg.RegressionNetParams, &chaincfg.SimNetParams}

func init() {
	ops["Config"] = opConfig
	ops["NewAddr"] = opNewAddr
	ops["Decode"] = opDecode
	ops["DecodeCash"] = opDecodeCash
}

func opConfig(_ *HState, a Event) Event {
	var ns []interface{}
	for _, n := range nets {
		ns = append(ns, map[string]interface{}{"name": n.Name, "cash": str(n.CashAddressPrefix), "slp": str(n.SlpAddressPrefix),
			"pkh": int(n.LegacyPubKeyHashAddrID), "sh": int(n.LegacyScriptHashAddrID), "wif": int(n.PrivateKeyID),
			"hdpriv": ints(n.HDPrivateKeyID[:]), "hdpub": ints(n.HDPublicKeyID[:])})
	}
	pkh, sh := []int{}, []int{}
	for id := 0; id < 256; id++ {
		if chaincfg.IsPubKeyHashAddrID(byte(id)) {
			pkh = append(pkh, id)
		}
		if chaincfg.IsScriptHashAddrID(byte(id)) {
			sh = append(sh, id)
		}
	}
	return with(a, "nets", ns, "pkhIds", pkh, "shIds", sh)
}

func sha256b(b []byte) []byte { h := sha256.Sum256(b); return h[:] }
func ripemd(b []byte) []byte  { h := ripemd160.New(); h.Write(b); return h.Sum(nil) }

func envSha256(b []byte) map[string]interface{}    { return envFact("sha256", b, sha256b(b)) }
func envRipemd160(b []byte) map[string]interface{} { return envFact("ripemd160", b, ripemd(b)) }

// envHash160 logs the facts needed to evaluate RIPEMD160(SHA256(b)).
func envHash160(b []byte) []interface{} {
	s := sha256b(b)
	return []interface{}{envSha256(b), envRipemd160(s)}
}
func envHash256(b []byte) []interface{} {
	s := sha256b(b)
	return []interface{}{envSha256(b), envSha256(s)}
}

// secp256k1 facts computed with math/big only.
var (
	secP, _ = new(big.Int).SetString("FFFFFFFFFFFFFFFFFFFFFFFFFFFFFFFFFFFFFFFFFFFFFFFFFFFFFFFEFFFFFC2F", 16)
	secN, _ = new(big.Int).SetString("FFFFFFFFFFFFFFFFFFFFFFFFFFFFFFFEBAAEDCE6AF48A03BBFD25E8CD0364141", 16)
)

func ecRHS(x *big.Int) *big.Int {
	r := new(big.Int).Exp(x, big.NewInt(3), secP)
	r.Add(r, big.NewInt(7))
	return r.Mod(r, secP)
}

func ecOnCurve(xy []byte) bool {
	if len(xy) != 64 {
		return false
	}
	x := new(big.Int).SetBytes(xy[:32])
	y := new(big.Int).SetBytes(xy[32:])
	if x.Cmp(secP) >= 0 || y.Cmp(secP) >= 0 {
		return false
	}
	y2 := new(big.Int).Mul(y, y)
	y2.Mod(y2, secP)
	return y2.Cmp(ecRHS(x)) == 0
}

// ecDecompress returns Y (32 bytes) for a 33-byte compressed key, or nil.
func ecDecompress(ser []byte) []byte {
	if len(ser) != 33 {
		return nil
	}
	x := new(big.Int).SetBytes(ser[1:])
	if x.Cmp(secP) >= 0 {
		return nil
	}
	rhs := ecRHS(x)
	e := new(big.Int).Add(secP, big.NewInt(1))
	e.Rsh(e, 2)
	y := new(big.Int).Exp(rhs, e, secP)
	y2 := new(big.Int).Mul(y, y)
	y2.Mod(y2, secP)
	if y2.Cmp(rhs) != 0 {
		return nil
	}
	if y.Bit(0) != uint(ser[0]&1) {
		y.Sub(secP, y)
	}
	out := make([]byte, 32)
	y.FillBytes(out)
	return out
}

func envPubKey(ser []byte) []interface{} {
	var env []interface{}
	if len(ser) == 33 {
		env = append(env, envFact("ec-decompress", ser, ecDecompress(ser)))
	}
	if len(ser) == 65 {
		on := []byte{0}
		if ecOnCurve(ser[1:]) {
			on = []byte{1}
		}
		env = append(env, envFact("ec-oncurve", ser[1:], on))
	}
	return env
}

// observe records everything the Address interface exposes.
func observe(a Event, ad bchutil.Address, err error, p bool, msg string, env []interface{}) Event {
	e := with(a, "ok", err == nil && !p && ad != nil, "errc", "", "rtype", "", "payload", []int{}, "str", []int{}, "enc", []int{},
		"fornet", []bool{}, "env", env)
	if p {
		e["panic"] = msg
		return e
	}
	if err != nil {
		e["errc"] = err.Error()
		return e
	}
	if ad == nil {
		return e
	}
	var fn []bool
	pp, pmsg := guard(func() {
		e["rtype"] = fmt.Sprintf("%T", ad)
		sa := ad.ScriptAddress()
		retain("Address", "ScriptAddress", sa)
		e["payload"] = ints(sa)
		e["str"] = str(retainStr("Address", "String", ad.String()))
		e["enc"] = str(retainStr("Address", "EncodeAddress", ad.EncodeAddress()))
		for _, n := range nets {
			fn = append(fn, ad.IsForNet(n))
		}
		// the typed accessors next to the Address interface: the hash as an array, the key as a point
		switch t := ad.(type) {
		case interface{ Hash160() *[20]byte }:
			e["hashm"] = ints(t.Hash160()[:])
		case interface{ Hash256() *[32]byte }:
			e["hashm"] = ints(t.Hash256()[:])
		case *bchutil.AddressPubKey:
			e["pubm"] = ints(t.PubKey().SerializeCompressed())
			e["pkhm"] = str(t.AddressPubKeyHash().EncodeAddress())
		}
	})
	e["fornet"] = fn
	if pp {
		e["panic"] = pmsg
	}
	return e
}

func opNewAddr(_ *HState, a Event) Event {
	net := nets[gInt(a, "net")-1]
	orig := gBytes(a, "data")
	// the constructor sees the argument inside a larger buffer (spare capacity poisoned); afterwards the bytes and
	// the spare capacity must be what they were (constructors are pure in their arguments)
	data, backing := sliceWithCap(orig, 40)
	before := append([]byte{}, backing...)
	ctor := gName(a, "ctor")
	var ad bchutil.Address
	var err error
	var env []interface{}
	p, msg := guard(func() {
		switch ctor {
		case "PubKeyHash":
			r, e := bchutil.NewAddressPubKeyHash(data, net)
			if r != nil {
				ad = r
			}
			err = e
		case "SlpPubKeyHash":
			r, e := bchutil.NewSlpAddressPubKeyHash(data, net)
			if r != nil {
				ad = r
			}
			err = e
		case "ScriptHashFromHash":
			r, e := bchutil.NewAddressScriptHashFromHash(data, net)
			if r != nil {
				ad = r
			}
			err = e
		case "SlpScriptHashFromHash":
			r, e := bchutil.NewSlpAddressScriptHashFromHash(data, net)
			if r != nil {
				ad = r
			}
			err = e
		case "ScriptHash32FromHash":
			r, e := bchutil.NewAddressScriptHash32FromHash(data, net)
			if r != nil {
				ad = r
			}
			err = e
		case "SlpScriptHash32FromHash":
			r, e := bchutil.NewSlpAddressScriptHash32FromHash(data, net)
			if r != nil {
				ad = r
			}
			err = e
		case "ScriptHash":
			r, e := bchutil.NewAddressScriptHash(data, net)
			if r != nil {
				ad = r
			}
			err = e
		case "ScriptHash32":
			r, e := bchutil.NewAddressScriptHash32(data, net)
			if r != nil {
				ad = r
			}
			err = e
		case "LegacyPubKeyHash":
			r, e := bchutil.NewLegacyAddressPubKeyHash(data, net)
			if r != nil {
				ad = r
			}
			err = e
		case "LegacyScriptHashFromHash":
			r, e := bchutil.NewLegacyAddressScriptHashFromHash(data, net)
			if r != nil {
				ad = r
			}
			err = e
		case "LegacyScriptHash":
			r, e := bchutil.NewLegacyAddressScriptHash(data, net)
			if r != nil {
				ad = r
			}
			err = e
		case "PubKey":
			r, e := bchutil.NewAddressPubKey(data, net)
			if r != nil {
				ad = r
			}
			err = e
		default:
			fatal("unknown ctor %q", ctor)
		}
	})
	argmod := !bytes.Equal(before, backing)
	data = orig // env facts and observations are about the argument as it was passed
	// planner for env facts (the specification decides which it uses)
	switch ctor {
	case "ScriptHash", "LegacyScriptHash":
		env = append(env, envHash160(data)...)
		h := ripemd(sha256b(data))
		env = append(env, envSha256d(append([]byte{net.LegacyScriptHashAddrID}, h...)))
	case "ScriptHash32":
		env = append(env, envHash256(data)...)
	case "LegacyPubKeyHash":
		env = append(env, envSha256d(append([]byte{net.LegacyPubKeyHashAddrID}, data...)))
	case "LegacyScriptHashFromHash":
		env = append(env, envSha256d(append([]byte{net.LegacyScriptHashAddrID}, data...)))
	case "PubKey":
		env = append(env, envPubKey(data)...)
		env = append(env, envHash160(data)...)
		h := ripemd(sha256b(data))
		env = append(env, envSha256d(append([]byte{net.LegacyPubKeyHashAddrID}, h...)))
	}
	e := observe(a, ad, err, p, msg, env)
	e["argmod"] = argmod
	return e
}

func opDecode(_ *HState, a Event) Event {
	net := nets[gInt(a, "net")-1]
	s := gStr(a, "s")
	var ad bchutil.Address
	var err error
	p, msg := guard(func() { ad, err = bchutil.DecodeAddress(s, net) })
	env := []interface{}{}
	if d := refB58Decode(s); len(d) >= 5 {
		env = append(env, envSha256d(d[:len(d)-4]))
	}
	if len(s) == 66 || len(s) == 130 {
		if ser, ok := unhex(s); ok {
			env = append(env, envPubKey(ser)...)
			env = append(env, envHash160(ser)...)
			h := ripemd(sha256b(ser))
			env = append(env, envSha256d(append([]byte{net.LegacyPubKeyHashAddrID}, h...)))
		}
	}
	return observe(a, ad, err, p, msg, env)
}

func unhex(s string) ([]byte, bool) {
	if len(s)%2 != 0 {
		return nil, false
	}
	out := make([]byte, len(s)/2)
	for i := 0; i < len(s); i++ {
		c := s[i]
		var v byte
		switch {
		case c >= '0' && c <= '9':
			v = c - '0'
		case c >= 'a' && c <= 'f':
			v = c - 'a' + 10
		case c >= 'A' && c <= 'F':
			v = c - 'A' + 10
		default:
			return nil, false
		}
		if i%2 == 0 {
			out[i/2] = v << 4
		} else {
			out[i/2] |= v
		}
	}
	return out, true
}

func opDecodeCash(_ *HState, a Event) Event {
	s := gStr(a, "s")
	var prefix string
	var data []byte
	var err error
	p, msg := guard(func() { prefix, data, err = bchutil.DecodeCashAddress(s) })
	retain("DecodeCashAddress", "data", data)
	e := with(a, "ok", err == nil && !p, "rprefix", str(prefix), "rdata", ints(data))
	if err != nil || p {
		e["rprefix"] = []int{}
		e["rdata"] = []int{}
	}
	return panicField(e, p, msg)
}

// ---- untrusted input builders (never oracles) --------------------------------

func refPolyMod(v []byte) uint64 {
	c := uint64(1)
	for _, d := range v {
		c0 := byte(c >> 35)
		c = ((c & 0x07ffffffff) << 5) ^ uint64(d)
		gens := []uint64{0x98f2bc8e61, 0x79b76d99e2, 0xf33e5fb3c4, 0xae2eabe2a8, 0x1e4f43e470}
		for i := 0; i < 5; i++ {
			if c0>>uint(i)&1 == 1 {
				c ^= gens[i]
			}
		}
	}
	return c ^ 1
}

// refCashString builds prefix-less payload text with a valid checksum for symbols.
func refCashString(prefix string, syms []byte) string {
	var v []byte
	for i := 0; i < len(prefix); i++ {
		v = append(v, prefix[i]&0x1f)
	}
	v = append(v, 0)
	v = append(v, syms...)
	v = append(v, 0, 0, 0, 0, 0, 0, 0, 0)
	mod := refPolyMod(v)
	var sb strings.Builder
	for _, s := range syms {
		sb.WriteByte(b32alpha[s])
	}
	for i := 0; i < 8; i++ {
		sb.WriteByte(b32alpha[(mod>>uint(5*(7-i)))&0x1f])
	}
	return sb.String()
}

// refTo5 regroups bytes to 5-bit symbols with explicit padding bits value pad.
func refTo5(b []byte, pad byte) []byte {
	var out []byte
	acc, bits := uint(0), uint(0)
	for _, x := range b {
		acc = acc<<8 | uint(x)
		bits += 8
		for bits >= 5 {
			bits -= 5
			out = append(out, byte(acc>>bits)&31)
		}
	}
	if bits > 0 {
		out = append(out, (byte(acc<<(5-bits))&31)|(pad&(1<<(5-bits)-1)))
	}
	return out
}

// refCashStringConst: like refCashString but the remainder of the whole word is the constant x
// instead of the prescribed one (input builder for "wrong final constant" strings).
func refCashStringConst(prefix string, syms []byte, x uint64) string {
	var v []byte
	for i := 0; i < len(prefix); i++ {
		v = append(v, prefix[i]&0x1f)
	}
	v = append(v, 0)
	v = append(v, syms...)
	v = append(v, 0, 0, 0, 0, 0, 0, 0, 0)
	mod := refPolyMod(v) ^ x
	var sb strings.Builder
	for _, s := range syms {
		sb.WriteByte(b32alpha[s])
	}
	for i := 0; i < 8; i++ {
		sb.WriteByte(b32alpha[(mod>>uint(5*(7-i)))&0x1f])
	}
	return sb.String()
}

func refBech32Polymod(values []int) int {
	gen := []int{0x3b6a57b2, 0x26508e6d, 0x1ea119fa, 0x3d4233dd, 0x2a1462b3}
	chk := 1
	for _, v := range values {
		b := chk >> 25
		chk = (chk&0x1ffffff)<<5 ^ v
		for i := 0; i < 5; i++ {
			if (b>>uint(i))&1 == 1 {
				chk ^= gen[i]
			}
		}
	}
	return chk
}

// refBech32Const builds hrp1data+checksum where the final constant is x (1 = BIP173, 0x2bc830a3 = bech32m).
func refBech32Const(hrp string, data []byte, x int) string {
	var v []int
	for i := 0; i < len(hrp); i++ {
		v = append(v, int(hrp[i]>>5))
	}
	v = append(v, 0)
	for i := 0; i < len(hrp); i++ {
		v = append(v, int(hrp[i]&31))
	}
	for _, d := range data {
		v = append(v, int(d))
	}
	v = append(v, 0, 0, 0, 0, 0, 0)
	pm := refBech32Polymod(v) ^ x
	var sb strings.Builder
	sb.WriteString(hrp + "1")
	for _, d := range data {
		sb.WriteByte(b32alpha[d])
	}
	for i := 0; i < 6; i++ {
		sb.WriteByte(b32alpha[(pm>>uint(5*(5-i)))&31])
	}
	return sb.String()
}
