package main

// Growth X03: AppDataDir.

import (
	"os"
	"os/user"
	"path/filepath"

	"github.com/gcash/bchutil"
)

func init() {
	ops["AppDataDir"] = opAppDataDir
	families["X03"] = runX03
}

func opAppDataDir(_ *HState, a Event) Event {
	for _, kv := range [][2]string{{"HOME", "home"}, {"LOCALAPPDATA", "localappdata"}, {"APPDATA", "appdata"}} {
		os.Setenv(kv[0], gStr(a, kv[1]+"_env"))
	}
	home := ""
	if u, err := user.Current(); err == nil {
		home = u.HomeDir
	}
	if home == "" {
		home = os.Getenv("HOME")
	}
	app := gStr(a, "app")
	e := with(a, "home", str(home), "localappdata", str(os.Getenv("LOCALAPPDATA")), "appdata", str(os.Getenv("APPDATA")), "ret", []int{})
	p, msg := guard(func() { e["ret"] = str(bchutil.VerifAppDataDir(gName(a, "goos"), app, gBool(a, "roaming"))) })
	// planner for path joins: every combination the specification may ask for
	name := app
	if len(name) > 0 && name[0] == '.' {
		name = name[1:]
	}
	var env []interface{}
	if name != "" {
		up := string(upperASCII(name[0])) + name[1:]
		lo := string(lowerASCII(name[0])) + name[1:]
		join := func(parts ...string) {
			var in []byte
			for _, p := range parts {
				in = append(append(in, p...), 0)
			}
			env = append(env, envFact("path-join", in, []byte(filepath.Join(parts...))))
		}
		for _, base := range []string{home, os.Getenv("LOCALAPPDATA"), os.Getenv("APPDATA")} {
			join(base, up)
			join(base, lo)
			join(base, "."+lo)
			join(base, "Library", "Application Support", up)
		}
	}
	e["env"] = env
	return panicField(e, p, msg)
}

func upperASCII(c byte) byte {
	if c >= 'a' && c <= 'z' {
		return c - 32
	}
	return c
}
func lowerASCII(c byte) byte {
	if c >= 'A' && c <= 'Z' {
		return c + 32
	}
	return c
}

func runX03(c *Ctx) {
	apps := []string{"", ".", "..", "bchd", ".bchd", "Bchd", "myApp", "a", ".A", "9lives", "with space", "x/y", "ünï"}
	for _, goos := range []string{"windows", "darwin", "plan9", "linux", "freebsd", ""} {
		for _, app := range apps {
			for _, roaming := range []bool{false, true} {
				for _, envs := range [][3]string{{"/home/u", "C:\\Local", "C:\\Roam"}, {"", "", ""}, {"/h", "", "C:\\Roam"}, {"/h/", "C:\\Local\\", ""}} {
					c.Call(Event{"op": "AppDataDir", "goos": goos, "app": str(app), "roaming": roaming,
						"home_env": str(envs[0]), "localappdata_env": str(envs[1]), "appdata_env": str(envs[2])})
				}
			}
		}
	}
}
