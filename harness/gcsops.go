package main

// GCS filter ops (C13, C14, GCS part of C20).

import (
	"bytes"
	"crypto/sha256"
	"encoding/binary"
	"math"
	"math/bits"
	"sort"
	"strings"
	"sync"
	"time"

	"github.com/aead/siphash"
	"github.com/gcash/bchd/chaincfg/chainhash"
	"github.com/gcash/bchd/wire"
	"github.com/gcash/bchutil/gcs"
	"github.com/gcash/bchutil/gcs/builder"
)

func init() {
	ops["Gcs"] = opGcs
	ops["GcsBuilder"] = opGcsBuilder
	ops["BuilderHist"] = opBuilderHist
	ops["GcsConc"] = opGcsConc
	families["C13"] = runC13
	families["C14"] = runC14
}

func sip8(key [16]byte, item []byte) []int {
	var b [8]byte
	binary.BigEndian.PutUint64(b[:], siphash.Sum64(item, &key))
	return ints(b[:])
}

func m8(m uint64) []int {
	var b [8]byte
	binary.BigEndian.PutUint64(b[:], m)
	return ints(b[:])
}

// planner: reduced value of an item (128-bit product), used only to propose the sort order
func refReduce(key [16]byte, item []byte, nm uint64) uint64 {
	hi, _ := bits.Mul64(siphash.Sum64(item, &key), nm)
	return hi
}

type gcsQuery struct {
	items [][]byte
}

func boolList(n int) []bool { return make([]bool, n) }

// describeFilter logs everything the specification reads about one filter and its queries.
func describeFilter(e Event, f *gcs.Filter, key [16]byte, p uint8, m uint64, items [][]byte, queries [][][]byte) {
	n := len(items)
	nm := uint64(n) * m
	sips := make([][]int, n)
	order := make([]int, n)
	for i, it := range items {
		sips[i] = sip8(key, it)
		order[i] = i + 1
	}
	sort.SliceStable(order, func(a, b int) bool {
		return refReduce(key, items[order[a]-1], nm) < refReduce(key, items[order[b]-1], nm)
	})
	e["key"], e["p"], e["m"], e["n"] = ints(key[:]), int(p), m8(m), n
	e["sips"], e["order"] = sips, order
	b, _ := f.Bytes()
	nb, _ := f.NBytes()
	pb, _ := f.PBytes()
	npb, _ := f.NPBytes()
	retain("GCS", "Bytes", b)
	retain("GCS", "NBytes", nb)
	retain("GCS", "PBytes", pb)
	retain("GCS", "NPBytes", npb)
	e["bytes"], e["nb"], e["pb"], e["npb"] = ints(b), ints(nb), ints(pb), ints(npb)
	e["rn"], e["rp"] = int(f.N()), int(f.P())
	answer := func(ff *gcs.Filter, each bool) ([]interface{}, []interface{}) {
		var qs []interface{}
		var flat []interface{}
		for _, q := range queries {
			qm := map[string]interface{}{"sips": [][]int{}, "single": []bool{}, "any": false, "zip": false, "hash": false}
			var ss [][]int
			var single []bool
			for _, it := range q {
				ss = append(ss, sip8(key, it))
				r, _ := ff.Match(key, it)
				single = append(single, r)
			}
			if ss == nil {
				ss, single = [][]int{}, []bool{}
			}
			qm["sips"], qm["single"] = ss, single
			// for the large sets every item is also asked ALONE through the indexed and the merging strategy: whatever
			// Match says of an item, they say too
			he, ze := []bool{}, []bool{}
			if each && len(q) >= 200 && len(q) <= 6000 {
				for _, it := range q {
					h1, _ := ff.HashMatchAny(key, [][]byte{it})
					z1, _ := ff.ZipMatchAny(key, [][]byte{it})
					he, ze = append(he, h1), append(ze, z1)
				}
			}
			qm["hasheach"], qm["zipeach"] = he, ze
			qm["any"], _ = ff.MatchAny(key, q)
			qm["zip"], _ = ff.ZipMatchAny(key, q)
			qm["hash"], _ = ff.HashMatchAny(key, q)
			qs = append(qs, qm)
			flat = append(flat, single, qm["any"], qm["zip"], qm["hash"])
		}
		if qs == nil {
			qs, flat = []interface{}{}, []interface{}{}
		}
		return qs, flat
	}
	qs, flat := answer(f, true)
	e["queries"], e["answers"] = qs, flat
	// filters rebuilt from each serialisation answer identically
	var rebuilt []interface{}
	add := func(via string, ff *gcs.Filter, err error) {
		if err != nil || ff == nil {
			rebuilt = append(rebuilt, map[string]interface{}{"via": via, "n": -1, "p": -1, "bytes": []int{}, "answers": []interface{}{}})
			return
		}
		rbts, _ := ff.Bytes()
		_, fl := answer(ff, false)
		rebuilt = append(rebuilt, map[string]interface{}{"via": via, "n": int(ff.N()), "p": int(ff.P()), "bytes": ints(rbts), "answers": fl})
	}
	// the caller's buffer is re-used after the call (a network read buffer): a rebuilt filter owns its data
	scribble := func(buf []byte) {
		for i := range buf {
			buf[i] = 0xEE
		}
	}
	in1 := append([]byte{}, b...)
	f1, e1 := gcs.FromBytes(uint32(n), p, m, in1)
	scribble(in1)
	add("FromBytes", f1, e1)
	in2 := append([]byte{}, nb...)
	f2, e2 := gcs.FromNBytes(p, m, in2)
	scribble(in2)
	add("FromNBytes", f2, e2)
	e["rebuilt"] = rebuilt
}

func gItems(a Event, k string) [][]byte {
	var out [][]byte
	for _, x := range gList(a, k) {
		out = append(out, gBytes(Event{"x": x}, "x"))
	}
	return out
}

func opGcs(_ *HState, a Event) Event {
	var key [16]byte
	copy(key[:], gBytes(a, "key"))
	p := uint8(gInt(a, "p"))
	m := binary.BigEndian.Uint64(gBytes(a, "m"))
	items := gItems(a, "items")
	var queries [][][]byte
	for _, q := range gList(a, "qitems") {
		queries = append(queries, gItems(Event{"q": q}, "q"))
	}
	e := with(a)
	delete(e, "items") // the specification reads the hashes, not the raw items
	delete(e, "qitems")
	snapshot := func() [][]byte {
		var cp [][]byte
		for _, it := range items {
			cp = append(cp, append([]byte{}, it...))
		}
		for _, q := range queries {
			for _, it := range q {
				cp = append(cp, append([]byte{}, it...))
			}
		}
		return cp
	}
	before := snapshot()
	pp, msg, hung := guardT(120*time.Second, func() {
		f, err := gcs.BuildGCSFilter(p, m, key, items)
		if err != nil {
			e["builderr"] = err.Error()
			return
		}
		describeFilter(e, f, key, p, m, items, queries)
	})
	after := snapshot()
	e["argmod"] = false
	for i := range before {
		if !bytes.Equal(before[i], after[i]) {
			e["argmod"] = true
		}
	}
	if hung {
		pp, msg = true, "GCS build/query did not return within 120s (hang)"
	}
	return panicField(e, pp, msg)
}

// ---- block filter builder ---------------------------------------------------------------

func opGcsBuilder(_ *HState, a Event) Event {
	desc := gList(a, "desc")
	txs := buildTxs(desc, gInt(a, "salt"))
	blk := wire.NewMsgBlock(wire.NewBlockHeader(1, &chainhash.Hash{3}, &chainhash.Hash{}, 0x1d00ffff, uint32(gInt(a, "salt"))))
	blk.Header.Timestamp = time.Unix(1600000000+int64(gInt(a, "salt")%100000), 0) // not the clock: the call is a function of its arguments
	for _, t := range txs {
		blk.AddTransaction(t)
	}
	mempool := gBool(a, "mempool")
	e := with(a)
	// the block as the specification sees it: serialized outpoints and output scripts
	var txl []interface{}
	seen := map[string]bool{}
	var entries [][]byte
	addEntry := func(b []byte) {
		if !seen[string(b)] {
			seen[string(b)] = true
			entries = append(entries, b)
		}
	}
	all := blk.Transactions
	if mempool {
		all = append([]*wire.MsgTx{{}}, all...)
	}
	for ti, t := range all {
		var ins, outs [][]int
		for _, in := range t.TxIn {
			var buf bytes.Buffer
			buf.Write(in.PreviousOutPoint.Hash[:])
			var ib [4]byte
			binary.LittleEndian.PutUint32(ib[:], in.PreviousOutPoint.Index)
			buf.Write(ib[:])
			ins = append(ins, ints(buf.Bytes()))
			if ti > 0 {
				addEntry(buf.Bytes())
			}
		}
		for _, o := range t.TxOut {
			outs = append(outs, ints(o.PkScript))
			if len(o.PkScript) > 0 {
				addEntry(o.PkScript)
			}
		}
		if ins == nil {
			ins = [][]int{}
		}
		if outs == nil {
			outs = [][]int{}
		}
		txl = append(txl, map[string]interface{}{"ins": ins, "outs": outs})
	}
	e["txs"] = txl
	e["entries"] = bytesList(entries)
	pp, msg, hung := guardT(60*time.Second, func() {
		var f *gcs.Filter
		var err error
		var keyHash chainhash.Hash
		// the caller's transaction list sits in a larger array (spare capacity holding sentinel entries): neither the list
		// nor what lies behind it is the builder's to rearrange
		sentinel := &wire.MsgTx{Version: 0x5e471e1}
		backing := make([]*wire.MsgTx, len(blk.Transactions)+3)
		copy(backing, blk.Transactions)
		for i := len(blk.Transactions); i < len(backing); i++ {
			backing[i] = sentinel
		}
		before := append([]*wire.MsgTx{}, backing...)
		list := backing[:len(blk.Transactions):len(backing)]
		if mempool {
			f, err = builder.BuildMempoolFilter(list)
		} else {
			keyHash = blk.BlockHash()
			blk.Transactions = list
			f, err = builder.BuildBasicFilter(blk)
		}
		for i := range backing {
			if backing[i] != before[i] {
				e["sparemod"] = map[string]interface{}{"arg": "transaction list", "offset": i - len(list)}
				break
			}
		}
		if err != nil {
			e["builderr"] = err.Error()
			return
		}
		e["blockhash"] = ints(keyHash[:])
		var key [16]byte
		copy(key[:], keyHash[:16])
		describeFilter(e, f, key, builder.DefaultP, builder.DefaultM, entries, [][][]byte{entries[:minInt(len(entries), 3)], {{0xde, 0xad}}})
		// the key the builder really used: derive it the way the API exposes it
		kk := builder.DeriveKey(&keyHash)
		e["key"] = ints(kk[:])
		prev := chainhash.Hash{7, 7, 7}
		fh, _ := builder.GetFilterHash(f)
		hd, _ := builder.MakeHeaderForFilter(f, prev)
		e["fhash"], e["fheader"], e["prev"] = ints(fh[:]), ints(hd[:]), ints(prev[:])
		nb, _ := f.NBytes()
		h1 := sha256d(nb)
		e["env"] = []interface{}{envSha256d(nb), envSha256d(append(append([]byte{}, h1...), prev[:]...))}
	})
	if hung {
		pp, msg = true, "hang"
	}
	return panicField(e, pp, msg)
}

func opBuilderHist(_ *HState, a Event) Event {
	e := with(a, "builderr", false, "keyerr", false, "n", 0, "pzero", false, "mzero", false, "nbytes", []int{}, "direct", []int{})
	key := [16]byte{1, 2, 3}
	var added [][]int
	var steps []interface{}
	pp, msg := guard(func() {
		// every constructor of the package: explicit key / key derived from a hash (its first 16 bytes) / random key, with
		// explicit or default (19, 784931) parameters, with or without a size hint
		mkHash := func(v int) *chainhash.Hash {
			var h chainhash.Hash
			for i := range h {
				h[i] = byte(v + 3*i)
			}
			return &h
		}
		p, m := gInt(a, "p0"), gInt64(a, "m0")
		var b *builder.GCSBuilder
		ctor := gName(a, "ctor")
		switch ctor {
		case "KeyPNM":
			b = builder.WithKeyPNM(key, uint8(p), uint32(gInt(a, "n0")), uint64(m))
		case "Key":
			b, p, m = builder.WithKey(key), builder.DefaultP, int64(builder.DefaultM)
		case "KeyHashPM":
			b = builder.WithKeyHashPM(mkHash(5), uint8(p), uint64(m))
			copy(key[:], mkHash(5)[:16])
		case "KeyHashPNM":
			b = builder.WithKeyHashPNM(mkHash(6), uint8(p), uint32(gInt(a, "n0")), uint64(m))
			copy(key[:], mkHash(6)[:16])
		case "KeyHash":
			b, p, m = builder.WithKeyHash(mkHash(7)), builder.DefaultP, int64(builder.DefaultM)
			copy(key[:], mkHash(7)[:16])
		case "RandomKeyPM":
			b = builder.WithRandomKeyPM(uint8(p), uint64(m))
		case "RandomKeyPNM":
			b = builder.WithRandomKeyPNM(uint8(p), uint32(gInt(a, "n0")), uint64(m))
		case "RandomKey":
			b, p, m = builder.WithRandomKey(), builder.DefaultP, int64(builder.DefaultM)
		default:
			b = builder.WithKeyPM(key, uint8(p), uint64(m))
		}
		if strings.HasPrefix(ctor, "Random") { // the key is the builder's own choice: two builders do not get the same one
			key, _ = b.Key()
			k2, _ := builder.WithRandomKey().Key()
			e["randkeys_differ"] = key != k2 || p > 32 || m > math.MaxUint32
		}
		latched := false
		if p > 32 || m > math.MaxUint32 {
			latched = true
		}
		ctorLatched := latched
		if latched {
			p, m = 0, 0
			key = [16]byte{}
		}
		for _, st := range gList(a, "prog") {
			s := st.(map[string]interface{})
			rec := map[string]interface{}{"k": gName(s, "k"), "seterr": false}
			switch gName(s, "k") {
			case "SetP":
				v := gInt(s, "v")
				b.SetP(uint8(v))
				if !latched {
					if v > 32 {
						latched, rec["seterr"] = true, true
					} else {
						p = v
					}
				}
			case "SetM":
				v := gInt64(s, "v")
				b.SetM(uint64(v))
				if !latched {
					if uint64(v) > math.MaxUint32 {
						latched, rec["seterr"] = true, true
					} else {
						m = v
					}
				}
			case "Add":
				it := gBytes(s, "item")
				b.AddEntry(it)
				if !latched {
					added = append(added, ints(it))
				}
			case "AddHash":
				var h chainhash.Hash
				copy(h[:], gBytes(s, "item"))
				b.AddHash(&h)
				if !latched {
					added = append(added, ints(h[:]))
				}
			case "SetKey":
				b.SetKey([16]byte{byte(gInt(s, "v"))})
				if !latched {
					key = [16]byte{byte(gInt(s, "v"))}
				}
			case "AddEntries":
				var list [][]byte
				for _, x := range gList(s, "items") {
					it := anyBytes(x)
					list = append(list, it)
					if !latched {
						added = append(added, ints(it))
					}
				}
				b.AddEntries(list)
			case "SetKeyFromHash":
				b.SetKeyFromHash(mkHash(gInt(s, "v")))
				if !latched {
					copy(key[:], mkHash(gInt(s, "v"))[:16])
				}
			case "Preallocate": // a size hint never changes the result
				b.Preallocate(uint32(gInt(s, "v")))
			case "Build": // an intermediate Build (its result is dropped): later setters and entries still count
				b.Build()
			}
			steps = append(steps, rec)
		}
		if ctorLatched {
			steps = append([]interface{}{map[string]interface{}{"k": "With", "seterr": true}}, steps...)
		}
		e["pzero"], e["mzero"] = p == 0, m == 0
		gotKey, kerr := b.Key()
		e["keyerr"] = kerr != nil
		e["keyok"] = kerr != nil || gotKey == key
		f, err := b.Build()
		e["builderr"] = err != nil
		if err == nil {
			e["n"] = int(f.N())
			// the filter of the builder's FINAL key, P, M and entries, built directly (BuildGCSFilter itself is judged bit
			// by bit in the Gcs events): the builder's result is byte-identical
			// (P = 1 with M near 2^32 makes hundreds of megabytes of unary digits: the two serialisations are compared
			// through their SHA-256 digests)
			nb, _ := f.NBytes()
			dg := sha256.Sum256(nb)
			e["nbytes"] = ints(dg[:])
			seen := map[string]bool{}
			var items [][]byte
			for _, it := range added {
				bs := make([]byte, len(it))
				for i, x := range it {
					bs[i] = byte(x)
				}
				if !seen[string(bs)] {
					seen[string(bs)] = true
					items = append(items, bs)
				}
			}
			if d, derr := gcs.BuildGCSFilter(uint8(p), uint64(m), key, items); derr == nil {
				db, _ := d.NBytes()
				dd := sha256.Sum256(db)
				e["direct"] = ints(dd[:])
			}
		}
	})
	if added == nil {
		added = [][]int{}
	}
	if steps == nil {
		steps = []interface{}{}
	}
	e["added"], e["steps"] = added, steps
	return panicField(e, pp, msg)
}

// opGcsConc: many goroutines query one immutable filter
func opGcsConc(_ *HState, a Event) Event {
	var key [16]byte
	items := gItems(a, "items")
	f, _ := gcs.BuildGCSFilter(19, 784931, key, items)
	if gBool(a, "malformed") && f != nil {
		// a filter received from a peer that holds fewer values than its N claims (truncated data, overstated N):
		// queries may answer anything, but they may not write to the shared filter
		if raw, err := f.Bytes(); err == nil {
			if g, err := gcs.FromBytes(f.N()*2+7, 19, 784931, raw[:len(raw)/2]); err == nil {
				f = g
			}
		}
	}
	// a filter decoded from a receive buffer that the "network" goroutine re-uses for the next messages while the
	// filter is being queried: a decoded filter owns its data (it is immutable from then on)
	var recv []byte
	if gBool(a, "reused") && f != nil {
		if nb, err := f.NBytes(); err == nil {
			recv = append([]byte{}, nb...)
			if g, err := gcs.FromNBytes(19, 784931, recv); err == nil {
				f = g
			}
		}
	}
	qs := gItems(a, "q")
	ask := func() []bool {
		var r []bool
		for _, q := range qs {
			if gBool(a, "hashfirst") { // the very first query of every goroutine is an indexed one
				f.HashMatchAny(key, [][]byte{q, {7}})
			}
			m1, _ := f.Match(key, q)
			m2, _ := f.MatchAny(key, [][]byte{q, {9, 9, 9}})
			m3, _ := f.HashMatchAny(key, [][]byte{q})
			m4, _ := f.ZipMatchAny(key, [][]byte{q})
			r = append(r, m1, m2, m3, m4)
		}
		return r
	}
	before, _ := f.NBytes()
	k := gInt(a, "k")
	conc := make([][]bool, k)
	var wg sync.WaitGroup
	start := make(chan struct{})
	for g := 0; g < k; g++ {
		wg.Add(1)
		go func(g int) {
			defer wg.Done()
			<-start
			conc[g] = ask()
		}(g)
	}
	if recv != nil {
		wg.Add(1)
		go func() {
			defer wg.Done()
			<-start
			for i := 0; i < 2000; i++ {
				for j := range recv {
					recv[j] = byte(i + j)
				}
			}
		}()
	}
	close(start)
	wg.Wait()
	seq := ask()
	after, _ := f.NBytes()
	e := with(a, "seq", seq, "conc", conc, "bytesbefore", ints(before), "bytesafter", ints(after))
	delete(e, "items")
	delete(e, "q")
	return e
}
