package main

// C08: totality, time and allocation of every untrusted-input entry point.

import (
	"bytes"
	"encoding/json"
	"fmt"
	"os"
	"runtime"
	"strings"
	"syscall"
	"time"

	"github.com/gcash/bchd/chaincfg"
	"github.com/gcash/bchd/chaincfg/chainhash"
	"github.com/gcash/bchd/wire"
	"github.com/gcash/bchutil"
	"github.com/gcash/bchutil/base58"
	"github.com/gcash/bchutil/bech32"
	"github.com/gcash/bchutil/bloom"
	"github.com/gcash/bchutil/gcs"
	"github.com/gcash/bchutil/hdkeychain"
	"github.com/gcash/bchutil/jsonpb"
	pb "github.com/gcash/bchutil/jsonpb/testpb"
	"github.com/gcash/bchutil/merkleblock"
)

func init() {
	ops["Robust"] = opRobust
	families["C08"] = runC08
}

// entry points: input bytes -> error (nil = a value was returned)
var entries = map[string]func(in []byte) error{
	"DecodeAddress": func(in []byte) error {
		var err error
		for _, n := range []*chaincfg.Params{&chaincfg.MainNetParams, &chaincfg.SimNetParams} {
			_, err = bchutil.DecodeAddress(string(in), n)
		}
		return err
	},
	"DecodeCashAddress": func(in []byte) error { _, _, err := bchutil.DecodeCashAddress(string(in)); return err },
	"DecodeWIF":         func(in []byte) error { _, err := bchutil.DecodeWIF(string(in)); return err },
	"Base58Decode":      func(in []byte) error { base58.Decode(string(in)); return nil },
	"Base58CheckDecode": func(in []byte) error { _, _, err := base58.CheckDecode(string(in)); return err },
	"Bech32Decode":      func(in []byte) error { _, _, err := bech32.Decode(string(in)); return err },
	"NewKeyFromString": func(in []byte) error {
		k, err := hdkeychain.NewKeyFromString(string(in))
		if err == nil {
			_ = k.String()
			k.Child(0)
			k.Neuter()
		}
		return err
	},
	"NewBlockFromBytes": func(in []byte) error {
		b, err := bchutil.NewBlockFromBytes(in)
		if err == nil {
			b.Hash()
			b.Transactions()
			b.TxLoc()
			b.Tx(-1)
			b.Tx(1 << 30)
			b.Tx(0)
			b.TxHash(0)
			b.TxHash(-1)
			b.Tx(len(b.MsgBlock().Transactions))
		}
		return err
	},
	"NewTxFromBytes": func(in []byte) error {
		t, err := bchutil.NewTxFromBytes(in)
		if err == nil {
			t.Hash()
		}
		return err
	},
	// in: nhash(1) tweak(4) flags(1) nbytes(2, big endian) filter bytes... then the item to query
	"BloomLoadAndQuery": func(in []byte) error {
		if len(in) < 8 {
			return fmt.Errorf("short")
		}
		nb := int(in[6])<<8 | int(in[7])
		if nb > len(in)-8 {
			nb = len(in) - 8
		}
		msg := wire.NewMsgFilterLoad(in[8:8+nb], uint32(in[0]), uint32(in[1])<<24|uint32(in[2])<<16|uint32(in[3])<<8|uint32(in[4]), wire.BloomUpdateType(in[5]%3))
		f := bloom.LoadFilter(msg)
		item := in[8+nb:]
		f.Matches(item)
		f.Add(item)
		f.MatchesOutPoint(wire.NewOutPoint(&chainhash.Hash{1}, 7))
		f.AddOutPoint(wire.NewOutPoint(&chainhash.Hash{1}, 7))
		tx := wire.NewMsgTx(1)
		tx.AddTxIn(wire.NewTxIn(wire.NewOutPoint(&chainhash.Hash{2}, 0), item))
		tx.AddTxOut(wire.NewTxOut(1, item, wire.TokenData{}))
		// well-formed scripts that push data: pay-to-pubkey shaped and a bare push
		key := append([]byte{0x02}, bytes.Repeat([]byte{0x11}, 32)...)
		tx.AddTxOut(wire.NewTxOut(2, append(append([]byte{33}, key...), 0xac), wire.TokenData{}))
		tx.AddTxOut(wire.NewTxOut(3, []byte{0x03, 1, 2, 3, 0x75}, wire.TokenData{}))
		// pay-to-pubkey scripts cut off right behind the key (a bare push of 33 / 65 bytes), the key being in the filter
		ukey := append([]byte{0x04}, bytes.Repeat([]byte{0x22}, 64)...)
		f.Add(key)
		f.Add(ukey)
		tx.AddTxOut(wire.NewTxOut(4, append([]byte{33}, key...), wire.TokenData{}))
		tx.AddTxOut(wire.NewTxOut(5, append([]byte{65}, ukey...), wire.TokenData{}))
		tx.AddTxOut(wire.NewTxOut(6, append([]byte{33}, key[:32]...), wire.TokenData{}))
		f.MatchTxAndUpdate(bchutil.NewTx(tx))
		blk := wire.NewMsgBlock(wire.NewBlockHeader(1, &chainhash.Hash{}, &chainhash.Hash{}, 0, 0))
		blk.AddTransaction(tx)
		bloom.NewMerkleBlock(bchutil.NewBlock(blk), f)
		// a second filterload from the same peer: smaller, then larger than the first (nothing may be remembered)
		for _, nb2 := range []int{nb / 2, 1, 2*nb + 3} {
			if nb2 > 36000 {
				nb2 = 36000
			}
			f.Reload(wire.NewMsgFilterLoad(make([]byte, nb2), uint32(in[0]), 7, wire.BloomUpdateType(in[5]%3)))
			f.Matches(item)
			f.Add(item)
			f.MatchesOutPoint(wire.NewOutPoint(&chainhash.Hash{1}, 7))
			f.MatchTxAndUpdate(bchutil.NewTx(tx))
		}
		f.Unload()
		f.Matches(item)
		return nil
	},
	// in: ntx(4, big endian) nhashes(1) flags-len(1) then hashes (32 bytes each) then flag bytes
	"MerkleExtract": func(in []byte) error {
		if len(in) < 6 {
			return fmt.Errorf("short")
		}
		ntx := uint32(in[0])<<24 | uint32(in[1])<<16 | uint32(in[2])<<8 | uint32(in[3])
		nh, nf := int(in[4]), int(in[5])
		rest := in[6:]
		var hs []*chainhash.Hash
		for i := 0; i < nh && len(rest) >= 32; i++ {
			var h chainhash.Hash
			copy(h[:], rest[:32])
			hs = append(hs, &h)
			rest = rest[32:]
		}
		if nf > len(rest) {
			nf = len(rest)
		}
		p := merkleblock.NewMerkleBlockFromMsg(wire.MsgMerkleBlock{Transactions: ntx, Hashes: hs, Flags: rest[:nf]})
		if p.ExtractMatches() == nil {
			return fmt.Errorf("rejected")
		}
		return nil
	},
	// in: a serialized public key as received from a peer / read from a script
	"NewAddressPubKey": func(in []byte) error {
		_, err := bchutil.NewAddressPubKey(in, &chaincfg.MainNetParams)
		return err
	},
	// in: p(1) then N-prefixed filter bytes
	"GcsFromNBytesAndQuery": func(in []byte) error {
		if len(in) < 1 {
			return fmt.Errorf("short")
		}
		f, err := gcs.FromNBytes(in[0], 784931, in[1:])
		if err != nil {
			return err
		}
		return gcsQueryAll(f)
	},
	// in: p(1) n(4) then filter bytes
	"GcsFromBytesAndQuery": func(in []byte) error {
		if len(in) < 5 {
			return fmt.Errorf("short")
		}
		n := uint32(in[1])<<24 | uint32(in[2])<<16 | uint32(in[3])<<8 | uint32(in[4])
		f, err := gcs.FromBytes(n, in[0], 784931, in[5:])
		if err != nil {
			return err
		}
		return gcsQueryAll(f)
	},
	// in: a serialized block; it is scanned against a filter (update-all) that contains scanItem
	"BlockScan": func(in []byte) error {
		b, err := bchutil.NewBlockFromBytes(in)
		if err != nil {
			return err
		}
		mk := func() *bloom.Filter {
			f := bloom.NewFilter(10, 0, 0.0001, wire.BloomUpdateAll)
			f.Add(scanItem)
			return f
		}
		bloom.GetMatchedIndices(b, mk())
		if len(b.MsgBlock().Transactions) > 0 { // proof construction is specified for n >= 1 (C11); see DESIGN.md section 12
			bloom.NewMerkleBlock(b, mk())
			merkleblock.NewMerkleBlockWithFilter(b, mk())
		}
		return nil
	},
	"JsonpbUnmarshal": func(in []byte) error {
		var m pb.GetBlockResponse
		err := jsonpb.Unmarshal(bytes.NewReader(in), &m)
		var m2 pb.GetBlockResponse
		(&jsonpb.Unmarshaler{}).Unmarshal(bytes.NewReader(in), &m2)
		return err
	},
}

var scanItem = append([]byte{0x02}, bytes.Repeat([]byte{0x5a}, 32)...)

// chainBlock: n transactions, transaction i spends `fan` outputs of transaction i-1 (fib: one output of each of
// i-1 and i-2); every output pays to scanItem, so every transaction is relevant on its own and through its parents.
func chainBlock(n, fan int, fib, reversed bool) []byte {
	script := append(append([]byte{33}, scanItem...), 0xac)
	txs := make([]*wire.MsgTx, n)
	for i := 0; i < n; i++ {
		tx := wire.NewMsgTx(1)
		for k := 0; k < fan; k++ {
			prev := chainhash.Hash{0xC8, byte(k)}
			idx := uint32(k)
			if fib {
				idx = 0
				if i-1-k >= 0 {
					prev = txs[i-1-k].TxHash()
				}
			} else if i > 0 {
				prev = txs[i-1].TxHash()
			}
			tx.AddTxIn(wire.NewTxIn(wire.NewOutPoint(&prev, idx), []byte{0x51}))
		}
		for k := 0; k < fan; k++ {
			tx.AddTxOut(wire.NewTxOut(1000, script, wire.TokenData{}))
		}
		txs[i] = tx
	}
	blk := wire.NewMsgBlock(wire.NewBlockHeader(1, &chainhash.Hash{9}, &chainhash.Hash{}, 0x1d00ffff, 0))
	for i := range txs {
		if reversed {
			blk.AddTransaction(txs[n-1-i])
		} else {
			blk.AddTransaction(txs[i])
		}
	}
	return serBlock(blk)
}

func gcsQueryAll(f *gcs.Filter) error {
	var key [16]byte
	q := [][]byte{{1}, {2, 3}}
	f.Match(key, q[0])
	f.ZipMatchAny(key, q)
	f.HashMatchAny(key, q)
	f.MatchAny(key, q)
	f.NBytes()
	f.NPBytes()
	return nil
}

var journal *os.File

func opRobust(_ *HState, a Event) Event {
	entry := gName(a, "entry")
	in := gBytes(a, "in")
	fn := entries[entry]
	e := Event{"op": "Robust", "entry": entry, "in": ints(in), "len": len(in), "outcome": "ok", "detail": "", "cpu_us": 0, "alloc_kib": 0}
	if fn == nil {
		e["outcome"], e["detail"] = "crash", "no such entry point in the harness"
		return e
	}
	if journal != nil { // so that a process-killing input can be named afterwards
		b, _ := json.Marshal(map[string]interface{}{"entry": entry, "in": ints(in), "n": gInt(a, "n")})
		journal.Truncate(0)
		journal.WriteAt(b, 0)
	}
	best := time.Duration(1 << 62)
	var alloc uint64
	for rep := 0; rep < 3; rep++ {
		var m0, m1 runtime.MemStats
		runtime.ReadMemStats(&m0)
		t0, c0 := time.Now(), procCPU()
		var err error
		p, msg, hung := guardT(10*time.Second, func() { err = fn(in) })
		d := time.Since(t0)
		// the bound is on work done: on a loaded machine the wall clock also counts the time the process was not
		// running, so a repetition costs min(wall, CPU time consumed by the process); hangs have their own deadline
		if c := procCPU() - c0; c < d {
			d = c
		}
		runtime.ReadMemStats(&m1)
		if hung {
			e["outcome"], e["detail"] = "hang", "no result within 10 s"
			return e
		}
		if p {
			e["outcome"], e["detail"] = "panic", msg
			return e
		}
		if err != nil {
			e["outcome"] = "err"
		}
		if d < best {
			best = d
		}
		if rep == 0 {
			alloc = m1.TotalAlloc - m0.TotalAlloc
		}
		if d > 200*time.Millisecond {
			break
		}
	}
	e["cpu_us"], e["alloc_kib"] = int(best/time.Microsecond), int(alloc/1024)
	return e
}

func procCPU() time.Duration {
	var ru syscall.Rusage
	if syscall.Getrusage(syscall.RUSAGE_SELF, &ru) != nil {
		return time.Duration(1 << 62)
	}
	return time.Duration(ru.Utime.Nano() + ru.Stime.Nano())
}

func robust(c *Ctx, entry string, in []byte, n int) {
	e := Do(nil, Event{"op": "Robust", "entry": entry, "in": ints(in), "n": n})
	c.Add(e)
	if len(c.cur) == 0 { // a batch was just written: make it durable (a later input may kill the process)
		c.out.Flush()
	}
}

func runC08(c *Ctx) {
	r := c.Rng
	if jp := c.Arg["journal"]; jp != "" {
		journal, _ = os.Create(jp)
	}
	skip := 0
	fmt.Sscan(c.Arg["skip"], &skip)
	avoid := map[int]bool{}
	for _, x := range strings.Split(c.Arg["avoid"], "+") {
		v := 0
		if _, err := fmt.Sscan(x, &v); err == nil {
			avoid[v] = true
		}
	}
	c.Batch = 50
	n := 0
	call := func(entry string, in []byte) {
		n++
		if n <= skip || avoid[n] {
			return
		}
		robust(c, entry, in, n)
	}
	strEntries := []string{"DecodeAddress", "DecodeCashAddress", "DecodeWIF", "Base58Decode", "Base58CheckDecode", "Bech32Decode", "NewKeyFromString"}
	// TLC-generated: valid checksums over fewer than eight symbols
	for _, cs := range readCases(c.Cases) {
		s := gBytes(cs, "s")
		call("DecodeCashAddress", s)
		call("DecodeCashAddress", []byte(strings.ToUpper(string(s))))
		call("DecodeAddress", s)
	}
	// known prefixes with degenerate payloads (valid checksum over 0..7 symbols and over an empty data part)
	for _, pfx := range []string{"bitcoincash", "simpleledger", "bchtest", "bchreg", "bchsim", "slptest", "slpreg"} {
		for L := 0; L <= 12; L++ {
			syms := make([]byte, L)
			for i := range syms {
				syms[i] = byte(r.Intn(32))
			}
			s := pfx + ":" + refCashString(pfx, syms)
			call("DecodeAddress", []byte(s))
			call("DecodeAddress", []byte(strings.ToUpper(s)))
			call("DecodeCashAddress", []byte(s))
			call("DecodeAddress", []byte(refCashString(pfx, syms)))
		}
	}
	// strings of every length 0..120 over each alphabet, with and without valid framing
	printable := ""
	for ch := 33; ch <= 126; ch++ {
		printable += string(rune(ch))
	}
	alphas := []string{b58alpha, b32alpha, b32alpha + ":", "0123456789abcdef", "abcdefghijklmnopqrstuvwxyz:1", "\x00\xff 1:", printable, "{|}~`@[]^_1q:"}
	for L := 0; L <= 120; L++ {
		for ai, al := range alphas {
			s := randStr(c, al, L)
			if !c.Thorough() && (L+ai)%3 != 0 && L > 12 {
				continue
			}
			for _, en := range strEntries {
				call(en, []byte(s))
			}
		}
		// Base58Check / bech32 framing around arbitrary payloads
		p := randBytes(r, L)
		call("Base58CheckDecode", []byte(b58WithChecksum(p)))
		call("DecodeAddress", []byte(b58WithChecksum(p)))
		call("DecodeWIF", []byte(b58WithChecksum(p)))
		call("NewKeyFromString", []byte(b58WithChecksum(p)))
		if L <= 80 {
			d := make([]byte, L)
			for i := range d {
				d[i] = byte(r.Intn(32))
			}
			if s, err := bech32.Encode("bc", d); err == nil {
				call("Bech32Decode", []byte(s))
				if L > 0 { // every printable character outside the alphabet somewhere in the data part
					for _, fc := range "{|}~`@[^_!" {
						p := 3 + r.Intn(len(s)-3)
						call("Bech32Decode", []byte(s[:p]+string(fc)+s[p+1:]))
					}
				}
				call("Bech32Decode", []byte(s[:len(s)/2]+"1"+s[len(s)/2:]))
			}
		}
	}
	for n := 0; n <= 4; n++ { // Base58Check / WIF / key strings decoding to 0..8 bytes whose tail is a valid checksum
		body := randBytes(r, n)
		full := base58Ref(append(append([]byte{}, body...), sha256d(body)[:4]...))
		for _, en := range []string{"Base58CheckDecode", "DecodeWIF", "NewKeyFromString", "DecodeAddress"} {
			call(en, []byte(full))
		}
	}
	for _, L := range []int{500, 2000, 10000, 100000} { // long inputs: time at most quadratic
		for _, en := range strEntries {
			call(en, []byte(randStr(c, b58alpha, L)))
			call(en, []byte("bitcoincash:"+randStr(c, b32alpha, L)))
			call(en, []byte(strings.Repeat("1", L)))
		}
	}
	// extended keys: valid payloads with every field mutated
	if m, err := hdkeychain.NewMaster(randBytes(r, 32), &chaincfg.MainNetParams); err == nil {
		p := refB58Decode(m.String())[:78]
		for i := 0; i < 78; i++ {
			q := append([]byte{}, p...)
			q[i] ^= byte(1 + r.Intn(255))
			call("NewKeyFromString", []byte(b58WithChecksum(q)))
		}
		q := append([]byte{}, p...)
		q[4] = 255 // depth 255: the derived child must be refused, not wrap around
		call("NewKeyFromString", []byte(b58WithChecksum(q)))
	}
	// serialized blocks and transactions: truncated, extended, mutated, counts at their maxima
	blk := mkBlock(3, 5)
	ser := serBlock(blk)
	for i := 0; i <= len(ser); i++ {
		if !c.Thorough() && i%3 != 0 && i > 90 {
			continue
		}
		call("NewBlockFromBytes", ser[:i])
	}
	for k := 0; k < c.Pick(300, 3000); k++ {
		q := append([]byte{}, ser...)
		for m := 0; m < 1+r.Intn(3); m++ {
			q[r.Intn(len(q))] = byte(r.Intn(256))
		}
		call("NewBlockFromBytes", q)
	}
	// a block that declares no transactions at all (header + count 0), alone and followed by bytes
	call("NewBlockFromBytes", append(append([]byte{}, ser[:80]...), 0))
	call("NewBlockFromBytes", append(append([]byte{}, ser[:80]...), 0, 0, 0))
	call("BlockScan", append(append([]byte{}, ser[:80]...), 0))
	for _, cnt := range [][]byte{{0xfd, 0xff, 0xff}, {0xfe, 0xff, 0xff, 0xff, 0xff}, {0xff, 0xff, 0xff, 0xff, 0xff, 0xff, 0xff, 0xff, 0xff}, {0xfe, 0x00, 0x00, 0x00, 0x01}} {
		q := append(append(append([]byte{}, ser[:80]...), cnt...), ser[81:]...) // transaction count
		call("NewBlockFromBytes", q)
		tx := serTx(blk.Transactions[0])
		call("NewTxFromBytes", append(append(append([]byte{}, tx[:4]...), cnt...), tx[5:]...))   // input count
		call("NewTxFromBytes", append(append(append([]byte{}, tx[:41]...), cnt...), tx[42:]...)) // script length
	}
	tx := serTx(blk.Transactions[1])
	for i := 0; i <= len(tx); i++ {
		call("NewTxFromBytes", tx[:i])
	}
	for k := 0; k < c.Pick(300, 3000); k++ {
		q := append([]byte{}, tx...)
		q[r.Intn(len(q))] = byte(r.Intn(256))
		call("NewTxFromBytes", q)
	}
	// bloom filter-load messages within the wire limits, incl. the empty bit array, and matched data
	for nh := 0; nh <= 50; nh += 5 {
		for _, nb := range []int{0, 1, 2, 8, 36000} {
			in := append([]byte{byte(nh), 1, 2, 3, 4, byte(nh), byte(nb >> 8), byte(nb)}, make([]byte, nb)...)
			for _, item := range [][]byte{{}, {0x4c}, {0x4d, 0xff}, {0x4e, 0xff, 0xff, 0xff, 0x7f}, {1, 2, 3}, randBytes(r, 40)} {
				call("BloomLoadAndQuery", append(append([]byte{}, in...), item...))
			}
		}
	}
	// merkle-block messages: declared counts at the extremes
	for _, ntx := range []uint32{0, 1, 2, 7, 1 << 16, uint32(merkleblock.MaxTxnCount), uint32(merkleblock.MaxTxnCount) + 1, 1<<31 - 1, 1 << 31, 1<<32 - 1} {
		for _, nh := range []int{0, 1, 2, 3} {
			for _, fl := range [][]byte{{}, {0}, {1}, {0xff}, {0xff, 0xff, 0xff, 0xff}} {
				in := []byte{byte(ntx >> 24), byte(ntx >> 16), byte(ntx >> 8), byte(ntx), byte(nh), byte(len(fl))}
				in = append(in, randBytes(r, 32*nh)...)
				call("MerkleExtract", append(in, fl...))
			}
		}
	}
	// serialized public keys of every length 0..70 with every format byte that means something
	for n := 0; n <= 70; n++ {
		for _, fb := range []byte{0, 2, 3, 4, 6, 7} {
			pk := randBytes(r, n)
			if n > 0 {
				pk[0] = fb
			}
			call("NewAddressPubKey", pk)
		}
	}
	// GCS: N-prefixed bytes declaring N in {0, 1, 2^16, 2^22, 2^24, 2^32-1} over 0..8 payload bytes
	for _, p := range []byte{0, 1, 19, 32, 33} {
		for _, nn := range [][]byte{{0}, {1}, {0xfd, 0x00, 0x01}, {0xfe, 0x00, 0x00, 0x01, 0x00}, {0xfe, 0x00, 0x00, 0x40, 0x00}, {0xfe, 0x00, 0x00, 0x00, 0x01}, {0xfe, 0xff, 0xff, 0xff, 0xff}, {0xff, 0, 0, 0, 0, 1, 0, 0, 0}, {0xfd}, {}} {
			for L := 0; L <= 8; L += 2 {
				call("GcsFromNBytesAndQuery", append(append([]byte{p}, nn...), randBytes(r, L)...))
			}
		}
		// unterminated unary runs: tails of 0xff bytes of every length, behind nothing, behind a partial byte, behind a
		// well-formed value; N over-claims
		for k := 1; k <= 9; k++ {
			ff := bytes.Repeat([]byte{0xff}, k)
			for _, head := range [][]byte{{}, {0x01}, {0xfe}, {0x00, 0x7f}, {0x80, 0x00, 0x01}} {
				body := append(append([]byte{}, head...), ff...)
				for _, n := range []byte{1, 2, 3, 200} {
					call("GcsFromNBytesAndQuery", append([]byte{p, n}, body...))
					call("GcsFromBytesAndQuery", append([]byte{p, 0, 0, 0, n}, body...))
				}
			}
		}
		for _, n := range []uint32{0, 1, 1 << 16, 1 << 22, 1<<32 - 1} {
			for _, body := range [][]byte{{}, {0}, {0xff, 0xff, 0xff, 0xff}, randBytes(r, 8)} {
				call("GcsFromBytesAndQuery", append([]byte{p, byte(n >> 24), byte(n >> 16), byte(n >> 8), byte(n)}, body...))
			}
		}
	}
	// JSON for the protobuf unmarshaller: heterogeneous arrays, deep nesting, wrong types
	leaves := []string{`"00"`, `1`, `true`, `null`, `{}`, `[]`, `"zz"`, `"` + strings.Repeat("ab", 32) + `"`, `1e999`, `-0`,
		`"` + strings.Repeat("z", 64) + `"`, `"` + strings.Repeat("ab", 31) + `ag"`, `"` + strings.Repeat("ab", 32) + `0"`, `"` + strings.Repeat("ab", 16) + `"`}
	var jsons []string
	for _, a := range leaves {
		jsons = append(jsons, a, `[`+a+`]`, `{"a":`+a+`}`, `{"block":`+a+`}`, `{"block":{"info":`+a+`}}`, `{"block":{"transaction_data":`+a+`}}`)
		for _, b := range leaves {
			jsons = append(jsons, `[`+a+`,`+b+`]`, `{"a":[`+a+`,`+b+`]}`, `{"a":[[`+a+`],`+b+`]}`, `{"a":{"b":[`+a+`,`+b+`]}}`, `{"block":{"transaction_data":[`+a+`,`+b+`]}}`,
				`{"block":{"info":{"hash":`+a+`,"height":`+b+`}}}`)
		}
	}
	jsons = append(jsons, strings.Repeat("[", 3000)+strings.Repeat("]", 3000), strings.Repeat(`{"a":`, 3000)+"1"+strings.Repeat("}", 3000), `{"a":["00",1]}`, `{"a":[{"b":1},"00"]}`, `{"a":[["00"],"00"]}`, ``, `{`, `[1,`)
	for _, j := range jsons {
		call("JsonpbUnmarshal", []byte(j))
	}
	// TLC-generated JSON trees (Gen_JsonWalk: every tree of depth <= 2 over six leaf kinds), as they stand and at the
	// positions of a block message the unmarshaller knows
	if path := c.Arg["json"]; path != "" {
		trees := readCases(path)
		step := len(trees)/c.Pick(1500, 12000) + 1
		for i := int(c.Seed) % step; i < len(trees); i += step {
			txt, err := json.Marshal(treeToGo(trees[i]["t"]))
			if err != nil {
				continue
			}
			call("JsonpbUnmarshal", txt)
			if i%3 == 0 {
				call("JsonpbUnmarshal", []byte(`{"block":{"info":`+string(txt)+`,"transaction_data":`+string(txt)+`}}`))
			}
		}
	} // blocks scanned against a filter: dependency chains and DAGs whose every transaction is relevant, children first
	// (the scan re-checks dependants; the work must stay polynomial).  Last, because a scan that does not return keeps
	// a goroutine busy for the rest of the run.
	for _, n := range []int{2, 4, 8, 12, 16, 20, 24, 32, 64, 200} {
		for _, fan := range []int{1, 2, 3} {
			call("BlockScan", chainBlock(n, fan, false, true))
			call("BlockScan", chainBlock(n, fan, false, false))
			if fan > 1 {
				call("BlockScan", chainBlock(n, fan, true, true))
			}
		}
	}
}
