package main

// HD key / WIF ops (C04, C05, C06, C15).

import (
	"bytes"
	"crypto/hmac"
	"crypto/sha512"
	"encoding/binary"
	"github.com/gcash/bchd/chaincfg"
	"math/big"

	"github.com/gcash/bchd/bchec"
	"github.com/gcash/bchutil"
	"github.com/gcash/bchutil/hdkeychain"
)

func init() {
	for _, op := range []string{"HDConfig", "NewMaster", "Child", "Neuter", "Parse", "NewExt", "SetNet", "Zero", "Reparse", "HDObserve"} {
		ops[op] = opHD
	}
	ops["Wif"] = opWif
	ops["WifDecode"] = opWifDecode
	ops["WifMutate"] = opWifMutate
	ops["PartsPurity"] = opPartsPurity
	ops["HDPathStr"] = opHDPathStr
	ops["GenerateSeed"] = opGenerateSeed
	ops["ShortKeyString"] = opShortKeyString
}

// ---- environment facts ---------------------------------------------------------------

func hmac512(key, data []byte) []byte {
	m := hmac.New(sha512.New, key)
	m.Write(data)
	return m.Sum(nil)
}
func envHmac(key, data []byte) map[string]interface{} {
	in := append(append([]byte{byte(len(key))}, key...), data...)
	return envFact("hmac512", in, hmac512(key, data))
}
func ecBase(k []byte) []byte {
	x, y := bchec.S256().ScalarBaseMult(k)
	if x.Sign() == 0 && y.Sign() == 0 {
		return []byte{}
	}
	return (&bchec.PublicKey{Curve: bchec.S256(), X: x, Y: y}).SerializeCompressed()
}
func envEcBase(k []byte) map[string]interface{} { return envFact("ec-base", k, ecBase(k)) }
func ecAdd(p, q []byte) []byte {
	P, e1 := bchec.ParsePubKey(p, bchec.S256())
	Q, e2 := bchec.ParsePubKey(q, bchec.S256())
	if e1 != nil || e2 != nil {
		return []byte{}
	}
	x, y := bchec.S256().Add(P.X, P.Y, Q.X, Q.Y)
	if x.Sign() == 0 && y.Sign() == 0 {
		return []byte{}
	}
	return (&bchec.PublicKey{Curve: bchec.S256(), X: x, Y: y}).SerializeCompressed()
}
func ecUncompress(p []byte) []byte {
	P, err := bchec.ParsePubKey(p, bchec.S256())
	if err != nil {
		return []byte{}
	}
	return P.SerializeUncompressed()
}

// envForKey: facts needed to observe a key with the given 78-byte payload.
func envForKey(p []byte) []interface{} {
	if len(p) != 78 {
		return nil
	}
	env := []interface{}{envSha256d(p)}
	pub := p[45:78]
	if p[45] == 0 {
		env = append(env, envEcBase(p[46:78]))
		pub = ecBase(p[46:78])
	} else {
		env = append(env, envPubKey(pub)...)
	}
	if len(pub) == 33 {
		env = append(env, envHash160(pub)...)
	}
	return env
}

// envForChild: the menu of facts for one derivation step from the parent payload.
func envForChild(p []byte, idx uint32) []interface{} {
	if len(p) != 78 {
		return nil
	}
	var ib [4]byte
	binary.BigEndian.PutUint32(ib[:], idx)
	cc := p[13:45]
	var env []interface{}
	pub := p[45:78]
	if p[45] == 0 {
		pub = ecBase(p[46:78])
		env = append(env, envEcBase(p[46:78]))
		hard := append(append([]byte{0}, p[46:78]...), ib[:]...)
		env = append(env, envHmac(cc, hard))
	}
	if len(pub) == 33 {
		norm := append(append([]byte{}, pub...), ib[:]...)
		env = append(env, envHmac(cc, norm))
		env = append(env, envHash160(pub)...)
		il := hmac512(cc, norm)[:32]
		g := ecBase(il)
		env = append(env, envEcBase(il))
		if len(g) == 33 {
			env = append(env, envFact("ec-add", append(append([]byte{}, g...), pub...), ecAdd(g, pub)))
		}
	}
	return env
}

// ---- observation -------------------------------------------------------------------------

func hdErr(err error) string {
	switch err {
	case nil:
		return ""
	case hdkeychain.ErrInvalidSeedLen:
		return "seed-length"
	case hdkeychain.ErrUnusableSeed:
		return "unusable-seed"
	case hdkeychain.ErrDeriveBeyondMaxDepth:
		return "max-depth"
	case hdkeychain.ErrDeriveHardFromPublic:
		return "hardened-from-public"
	case hdkeychain.ErrInvalidChild:
		return "invalid-child"
	case hdkeychain.ErrNotPrivExtKey:
		return "not-private"
	case hdkeychain.ErrInvalidKeyLen:
		return "length"
	case hdkeychain.ErrBadChecksum:
		return "checksum"
	}
	return "other:" + err.Error()
}

func payloadOf(k *hdkeychain.ExtendedKey) []byte {
	d := refB58Decode(k.String())
	if len(d) != 82 {
		return nil
	}
	return d[:78]
}

func observeKey(k *hdkeychain.ExtendedKey, anet int) (map[string]interface{}, []interface{}) {
	s := k.String()
	p := payloadOf(k)
	var fp [4]byte
	o := map[string]interface{}{"str": str(s), "ser": ints(p), "priv": k.IsPrivate(), "depth": int(k.Depth()), "fp": []int{0, 0, 0, 0},
		"pub": []int{}, "prv": []int{}, "prverr": "", "addr": []int{}, "anet": anet}
	guard(func() {
		binary.BigEndian.PutUint32(fp[:], k.ParentFingerprint())
		o["fp"] = ints(fp[:])
	})
	guard(func() {
		if pk, err := k.ECPubKey(); err == nil {
			o["pub"] = ints(pk.SerializeCompressed())
		}
	})
	guard(func() {
		sk, err := k.ECPrivKey()
		o["prverr"] = hdErr(err)
		if err == nil {
			o["prv"] = ints(sk.Serialize())
		}
	})
	guard(func() {
		if a, err := k.Address(nets[anet-1]); err == nil {
			o["addr"] = str(a.EncodeAddress())
		}
	})
	// ... and the address on EVERY registered network, asked of the same object one after the other (several networks
	// share the extended-key version bytes but not the address prefix)
	addrs := [][]int{}
	guard(func() {
		for _, n := range nets {
			a, err := k.Address(n)
			if err != nil {
				addrs = append(addrs, []int{})
				continue
			}
			addrs = append(addrs, str(a.EncodeAddress()))
		}
	})
	o["addrs"] = addrs
	return o, envForKey(p)
}

type hdPool struct {
	keys map[int]*hdkeychain.ExtendedKey
}

func (pl *hdPool) all() []interface{} {
	out := []interface{}{}
	for id := 1; id <= 64; id++ {
		k, ok := pl.keys[id]
		if !ok {
			continue
		}
		probe := "none"
		var probeStr []int
		guard(func() {
			c, err := k.Child(0)
			if err != nil {
				probe = hdErr(err)
				return
			}
			probe = "ok"
			probeStr = str(retainStr("ExtendedKey", "String", c.String()))
		})
		if probeStr == nil {
			probeStr = str(probe)
		}
		out = append(out, map[string]interface{}{"id": id, "ser": ints(payloadOf(k)), "probe": probeStr})
	}
	return out
}

func opHD(h *HState, a Event) Event {
	if h == nil {
		h = &HState{Obj: map[string]interface{}{}}
	}
	pl, _ := h.Obj["hd"].(*hdPool)
	if pl == nil {
		pl = &hdPool{keys: map[int]*hdkeychain.ExtendedKey{}}
		h.Obj["hd"] = pl
	}
	op := gName(a, "op")
	if op == "HDObserve" { // the final observation of a history that was executed without looking (DeferredOp)
		return Event{"op": "HDObserve", "all": pl.all()}
	}
	if op == "Reparse" { // Parse(dst, String() of the live key src)
		op = "Parse"
		a = with(a, "op", "Parse", "s", []int{})
		if k, ok := pl.keys[gInt(a, "src")]; ok {
			a["s"] = str(retainStr("ExtendedKey", "String", k.String()))
		}
	}
	// calls on ids that are not live (already zeroed / never created) are skipped
	if op == "Child" || op == "Neuter" || op == "SetNet" || op == "Zero" {
		if _, ok := pl.keys[gInt(a, "src")]; !ok {
			if gBool(a, "noobs") {
				return Event{"op": "HDSkipped", "orig": op}
			}
			return Event{"op": "HDSkipped", "orig": op, "all": pl.all()}
		}
	}
	e := with(a, "env", []interface{}{})
	anet := 1 + (gInt(a, "dst")+gInt(a, "src"))%len(nets)
	var env []interface{}
	// quiet: the second execution of a history (DeferredObservation): only the calls themselves are made -- no key is
	// read (String, ECPubKey, a probe child) before the end, so anything the library computes lazily "on first read"
	// is computed after the whole history instead of after the step that created the key
	quiet := gBool(a, "noobs")
	setResult := func(k *hdkeychain.ExtendedKey, err error) {
		e["ok"] = err == nil && k != nil
		e["err"] = hdErr(err)
		e["obs"] = map[string]interface{}{}
		if err == nil && k != nil {
			pl.keys[gInt(a, "dst")] = k
			if !quiet {
				o, oe := observeKey(k, anet)
				e["obs"] = o
				env = append(env, oe...)
			}
		}
	}
	p, msg := guard(func() {
		switch op {
		case "HDConfig":
			cfg := opConfig(nil, Event{"op": "Config"})
			e["nets"] = cfg["nets"]
			hm := [][][]int{}
			seen := map[string]bool{}
			for _, n := range nets {
				key := string(n.HDPrivateKeyID[:])
				if !seen[key] {
					seen[key] = true
					hm = append(hm, [][]int{ints(n.HDPrivateKeyID[:]), ints(n.HDPublicKeyID[:])})
				}
			}
			e["hdmap"] = hm
		case "NewMaster":
			seed := gBytes(a, "seed")
			env = append(env, envHmac([]byte("Bitcoin seed"), seed))
			k, err := hdkeychain.NewMaster(seed, nets[gInt(a, "net")-1])
			setResult(k, err)
		case "Child":
			src := pl.keys[gInt(a, "src")]
			idx := gW32(a, "idx")
			if !quiet {
				env = append(env, envForChild(payloadOf(src), idx)...)
			}
			k, err := src.Child(idx)
			setResult(k, err)
		case "Neuter":
			src := pl.keys[gInt(a, "src")]
			if !quiet {
				env = append(env, envForKey(payloadOf(src))...)
			}
			k, err := src.Neuter()
			if observeNeuterIdentity { // only C15 states which OBJECT Neuter returns for an already-public key
				e["same"] = k == src
			}
			setResult(k, err)
		case "Parse":
			s := gStr(a, "s")
			if d := refB58Decode(s); len(d) == 82 {
				env = append(env, envSha256d(d[:78]))
				if d[45] != 0 {
					env = append(env, envPubKey(d[45:78])...)
				}
			}
			k, err := hdkeychain.NewKeyFromString(s)
			setResult(k, err)
		case "NewExt":
			k := hdkeychain.NewExtendedKey(gBytes(a, "ver"), gBytes(a, "key"), gBytes(a, "cc"), gBytes(a, "fp"), uint8(gInt(a, "depth")), gW32(a, "cn"), gBool(a, "priv"))
			setResult(k, nil)
		case "SetNet":
			k := pl.keys[gInt(a, "src")]
			k.SetNet(nets[gInt(a, "net")-1])
			if !quiet {
				o, oe := observeKey(k, anet)
				e["obs"] = o
				env = append(env, oe...)
			}
		case "Zero":
			k := pl.keys[gInt(a, "src")]
			bufs := hdkeychain.VerifBuffers(k)
			k.Zero()
			z := map[string]interface{}{"str": str(k.String()), "priv": k.IsPrivate(), "prverr": "", "bufzero": true, "nonzero": 0}
			_, err := k.ECPrivKey()
			z["prverr"] = hdErr(err)
			nz := 0
			for _, b := range bufs {
				for _, x := range b {
					if x != 0 {
						nz++
					}
				}
			}
			z["bufzero"], z["nonzero"] = nz == 0, nz
			// the erased key is used again: it must go on reporting itself as zeroed
			after := map[string]interface{}{"str": []int{}, "prverr": ""}
			guard(func() {
				k.SetNet(nets[gInt(a, "src")%len(nets)])
				after["str"] = str(k.String())
				_, err := k.ECPrivKey()
				after["prverr"] = hdErr(err)
			})
			z["after"] = after
			e["z"] = z
			// every id that is the same Go object is zeroed too (Neuter of a public key returns itself)
			for id, kk := range pl.keys {
				if kk == k {
					delete(pl.keys, id)
				}
			}
		}
	})
	if p {
		e["panic"] = msg
	}
	if op != "HDConfig" && !quiet {
		pa, _ := guard(func() { e["all"] = pl.all() })
		if pa {
			e["panic"] = "observation of the pool panicked"
			e["all"] = []interface{}{}
		}
	}
	e["env"] = env
	return e
}

// ---- WIF ------------------------------------------------------------------------------------

// opPartsPurity: an extended key assembled with NewExtendedKey from slices that live inside larger caller buffers
// (spare capacity poisoned).  Deriving, neutering and printing must leave the caller's buffers as they were.
func opPartsPurity(_ *HState, a Event) Event {
	seed := gBytes(a, "seed")
	e := with(a, "argmod", false, "which", "", "ok", false)
	p, msg := guard(func() {
		m, err := hdkeychain.NewMaster(seed, nets[0])
		if err != nil {
			return
		}
		src := m
		if !gBool(a, "private") {
			if src, err = m.Neuter(); err != nil {
				return
			}
		}
		pay := refB58Decode(src.String())
		if len(pay) < 78 {
			return
		}
		keyBytes := pay[45:78]
		if gBool(a, "private") {
			keyBytes = pay[46:78]
		}
		ver, vb := sliceWithCap(pay[0:4], 12)
		key, kb := sliceWithCap(keyBytes, 24)
		cc, cb := sliceWithCap(pay[13:45], 24)
		fp, fb := sliceWithCap(pay[5:9], 12)
		before := [][]byte{append([]byte{}, vb...), append([]byte{}, kb...), append([]byte{}, cb...), append([]byte{}, fb...)}
		k := hdkeychain.NewExtendedKey(ver, key, cc, fp, pay[4], 0, gBool(a, "private"))
		e["ok"] = true
		for _, i := range []uint32{0, 1, hdkeychain.HardenedKeyStart, 7} {
			if c, err := k.Child(i); err == nil {
				_ = c.String()
			}
		}
		k.Neuter()
		_ = k.String()
		k.Address(nets[0])
		k.ECPubKey()
		for j, bk := range [][]byte{vb, kb, cb, fb} {
			if !bytes.Equal(bk, before[j]) {
				e["argmod"], e["which"] = true, []string{"version", "key", "chain code", "parent fingerprint"}[j]
			}
		}
		// erasing the key erases the key: the caller's memory BEHIND the slices it was made of (another record in the same
		// buffer) is not the key's to wipe
		k.Zero()
		for j, bk := range [][]byte{vb, kb, cb, fb} {
			n := []int{4, len(key), 32, 4}[j]
			if !bytes.Equal(bk[n:], before[j][n:]) && e["argmod"] == false {
				e["argmod"], e["which"] = true, []string{"version", "key", "chain code", "parent fingerprint"}[j]+" (memory behind the slice, on Zero)"
			}
		}
	})
	return panicField(e, p, msg)
}

// opHDPathStr: master from a seed, a derivation path, neutering at the end -- as one stateless call whose result is
// only the strings.  The derivation itself is judged step by step elsewhere (histories); this op exists so that
// NewMaster / Child / Neuter / String take part in the replay (other call orders, 8 goroutines at once).
func opHDPathStr(_ *HState, a Event) Event {
	e := with(a, "strs", [][]int{})
	p, msg := guard(func() {
		k, err := hdkeychain.NewMaster(gBytes(a, "seed"), nets[gInt(a, "net")-1])
		if err != nil {
			e["err"] = err.Error()
			return
		}
		out := [][]int{str(k.String())}
		for _, x := range gList(a, "path") {
			ix := gW32(Event{"x": x}, "x")
			if k, err = k.Child(ix); err != nil {
				e["err"] = err.Error()
				break
			}
			out = append(out, str(k.String()))
		}
		if err == nil {
			if n, err := k.Neuter(); err == nil {
				out = append(out, str(n.String()))
				if ad, err := n.Address(nets[0]); err == nil {
					out = append(out, str(ad.EncodeAddress()))
				}
			}
		}
		e["strs"] = out
	})
	return panicField(e, p, msg)
}

// opShortKeyString: a private key assembled by NewExtendedKey from a scalar with fewer than 32 bytes (what
// big.Int.Bytes() gives): the string form pads it on the left, and the library's own parser reads it back.
func opShortKeyString(_ *HState, a Event) Event {
	key := gBytes(a, "key")
	e := with(a, "plen", 0, "marker", -1, "scalar", []int{}, "reparse", false, "restr", []int{})
	p, msg := guard(func() {
		cc := bytes.Repeat([]byte{7}, 32)
		k := hdkeychain.NewExtendedKey(nets[0].HDPrivateKeyID[:], key, cc, []byte{1, 2, 3, 4}, 1, 5, true)
		s := k.String()
		pay := refB58Decode(s)
		e["plen"] = len(pay)
		if len(pay) == 82 {
			e["marker"], e["scalar"] = int(pay[45]), ints(pay[46:78])
		}
		if k2, err := hdkeychain.NewKeyFromString(s); err == nil {
			e["reparse"], e["restr"] = true, str(k2.String())
		}
		e["str"] = str(s)
	})
	return panicField(e, p, msg)
}

// observeNeuterIdentity is switched on by the C15 family (the property documents that neutering an already-public key
// returns that same key); C04 / C05 say nothing about object identity.
var observeNeuterIdentity bool

// wifNet: the configured net, or a copy of it with another private-key identifier byte ("netid" >= 0 in the call)
func wifNet(a Event) *chaincfg.Params {
	net := nets[gInt(a, "net")-1]
	if v, ok := a["idbyte"]; ok {
		cp := *net
		cp.PrivateKeyID = byte(gInt(Event{"x": v}, "x"))
		return &cp
	}
	return net
}

// opWifMutate: a WIF value is a plain struct with exported fields; after the flag is changed the string and the
// public key serialisation follow the new flag (nothing may be remembered from an earlier String / DecodeWIF).
func opWifMutate(_ *HState, a Event) Event {
	key := gBytes(a, "key")
	net := wifNet(a)
	comp := gBool(a, "compressed")
	e := with(a, "netid", int(net.PrivateKeyID), "str1", []int{}, "str2", []int{}, "pub2", []int{})
	p, msg := guard(func() {
		sk, _ := bchec.PrivKeyFromBytes(bchec.S256(), key)
		w, err := bchutil.NewWIF(sk, net, comp)
		if err != nil {
			e["panic"] = "NewWIF: " + err.Error()
			return
		}
		s1 := w.String()
		if gName(a, "via") == "decode-after-wipe" {
			// an earlier decoded value of the same string is wiped in place by its owner (as a wallet does with secrets):
			// every decoded value is its own
			if w0, err0 := bchutil.DecodeWIF(s1); err0 == nil {
				w0.PrivKey.D.SetInt64(0)
				w0.PrivKey.X.SetInt64(0)
				w0.PrivKey.Y.SetInt64(0)
			}
		}
		if via := gName(a, "via"); via == "decode" || via == "decode-after-wipe" {
			if w, err = bchutil.DecodeWIF(s1); err != nil {
				e["panic"] = "DecodeWIF of an encoded string: " + err.Error()
				return
			}
		}
		e["str1"] = str(s1)
		w.CompressPubKey = !comp
		e["str2"] = str(retainStr("WIF", "String", w.String()))
		e["pub2"] = ints(w.SerializePubKey())
	})
	b := ecBase(key)
	e["env"] = []interface{}{envSha256d(append([]byte{net.PrivateKeyID}, key...)), envSha256d(append(append([]byte{net.PrivateKeyID}, key...), 1)),
		envEcBase(key), envFact("ec-uncompress", b, ecUncompress(b))}
	return panicField(e, p, msg)
}

func opWif(_ *HState, a Event) Event {
	key := gBytes(a, "key")
	net := wifNet(a)
	comp := gBool(a, "compressed")
	e := with(a, "netid", int(net.PrivateKeyID), "str", []int{}, "pub", []int{}, "fornet", []bool{})
	p, msg := guard(func() {
		sk, _ := bchec.PrivKeyFromBytes(bchec.S256(), key)
		w, err := bchutil.NewWIF(sk, net, comp)
		if err != nil {
			e["err"] = err.Error()
			return
		}
		e["str"] = str(retainStr("WIF", "String", w.String()))
		e["pub"] = ints(w.SerializePubKey())
		var fn []bool
		for _, n := range nets {
			fn = append(fn, w.IsForNet(n))
		}
		e["fornet"] = fn
	})
	body := append([]byte{net.PrivateKeyID}, key...)
	if comp {
		body = append(body, 1)
	}
	b := ecBase(key)
	e["env"] = []interface{}{envSha256d(body), envEcBase(key), envFact("ec-uncompress", b, ecUncompress(b))}
	return panicField(e, p, msg)
}

func opWifDecode(_ *HState, a Event) Event {
	s := gStr(a, "s")
	e := with(a, "ok", false, "err", "", "netid", 0, "key", []int{}, "compressed", false, "str", []int{})
	p, msg := guard(func() {
		w, err := bchutil.DecodeWIF(s)
		if err != nil {
			e["err"] = err.Error()
			return
		}
		e["ok"] = true
		re := w.String()
		e["str"] = str(re)
		if d := refB58Decode(re); len(d) > 0 {
			e["netid"] = int(d[0])
		}
		kb := make([]byte, 32)
		new(big.Int).Set(w.PrivKey.D).FillBytes(kb)
		e["key"] = ints(kb)
		e["compressed"] = w.CompressPubKey
	})
	env := []interface{}{}
	if d := refB58Decode(s); len(d) >= 5 {
		env = append(env, envSha256d(d[:len(d)-4]))
	}
	e["env"] = env
	return panicField(e, p, msg)
}

// opGenerateSeed: the seed generator in front of NewMaster: length contract, and the draws are not constant.
func opGenerateSeed(_ *HState, a Event) Event {
	n := gInt(a, "n")
	e := with(a, "ok", false, "len", 0, "distinct", true, "allzero", false, "master", false, "err", "")
	p, msg := guard(func() {
		s1, err := hdkeychain.GenerateSeed(uint8(n))
		e["err"] = hdErr(err)
		if err != nil {
			return
		}
		s2, _ := hdkeychain.GenerateSeed(uint8(n))
		e["ok"], e["len"] = true, len(s1)
		e["distinct"] = !bytes.Equal(s1, s2)
		z := true
		for _, x := range s1 {
			if x != 0 {
				z = false
			}
		}
		e["allzero"] = z
		_, merr := hdkeychain.NewMaster(s1, nets[0])
		e["master"] = merr == nil || merr == hdkeychain.ErrUnusableSeed
	})
	return panicField(e, p, msg)
}
