package main

// C07: Base58 / Base58Check / bech32 / ConvertBits.

import (
	"bytes"
	"github.com/gcash/bchutil/base58"
	"github.com/gcash/bchutil/bech32"
	"strings"
)

func init() {
	families["C07"] = runC07
	ops["B58Encode"] = opB58Encode
	ops["B58Decode"] = opB58Decode
	ops["CheckEncode"] = opCheckEncode
	ops["CheckDecode"] = opCheckDecode
	ops["Bech32Encode"] = opBech32Encode
	ops["Bech32Decode"] = opBech32Decode
	ops["ConvertBits"] = opConvertBits
}

const b58alpha = "123456789ABCDEFGHJKLMNPQRSTUVWXYZabcdefghijkmnopqrstuvwxyz"
const b32alpha = "qpzry9x8gf2tvdw0s3jn54khce6mua7l"

func panicField(e Event, p bool, msg string) Event {
	if p {
		e["panic"] = msg
	}
	return e
}

func opB58Encode(_ *HState, a Event) Event {
	arg, backing := sliceWithCap(gBytes(a, "b"), gInt(a, "extra"))
	m0 := ints(backing)
	var ret string
	p, msg := guard(func() { ret = retainStr("Base58Encode", "ret", base58.Encode(arg)) })
	return panicField(with(a, "ret", str(ret), "mem0", m0, "mem1", ints(backing)), p, msg)
}

func opB58Decode(_ *HState, a Event) Event {
	var ret []byte
	s := gStr(a, "s")
	p, msg := guard(func() { ret = base58.Decode(s) })
	retain("Base58Decode", "ret", ret)
	return panicField(with(a, "ret", ints(ret)), p, msg)
}

func opCheckEncode(_ *HState, a Event) Event {
	b := gBytes(a, "b")
	ver := byte(gInt(a, "ver"))
	arg, backing := sliceWithCap(b, gInt(a, "extra"))
	m0 := ints(backing)
	var ret string
	p, msg := guard(func() { ret = retainStr("CheckEncode", "ret", base58.CheckEncode(arg, ver)) })
	return panicField(with(a, "ret", str(ret), "mem0", m0, "mem1", ints(backing),
		"env", []interface{}{envSha256d(append([]byte{ver}, b...))}), p, msg)
}

func b58errName(err error) string {
	switch err {
	case nil:
		return ""
	case base58.ErrChecksum:
		return "checksum"
	case base58.ErrInvalidFormat:
		return "format"
	}
	return "other:" + err.Error()
}

func opCheckDecode(_ *HState, a Event) Event {
	s := gStr(a, "s")
	var ret []byte
	var ver byte
	var err error
	p, msg := guard(func() { ret, ver, err = base58.CheckDecode(s) })
	retain("CheckDecode", "ret", ret)
	env := []interface{}{}
	// untrusted planner: the spec decides which bytes are hashed; we offer the
	// obvious candidate computed with an independent Base58 decoder.
	if d := refB58Decode(s); len(d) >= 5 {
		env = append(env, envSha256d(d[:len(d)-4]))
	}
	return panicField(with(a, "ok", err == nil && !p, "err", b58errName(err), "ver", int(ver), "ret", ints(ret), "env", env), p, msg)
}

// refB58Decode is an independent (schoolbook) Base58 decoder used only to plan
// which env facts to log.
func refB58Decode(s string) []byte {
	var num []byte // big endian base 256
	zeros := 0
	lead := true
	for i := 0; i < len(s); i++ {
		v := -1
		for k := 0; k < len(b58alpha); k++ {
			if b58alpha[k] == s[i] {
				v = k
			}
		}
		if v < 0 {
			return nil
		}
		if lead && v == 0 {
			zeros++
			continue
		}
		lead = false
		carry := v
		for j := len(num) - 1; j >= 0; j-- {
			carry += int(num[j]) * 58
			num[j] = byte(carry)
			carry >>= 8
		}
		for carry > 0 {
			num = append([]byte{byte(carry)}, num...)
			carry >>= 8
		}
	}
	return append(make([]byte, zeros), num...)
}

func opBech32Encode(_ *HState, a Event) Event {
	hrp := gStr(a, "hrp")
	arg, backing := sliceWithCap(gBytes(a, "data"), gInt(a, "extra"))
	m0 := ints(backing)
	var ret string
	var err error
	p, msg := guard(func() { ret, err = bech32.Encode(hrp, arg) })
	return panicField(with(a, "ok", err == nil && !p, "ret", str(ret), "mem0", m0, "mem1", ints(backing)), p, msg)
}

func opBech32Decode(_ *HState, a Event) Event {
	s := gStr(a, "s")
	var hrp string
	var data []byte
	var err error
	p, msg := guard(func() { hrp, data, err = bech32.Decode(s) })
	retain("Bech32Decode", "data", data)
	return panicField(with(a, "ok", err == nil && !p, "rhrp", str(hrp), "rdata", ints(data)), p, msg)
}

func opConvertBits(_ *HState, a Event) Event {
	arg, backing := sliceWithCap(gBytes(a, "data"), gInt(a, "extra"))
	m0 := ints(backing)
	var ret []byte
	var err error
	p, msg := guard(func() {
		ret, err = bech32.ConvertBits(arg, uint8(gInt(a, "from")), uint8(gInt(a, "to")), gBool(a, "pad"))
		retain("ConvertBits", "ret", ret)
	})
	return panicField(with(a, "ok", err == nil && !p, "ret", ints(ret), "mem0", m0, "mem1", ints(backing)), p, msg)
}

func randStr(c *Ctx, alpha string, n int) string {
	b := make([]byte, n)
	for i := range b {
		b[i] = alpha[c.Rng.Intn(len(alpha))]
	}
	return string(b)
}

func b58enc(c *Ctx, b []byte, extra int) Event {
	return c.Call(Event{"op": "B58Encode", "b": ints(b), "extra": extra})
}
func b58dec(c *Ctx, s string) Event { return c.Call(Event{"op": "B58Decode", "s": str(s)}) }
func chkenc(c *Ctx, b []byte, ver byte, extra int) Event {
	return c.Call(Event{"op": "CheckEncode", "b": ints(b), "ver": int(ver), "extra": extra})
}
func chkdec(c *Ctx, s string) Event { return c.Call(Event{"op": "CheckDecode", "s": str(s)}) }
func b32enc(c *Ctx, hrp string, data []byte, extra int) Event {
	return c.Call(Event{"op": "Bech32Encode", "hrp": str(hrp), "data": ints(data), "extra": extra})
}

// b32Lookalikes: the valid string s (lower case) with 1..4 letters replaced by code points that Unicode case mapping
// folds onto them (KELVIN SIGN -> k, dotted capital I -> i, long s -> S, dotless i -> I), in both case forms.
// Only ASCII is bech32: all of them must be rejected.
func b32Lookalikes(c *Ctx, s string) {
	subs := map[byte][]string{'k': {"\u212a"}, 'i': {"\u0130", "\u0131"}, 's': {"\u017f"}}
	for _, form := range []string{s, strings.ToUpper(s)} {
		var pos []int
		for i := 0; i < len(s); i++ {
			if _, ok := subs[s[i]]; ok {
				pos = append(pos, i)
			}
		}
		for w := 1; w <= 4 && w <= len(pos); w++ {
			pick := map[int]bool{}
			for _, j := range c.Rng.Perm(len(pos))[:w] {
				pick[pos[j]] = true
			}
			var sb strings.Builder
			for i := 0; i < len(form); i++ {
				if pick[i] {
					alt := subs[s[i]]
					sb.WriteString(alt[c.Rng.Intn(len(alt))])
				} else {
					sb.WriteByte(form[i])
				}
			}
			b32dec(c, sb.String())
		}
	}
}

// b32CaseFlips: the valid lower-case string s with the first occurrence of each distinct letter (one at a time, and
// two to four together) written in upper case: mixed-case strings are not bech32, whatever the letter.
func b32CaseFlips(c *Ctx, s string) {
	seen := map[byte]bool{}
	var pos []int
	for i := 0; i < len(s); i++ {
		if ch := s[i]; ch >= 'a' && ch <= 'z' && !seen[ch] {
			seen[ch] = true
			pos = append(pos, i)
		}
	}
	if len(pos) < 2 {
		return
	}
	flip := func(ps []int) string {
		b := []byte(s)
		for _, p := range ps {
			b[p] -= 32
		}
		return string(b)
	}
	for _, p := range pos {
		b32dec(c, flip([]int{p}))
	}
	for w := 2; w <= 4 && w < len(pos); w++ {
		pm := c.Rng.Perm(len(pos))[:w]
		var ps []int
		for _, j := range pm {
			ps = append(ps, pos[j])
		}
		b32dec(c, flip(ps))
	}
}

func b32dec(c *Ctx, s string) Event { return c.Call(Event{"op": "Bech32Decode", "s": str(s)}) }
func cvbits(c *Ctx, d []byte, from, to int, pad bool, extra int) Event {
	return c.Call(Event{"op": "ConvertBits", "data": ints(d), "from": from, "to": to, "pad": pad, "extra": extra})
}

func runC07(c *Ctx) {
	c.Conc = true // stateless calls are also replayed from several goroutines at once
	r := c.Rng
	// --- Base58: all byte strings up to length 2 (the property's exhaustive scope)
	b58enc(c, nil, 0)
	for a := 0; a < 256; a++ {
		b58enc(c, []byte{byte(a)}, a%3)
	}
	step := 1
	if !c.Thorough() {
		step = 5 // quick: every 5th 2-byte string, offset by seed
	}
	for v := int(c.Seed % int64(step)); v < 65536; v += step {
		b58enc(c, []byte{byte(v >> 8), byte(v)}, v%2)
	}
	// random byte strings up to 512 bytes, with leading-zero runs
	for k := 0; k < c.Pick(120, 1500); k++ {
		n := r.Intn(513)
		if k%3 == 0 {
			n = r.Intn(40)
		}
		b := randBytes(r, n)
		for z := 0; z < r.Intn(4) && z < n; z++ {
			b[z] = 0
		}
		e := b58enc(c, b, r.Intn(8))
		b58dec(c, gStr(e, "ret"))
		chkenc(c, b[:min(n, 80)], byte(r.Intn(256)), r.Intn(8))
	}
	// --- Base58 decode: all strings up to length 3 over alphabet + foreign chars
	ext := b58alpha + "0OIl \x80"
	for _, ch := range []byte(ext) {
		b58dec(c, string([]byte{ch}))
	}
	b58dec(c, "")
	for i := 0; i < len(ext); i++ {
		for j := 0; j < len(ext); j++ {
			b58dec(c, string([]byte{ext[i], ext[j]}))
		}
	}
	if c.Thorough() {
		for i := 0; i < len(ext); i++ {
			for j := 0; j < len(ext); j++ {
				for k := 0; k < len(ext); k++ {
					b58dec(c, string([]byte{ext[i], ext[j], ext[k]}))
				}
			}
		}
	} else {
		for k := 0; k < 6000; k++ {
			b58dec(c, randStr(c, ext, 3))
		}
	}
	for k := 0; k < c.Pick(150, 1500); k++ {
		s := randStr(c, b58alpha, 1+r.Intn(120))
		if k%4 == 0 {
			s = "111"[:r.Intn(4)] + s
		}
		if k%7 == 0 { // one foreign character
			p := r.Intn(len(s))
			s = s[:p] + string("0OIl _\xff"[r.Intn(7)]) + s[p+1:]
		}
		b58dec(c, s)
	}
	// every digit count 1..230 with the largest and the smallest number of that many digits (a decoder that sizes its
	// buffer from the digit count is wrong only where the estimate is a byte short), and the same behind leading '1's
	for L := 1; L <= c.Pick(230, 400); L++ {
		b58dec(c, strings.Repeat("z", L))
		b58dec(c, "2"+strings.Repeat("1", L-1))
		if L%3 == 0 {
			b58dec(c, "11"+strings.Repeat("z", L))
			b58dec(c, "z"+randStr(c, b58alpha, L-1))
		}
	}
	// every byte count 1..170 with the largest / smallest value (encoder side of the same estimate)
	for n := 1; n <= 170; n++ {
		b58enc(c, bytes.Repeat([]byte{0xff}, n), 0)
		b58enc(c, append([]byte{1}, make([]byte, n-1)...), 0)
	}
	// valid multi-byte UTF-8 characters (their code point modulo 256 may be an alphabet character)
	for k := 0; k < c.Pick(120, 1200); k++ {
		s := randStr(c, b58alpha, 1+r.Intn(50))
		p := r.Intn(len(s))
		mb := []string{"\xc5\x81", "\xc3\xa9", "\xce\x91", "\xe2\x82\xac", "\xc4\xb1", "\xf0\x9f\x98\x80"}[k%6]
		b58dec(c, s[:p]+mb+s[p:])
		b58dec(c, mb+s)
		chkdec(c, s[:p]+mb+s[p:])
	}
	// Base58Check strings that decode to fewer than five bytes, the last four being the checksum of the rest
	for n := 0; n <= 3; n++ {
		body := randBytes(r, n)
		full := append(append([]byte{}, body...), sha256d(body)[:4]...)
		chkdec(c, base58Ref(full))
		b58dec(c, base58Ref(full))
	}
	chkdec(c, base58Ref(sha256d(nil)[:4]))
	// --- Base58Check: every version, payload lengths 0..40, decode of valid /
	// corrupted / short strings
	for k := 0; k < c.Pick(400, 4000); k++ {
		n := r.Intn(41)
		b := randBytes(r, n)
		if k%5 == 0 && n > 0 {
			b[0] = 0
		}
		ver := byte(k % 256)
		e := chkenc(c, b, ver, r.Intn(6))
		s := gStr(e, "ret")
		chkdec(c, s)
		if k%40 == 0 {
			for _, w := range wsWraps(s) {
				chkdec(c, w)
				b58dec(c, w)
			}
		}
		if len(s) > 0 { // substitute one character
			p := r.Intn(len(s))
			chkdec(c, s[:p]+string(b58alpha[r.Intn(58)])+s[p+1:])
		}
		chkdec(c, s[:r.Intn(len(s)+1)])
		chkdec(c, s+string(b58alpha[r.Intn(58)]))
		if k%9 == 0 {
			chkdec(c, "1"+s)
		}
	}
	// forgeries confined to the four checksum bytes (bits, swaps, OR / AND / XOR with a neighbour, moved bits, ...)
	for k := 0; k < c.Pick(3, 12); k++ {
		body := append([]byte{byte(k * 37)}, randBytes(r, []int{20, 0, 33, 1, 32, 74}[k%6])...)
		full := append(append([]byte{}, body...), sha256d(body)[:4]...)
		for _, q := range checksumForgeries(full) {
			chkdec(c, base58Ref(q))
		}
	}
	// decoded lengths 0..8 with a valid checksum over the prefix (format boundary)
	for n := 0; n <= 8; n++ {
		for k := 0; k < 6; k++ {
			b := randBytes(r, n)
			if k%2 == 0 && n > 0 {
				b[0] = 0
			}
			if n >= 4 {
				copy(b[n-4:], sha256d(b[:n-4])[:4])
			}
			chkdec(c, base58Ref(b))
		}
	}
	// --- bech32
	hrps := []string{"a", "bc", "tb", "bitcoincash", "x1y", "split1", "?", "~", "!\"#$%&'()*+,-./", randStr(c, "abcdefghijklmnopqrstuvwxyz023456789", 83)}
	for k := 0; k < c.Pick(500, 6000); k++ {
		hrp := hrps[r.Intn(len(hrps))]
		if k%6 == 0 {
			hrp = randStr(c, "abcdefghijklmnopqrstuvwxyz0123456789!#$%&()*+,-./:;<=>?@[]^_`{|}~", 1+r.Intn(83))
		}
		maxd := 90 - len(hrp) - 7
		if maxd < 0 {
			maxd = 0
		}
		n := r.Intn(maxd + 1)
		switch k % 10 {
		case 0:
			n = 0
		case 1:
			n = maxd
		}
		data := make([]byte, n)
		for i := range data {
			data[i] = byte(r.Intn(32))
		}
		e := b32enc(c, hrp, data, []int{0, 1, 5, 6, 7, 16}[r.Intn(6)])
		s := gStr(e, "ret")
		b32dec(c, s)
		up := []byte(s)
		for i := range up {
			if up[i] >= 'a' && up[i] <= 'z' {
				up[i] -= 32
			}
		}
		if k%6 == 0 {
			b32Lookalikes(c, s)
		}
		if k%12 == 0 {
			b32CaseFlips(c, s)
		}
		if k%20 == 3 { // longer than 90 characters with a valid checksum (the data part grows)
			for _, extra := range []int{1, 2, 17, 40, 120} {
				long := make([]byte, maxd+extra)
				for i := range long {
					long[i] = byte(r.Intn(32))
				}
				b32dec(c, refBech32Const(hrp, long, 1))
			}
		}
		if k%9 == 4 { // a foreign character wherever the symbol of value 0 ('q') or 31 ('l') stands
			sep := strings.LastIndex(s, "1")
			for i := sep + 1; i < len(s); i++ {
				if s[i] == 'q' || s[i] == 'l' {
					for _, fc := range []byte{'b', 'i', 'o', '!', '{', '~', '_'} {
						b32dec(c, s[:i]+string(fc)+s[i+1:])
					}
				}
			}
			for _, fc := range []byte{'{', '|', '}', '~', '`', '@', '[', '^'} { // characters beyond 'z' / around the letters
				if len(s)-sep-1 <= 0 { // the encoder under test returned nothing usable (judged at the Encode event)
					break
				}
				p := sep + 1 + r.Intn(len(s)-sep-1)
				b32dec(c, s[:p]+string(fc)+s[p+1:])
			}
		}
		if k%25 == 0 {
			for _, w := range wsWraps(s) {
				b32dec(c, w)
			}
			// a checksum that is valid for the EMPTY human-readable part (the separator is the first character)
			b32dec(c, refBech32Const("", data, 1))
			b32dec(c, strings.ToUpper(refBech32Const("", data, 1)))
		}
		switch k % 8 {
		case 0:
			b32dec(c, string(up))
		case 1: // mixed case
			if len(s) > 0 {
				m := []byte(s)
				p := r.Intn(len(m))
				m[p] = up[p]
				b32dec(c, string(m))
			}
		case 2: // substitution in data part
			m := []byte(s)
			p := len(hrp) + 1 + r.Intn(len(m)-len(hrp)-1)
			m[p] = b32alpha[r.Intn(32)]
			b32dec(c, string(m))
		case 3: // foreign char / out of range char
			m := []byte(s)
			p := r.Intn(len(m))
			m[p] = []byte{'b', 'i', 'o', '1', ' ', 0x7f, 0x80, 'B'}[r.Intn(8)]
			b32dec(c, string(m))
		case 4: // truncate (moves the checksum / makes it too short)
			b32dec(c, s[:r.Intn(len(s)+1)])
		case 5: // over length
			b32dec(c, s+randStr(c, b32alpha, 1+r.Intn(4)))
		case 6: // no hrp / separator games
			b32dec(c, s[len(hrp):])
			b32dec(c, "1"+s)
		case 7:
			b32dec(c, randStr(c, b32alpha+"1", 8+r.Intn(83)))
		}
	}
	// strings carrying another final constant (0, bech32m's 0x2bc830a3, ...) are not BIP173 strings
	for k := 0; k < c.Pick(60, 600); k++ {
		hrp := hrps[r.Intn(3)]
		data := make([]byte, r.Intn(40))
		for i := range data {
			data[i] = byte(r.Intn(32))
		}
		for _, x := range []int{0, 1, 2, 0x2bc830a3, 0x3fffffff} {
			b32dec(c, refBech32Const(hrp, data, x))
		}
	}
	// data values >= 32 are refused by Encode
	b32enc(c, "bc", []byte{0, 31, 32}, 0)
	b32enc(c, "bc", []byte{255}, 3)
	// 89/90/91-character valid-checksum strings
	for _, n := range []int{80, 81, 82} {
		data := make([]byte, n)
		for i := range data {
			data[i] = byte(r.Intn(32))
		}
		e := b32enc(c, "bc", data, 0)
		b32dec(c, gStr(e, "ret"))
	}
	// --- ConvertBits: all (from,to) x pad x short inputs; 8<->5 deeper
	for from := 0; from <= 9; from++ {
		for to := 0; to <= 9; to++ {
			for _, pad := range []bool{false, true} {
				cvbits(c, nil, from, to, pad, 0)
				for k := 0; k < c.Pick(6, 40); k++ {
					n := 1 + r.Intn(4)
					d := make([]byte, n)
					for i := range d {
						if from >= 1 && from <= 8 && k%3 != 0 {
							d[i] = byte(r.Intn(1 << uint(from)))
						} else {
							d[i] = byte(r.Intn(256))
						}
					}
					if k%4 == 1 { // make the tail zero so the unpadded form can succeed
						d[n-1] = 0
					}
					cvbits(c, d, from, to, pad, r.Intn(4))
				}
			}
		}
	}
	for k := 0; k < c.Pick(300, 4000); k++ {
		n := r.Intn(70)
		d := randBytes(r, n)
		e := cvbits(c, d, 8, 5, true, r.Intn(4))
		five := gBytes(e, "ret")
		cvbits(c, five, 5, 8, false, r.Intn(4))
		cvbits(c, d, 8, 5, false, 0)
		if len(five) > 0 {
			five2 := append([]byte{}, five...)
			five2[len(five2)-1] ^= byte(1 << uint(r.Intn(5)))
			cvbits(c, five2, 5, 8, false, 0)
			cvbits(c, append(five2, byte(r.Intn(32))), 5, 8, false, 0)
		}
	}
	// all byte strings of length <= 2, 8 -> 5 -> 8
	for v := int(c.Seed % int64(step)); v < 65536; v += step * 4 {
		d := []byte{byte(v >> 8), byte(v)}
		e := cvbits(c, d, 8, 5, true, 1)
		cvbits(c, gBytes(e, "ret"), 5, 8, false, 1)
	}
}

// base58Ref: schoolbook encoder used only to build *inputs* (strings that decode
// to chosen bytes); never an oracle.
func base58Ref(b []byte) string {
	zeros := 0
	for zeros < len(b) && b[zeros] == 0 {
		zeros++
	}
	num := append([]byte{}, b[zeros:]...)
	var out []byte
	for len(num) > 0 {
		rem := 0
		var q []byte
		for _, d := range num {
			cur := rem*256 + int(d)
			qd := cur / 58
			rem = cur % 58
			if len(q) > 0 || qd > 0 {
				q = append(q, byte(qd))
			}
		}
		out = append([]byte{b58alpha[rem]}, out...)
		num = q
	}
	for i := 0; i < zeros; i++ {
		out = append([]byte{'1'}, out...)
	}
	return string(out)
}
