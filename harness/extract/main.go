// Command extract derives a lock-discipline model of bloom.Filter from the CURRENT source
// (go/ast, standard library only).  For every method of *Filter it enumerates the control-flow
// paths (branches and loops as alternatives, defers executed at exits, unexported helpers
// inlined) as sequences of atoms:
//
//	LOCK UNLOCK RLOCK RUNLOCK   operations on the receiver's mutex field
//	RDP WRP                     read / write of the shared message pointer field
//	RDM WRM                     read / write of the message contents (through the pointer)
//	CALL:<Name>                 call of another method of the receiver that is not inlined
//
// and records which methods' doc comments claim "safe for concurrent access".
// The TLA+ module BloomConc interprets these paths for k threads.
package main

import (
	"encoding/json"
	"fmt"
	"go/ast"
	"go/parser"
	"go/token"
	"os"
	"sort"
	"strings"
)

type method struct {
	Name     string     `json:"name"`
	Exported bool       `json:"exported"`
	Safe     bool       `json:"safe"`
	Paths    [][]string `json:"paths"`
}

var (
	recvType = "Filter"
	funcs    = map[string]*ast.FuncDecl{}
	mutexFld = ""
	ptrFld   = ""
)

func main() {
	if len(os.Args) < 3 {
		fmt.Fprintln(os.Stderr, "usage: extract <filter.go> <out.json>")
		os.Exit(2)
	}
	fset := token.NewFileSet()
	f, err := parser.ParseFile(fset, os.Args[1], nil, parser.ParseComments)
	if err != nil {
		fmt.Fprintln(os.Stderr, err)
		os.Exit(2)
	}
	// struct fields: the mutex and the shared pointer
	for _, d := range f.Decls {
		gd, ok := d.(*ast.GenDecl)
		if !ok {
			continue
		}
		for _, s := range gd.Specs {
			ts, ok := s.(*ast.TypeSpec)
			if !ok || ts.Name.Name != recvType {
				continue
			}
			st, ok := ts.Type.(*ast.StructType)
			if !ok {
				continue
			}
			for _, fl := range st.Fields.List {
				t := exprString(fl.Type)
				for _, n := range fl.Names {
					if strings.Contains(t, "Mutex") {
						mutexFld = n.Name
					} else if strings.HasPrefix(t, "*") {
						ptrFld = n.Name
					}
				}
			}
		}
	}
	if mutexFld == "" || ptrFld == "" {
		fmt.Fprintln(os.Stderr, "extract: Filter no longer has a mutex field and a pointer field; the lock-discipline model does not apply")
		os.Exit(3)
	}
	for _, d := range f.Decls {
		fd, ok := d.(*ast.FuncDecl)
		if !ok || fd.Recv == nil || len(fd.Recv.List) == 0 {
			continue
		}
		if strings.TrimPrefix(exprString(fd.Recv.List[0].Type), "*") != recvType {
			continue
		}
		funcs[fd.Name.Name] = fd
	}
	var out []method
	var names []string
	for n := range funcs {
		names = append(names, n)
	}
	sort.Strings(names)
	for _, n := range names {
		fd := funcs[n]
		m := method{Name: n, Exported: ast.IsExported(n)}
		if fd.Doc != nil && strings.Contains(strings.ToLower(strings.Join(strings.Fields(fd.Doc.Text()), " ")), "safe for concurrent access") {
			m.Safe = true
		}
		m.Paths = [][]string{}
		if m.Exported {
			m.Paths = dedup(pathsOf(fd, 0))
		}
		out = append(out, m)
	}
	b, _ := json.MarshalIndent(map[string]interface{}{"mutex": mutexFld, "pointer": ptrFld, "methods": out}, "", " ")
	if err := os.WriteFile(os.Args[2], b, 0o644); err != nil {
		fmt.Fprintln(os.Stderr, err)
		os.Exit(2)
	}
}

func exprString(e ast.Expr) string {
	switch x := e.(type) {
	case *ast.Ident:
		return x.Name
	case *ast.StarExpr:
		return "*" + exprString(x.X)
	case *ast.SelectorExpr:
		return exprString(x.X) + "." + x.Sel.Name
	}
	return "?"
}

func recvName(fd *ast.FuncDecl) string {
	if len(fd.Recv.List[0].Names) == 0 {
		return "_"
	}
	return fd.Recv.List[0].Names[0].Name
}

type walker struct {
	recv  string
	depth int
}

// a partial path: atoms so far, deferred atoms (LIFO), and whether it returned
type ppath struct {
	atoms []string
	defer_ []string
	done  bool
}

func clone(p ppath) ppath {
	return ppath{append([]string{}, p.atoms...), append([]string{}, p.defer_...), p.done}
}

func pathsOf(fd *ast.FuncDecl, depth int) [][]string {
	w := &walker{recv: recvName(fd), depth: depth}
	ps := w.block(fd.Body.List, []ppath{{}})
	var out [][]string
	for _, p := range ps {
		a := append([]string{}, p.atoms...)
		for i := len(p.defer_) - 1; i >= 0; i-- {
			a = append(a, p.defer_[i])
		}
		out = append(out, a)
	}
	return out
}

// squeeze drops consecutive repetitions of an atom (they do not change the lock discipline)
func squeeze(p []string) []string {
	var out []string
	for _, a := range p {
		if len(out) == 0 || out[len(out)-1] != a {
			out = append(out, a)
		}
	}
	// RDP RDM RDP RDM ... -> one RDP RDM
	var o2 []string
	for i := 0; i < len(out); i++ {
		if len(o2) >= 2 && i+1 < len(out) && o2[len(o2)-2] == out[i] && o2[len(o2)-1] == out[i+1] {
			i++
			continue
		}
		o2 = append(o2, out[i])
	}
	return o2
}

func dedup(ps [][]string) [][]string {
	seen := map[string]bool{}
	var out [][]string
	for _, p := range ps {
		p = squeeze(p)
		k := strings.Join(p, " ")
		if !seen[k] {
			seen[k] = true
			if p == nil {
				p = []string{}
			}
			out = append(out, p)
		}
	}
	if len(out) > 400 {
		out = out[:400]
	}
	return out
}

func (w *walker) block(stmts []ast.Stmt, in []ppath) []ppath {
	cur := in
	for _, s := range stmts {
		cur = w.stmt(s, cur)
	}
	return cur
}

// seq appends alternatives alts (each a list of atoms) to every live path
func appendAtoms(in []ppath, atoms []string) []ppath {
	out := make([]ppath, 0, len(in))
	for _, p := range in {
		if p.done {
			out = append(out, p)
			continue
		}
		q := clone(p)
		q.atoms = append(q.atoms, atoms...)
		out = append(out, q)
	}
	return out
}

func (w *walker) stmt(s ast.Stmt, in []ppath) []ppath {
	switch x := s.(type) {
	case *ast.ExprStmt:
		return w.exprPaths(x.X, in, false)
	case *ast.AssignStmt:
		cur := in
		for _, r := range x.Rhs {
			cur = w.exprPaths(r, cur, false)
		}
		for _, l := range x.Lhs {
			cur = w.exprPaths(l, cur, true)
		}
		return cur
	case *ast.IncDecStmt:
		return w.exprPaths(x.X, in, true)
	case *ast.DeclStmt:
		cur := in
		if gd, ok := x.Decl.(*ast.GenDecl); ok {
			for _, sp := range gd.Specs {
				if vs, ok := sp.(*ast.ValueSpec); ok {
					for _, v := range vs.Values {
						cur = w.exprPaths(v, cur, false)
					}
				}
			}
		}
		return cur
	case *ast.ReturnStmt:
		cur := in
		for _, r := range x.Results {
			cur = w.exprPaths(r, cur, false)
		}
		out := make([]ppath, 0, len(cur))
		for _, p := range cur {
			q := clone(p)
			q.done = true
			out = append(out, q)
		}
		return out
	case *ast.DeferStmt:
		// only mutex unlocks are deferred in practice; other deferred calls are walked as code at exit
		var atoms []string
		tmp := w.exprPaths(x.Call, []ppath{{}}, false)
		if len(tmp) > 0 {
			atoms = tmp[0].atoms
		}
		out := make([]ppath, 0, len(in))
		for _, p := range in {
			if p.done {
				out = append(out, p)
				continue
			}
			q := clone(p)
			for i := len(atoms) - 1; i >= 0; i-- { // keep the call's own order when replayed LIFO
				q.defer_ = append(q.defer_, atoms[i])
			}
			out = append(out, q)
		}
		return out
	case *ast.BlockStmt:
		return w.block(x.List, in)
	case *ast.IfStmt:
		cur := in
		if x.Init != nil {
			cur = w.stmt(x.Init, cur)
		}
		cur = w.exprPaths(x.Cond, cur, false)
		thenP := w.block(x.Body.List, cur)
		var elseP []ppath
		if x.Else != nil {
			elseP = w.stmt(x.Else, cur)
		} else {
			elseP = cur
		}
		return merge(thenP, elseP)
	case *ast.ForStmt:
		cur := in
		if x.Init != nil {
			cur = w.stmt(x.Init, cur)
		}
		if x.Cond != nil {
			cur = w.exprPaths(x.Cond, cur, false)
		}
		body := w.block(x.Body.List, cur)
		if x.Post != nil {
			body = w.stmt(x.Post, body)
		}
		return merge(cur, undone(body)) // zero or one iteration
	case *ast.RangeStmt:
		cur := w.exprPaths(x.X, in, false)
		body := w.block(x.Body.List, cur)
		return merge(cur, undone(body))
	case *ast.SwitchStmt:
		cur := in
		if x.Init != nil {
			cur = w.stmt(x.Init, cur)
		}
		if x.Tag != nil {
			cur = w.exprPaths(x.Tag, cur, false)
		}
		out := append([]ppath{}, cur...) // no case taken
		for _, cc := range x.Body.List {
			c := cc.(*ast.CaseClause)
			p := cur
			for _, e := range c.List {
				p = w.exprPaths(e, p, false)
			}
			out = merge(out, w.block(c.Body, p))
		}
		return out
	case *ast.BranchStmt, *ast.EmptyStmt:
		return in
	case *ast.GoStmt:
		return w.exprPaths(x.Call, in, false)
	}
	return in
}

// undone keeps returned paths as returned but lets the others continue (loop exit)
func undone(ps []ppath) []ppath { return ps }

func merge(a, b []ppath) []ppath {
	out := append([]ppath{}, a...)
	out = append(out, b...)
	seen := map[string]bool{}
	var res []ppath
	for _, p := range out {
		k := fmt.Sprint(p.atoms, "|", p.defer_, "|", p.done)
		if !seen[k] {
			seen[k] = true
			res = append(res, p)
		}
	}
	if len(res) > 400 {
		res = res[:400]
	}
	return res
}

// exprPaths walks an expression in evaluation order and appends its atoms; helper calls fork paths.
func (w *walker) exprPaths(e ast.Expr, in []ppath, write bool) []ppath {
	if e == nil {
		return in
	}
	switch x := e.(type) {
	case *ast.CallExpr:
		// receiver mutex operations and receiver method calls
		if sel, ok := x.Fun.(*ast.SelectorExpr); ok {
			if inner, ok := sel.X.(*ast.SelectorExpr); ok {
				if id, ok := inner.X.(*ast.Ident); ok && id.Name == w.recv && inner.Sel.Name == mutexFld {
					atom := map[string]string{"Lock": "LOCK", "Unlock": "UNLOCK", "RLock": "RLOCK", "RUnlock": "RUNLOCK"}[sel.Sel.Name]
					if atom != "" {
						return appendAtoms(in, []string{atom})
					}
				}
			}
			if id, ok := sel.X.(*ast.Ident); ok && id.Name == w.recv {
				cur := in
				for _, a := range x.Args {
					cur = w.exprPaths(a, cur, false)
				}
				callee, ok := funcs[sel.Sel.Name]
				if ok && !ast.IsExported(sel.Sel.Name) && w.depth < 6 {
					sub := pathsOf(callee, w.depth+1)
					var out []ppath
					for _, sp := range sub {
						out = append(out, appendAtoms(cur, sp)...)
					}
					return merge(out, nil)
				}
				return appendAtoms(cur, []string{"CALL:" + sel.Sel.Name})
			}
		}
		cur := w.exprPaths(x.Fun, in, false)
		for _, a := range x.Args {
			cur = w.exprPaths(a, cur, false)
		}
		return cur
	case *ast.SelectorExpr:
		// bf.ptr            -> RDP / WRP
		// bf.ptr.Field      -> RDP then RDM / WRM
		if id, ok := x.X.(*ast.Ident); ok && id.Name == w.recv && x.Sel.Name == ptrFld {
			if write {
				return appendAtoms(in, []string{"WRP"})
			}
			return appendAtoms(in, []string{"RDP"})
		}
		if inner, ok := x.X.(*ast.SelectorExpr); ok {
			if id, ok := inner.X.(*ast.Ident); ok && id.Name == w.recv && inner.Sel.Name == ptrFld {
				if write {
					return appendAtoms(in, []string{"RDP", "WRM"})
				}
				return appendAtoms(in, []string{"RDP", "RDM"})
			}
		}
		return w.exprPaths(x.X, in, false)
	case *ast.IndexExpr:
		cur := w.exprPaths(x.Index, in, false)
		return w.exprPaths(x.X, cur, write)
	case *ast.SliceExpr:
		cur := w.exprPaths(x.X, in, write)
		cur = w.exprPaths(x.Low, cur, false)
		cur = w.exprPaths(x.High, cur, false)
		return cur
	case *ast.BinaryExpr:
		return w.exprPaths(x.Y, w.exprPaths(x.X, in, false), false)
	case *ast.UnaryExpr:
		return w.exprPaths(x.X, in, false)
	case *ast.ParenExpr:
		return w.exprPaths(x.X, in, write)
	case *ast.StarExpr:
		return w.exprPaths(x.X, in, write)
	case *ast.CompositeLit:
		cur := in
		for _, el := range x.Elts {
			cur = w.exprPaths(el, cur, false)
		}
		return cur
	case *ast.KeyValueExpr:
		return w.exprPaths(x.Value, in, false)
	case *ast.TypeAssertExpr:
		return w.exprPaths(x.X, in, false)
	}
	return in
}
