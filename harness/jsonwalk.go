package main

// Growth X05: the JSON tree walks of jsonpb (convertHex / convertBase64) and the public
// Marshaler / Unmarshal built on them.  A JSON value travels as a tagged array
//   ["s",[bytes]] ["n",k] ["b",0|1] ["z"] ["a",[v...]] ["o",[[[key bytes],v]...]]  (keys sorted)

import (
	"bytes"
	"encoding/json"
	"sort"
	"strings"

	objson "github.com/OpenBazaar/jsonpb"
	"github.com/gcash/bchutil/jsonpb"
	pb "github.com/gcash/bchutil/jsonpb/testpb"
	"github.com/golang/protobuf/proto"
)

func init() {
	ops["JsonWalk"] = opJsonWalk
	ops["JsonUnmarshal"] = opJsonUnmarshal
	ops["JsonMarshal"] = opJsonMarshal
	families["X05"] = runX05
}

// treeToGo: tagged array -> the value encoding/json would have produced.
func treeToGo(t interface{}) interface{} {
	a, ok := t.([]interface{})
	if !ok || len(a) == 0 {
		fatal("json tree: %T %v", t, t)
	}
	switch a[0].(string) {
	case "s":
		return string(anyBytes(a[1]))
	case "n":
		return toF(a[1])
	case "b":
		return toF(a[1]) != 0
	case "z":
		return nil
	case "a":
		el, _ := a[1].([]interface{})
		out := make([]interface{}, len(el))
		for i, x := range el {
			out[i] = treeToGo(x)
		}
		return out
	case "o":
		kv, _ := a[1].([]interface{})
		out := map[string]interface{}{}
		for _, p := range kv {
			pp := p.([]interface{})
			out[string(anyBytes(pp[0]))] = treeToGo(pp[1])
		}
		return out
	}
	fatal("json tree tag %v", a[0])
	return nil
}

func toF(v interface{}) float64 {
	switch x := v.(type) {
	case float64:
		return x
	case int:
		return float64(x)
	}
	fatal("number %T", v)
	return 0
}

func anyBytes(v interface{}) []byte {
	switch x := v.(type) {
	case []interface{}:
		b := make([]byte, len(x))
		for i := range x {
			b[i] = byte(toF(x[i]))
		}
		return b
	case []int:
		b := make([]byte, len(x))
		for i := range x {
			b[i] = byte(x[i])
		}
		return b
	case nil:
		return nil
	}
	fatal("bytes %T", v)
	return nil
}

// goToTree: decoded JSON value -> tagged array.
func goToTree(v interface{}) interface{} {
	switch x := v.(type) {
	case string:
		return []interface{}{"s", str(x)}
	case float64:
		return []interface{}{"n", int(x)}
	case bool:
		if x {
			return []interface{}{"b", 1}
		}
		return []interface{}{"b", 0}
	case nil:
		return []interface{}{"z"}
	case []interface{}:
		out := make([]interface{}, len(x))
		for i := range x {
			out[i] = goToTree(x[i])
		}
		return []interface{}{"a", out}
	case map[string]interface{}:
		keys := make([]string, 0, len(x))
		for k := range x {
			keys = append(keys, k)
		}
		sort.Strings(keys)
		out := make([]interface{}, len(keys))
		for i, k := range keys {
			out[i] = []interface{}{str(k), goToTree(x[k])}
		}
		return []interface{}{"o", out}
	}
	fatal("go value %T", v)
	return nil
}

func opJsonWalk(_ *HState, a Event) Event {
	v := treeToGo(a["in"])
	e := with(a, "in", goToTree(treeToGo(a["in"])), "out", []interface{}{"z"})
	p, msg := guard(func() {
		if gName(a, "dir") == "hex" {
			jsonpb.VerifConvertHex(v)
		} else {
			jsonpb.VerifConvertBase64(v)
		}
		e["out"] = goToTree(v)
	})
	return panicField(e, p, msg)
}

// digest of an unmarshalled message: its wire bytes (deterministic), or the fact that the text was refused
func msgDigest(m proto.Message, err error) map[string]interface{} {
	if err != nil {
		return map[string]interface{}{"ok": false, "bytes": []int{}}
	}
	b, _ := (&proto.Buffer{}).Bytes(), error(nil)
	buf := proto.NewBuffer(nil)
	buf.SetDeterministic(true)
	if err := buf.Marshal(m); err != nil {
		return map[string]interface{}{"ok": false, "bytes": []int{1}}
	}
	b = buf.Bytes()
	return map[string]interface{}{"ok": true, "bytes": ints(b)}
}

// opJsonUnmarshal: the public Unmarshal on the text form of a tree.  The candidate facts are what the underlying
// protobuf JSON reader (outside the repository) makes of each candidate tree; the specification picks the fact of the
// tree IT computes.
func opJsonUnmarshal(_ *HState, a Event) Event {
	in := treeToGo(a["in"])
	text, err := json.Marshal(in)
	if err != nil {
		fatal("marshal: %v", err)
	}
	e := with(a, "in", goToTree(treeToGo(a["in"])))
	var m pb.GetBlockResponse
	var uerr error
	p, msg := guard(func() { uerr = jsonpb.Unmarshal(bytes.NewReader(text), &m) })
	e["ret"] = msgDigest(&m, uerr)
	// planner (untrusted): candidate rewritten trees = the hook's output and the tree as it stands
	hooked := treeToGo(a["in"])
	guard(func() { jsonpb.VerifConvertHex(hooked) })
	var cands []interface{}
	for _, c := range []interface{}{hooked, in} {
		ct, _ := json.Marshal(c)
		var m2 pb.GetBlockResponse
		err2 := (&objson.Unmarshaler{AllowUnknownFields: true}).Unmarshal(bytes.NewReader(ct), &m2)
		cands = append(cands, map[string]interface{}{"i": goToTree(c), "o": msgDigest(&m2, err2)})
	}
	e["cands"] = cands
	return panicField(e, p, msg)
}

// opJsonMarshal: the public Marshaler on a message; "inner" is what the underlying protobuf JSON writer produced.
func opJsonMarshal(_ *HState, a Event) Event {
	m := buildBlockMsg(a)
	opt := gInt(a, "opt")
	mine := jsonpb.Marshaler{EmitDefaults: opt&1 != 0, OrigName: opt&2 != 0, EnumsAsInts: opt&4 != 0}
	theirs := objson.Marshaler{EmitDefaults: opt&1 != 0, OrigName: opt&2 != 0, EnumsAsInts: opt&4 != 0}
	if opt&8 != 0 {
		mine.Indent, theirs.Indent = "  ", "  "
	}
	e := with(a, "inner", []interface{}{"z"}, "out", []interface{}{"z"}, "same", true)
	is, err := theirs.MarshalToString(m)
	if err != nil {
		fatal("inner marshal: %v", err)
	}
	var iv interface{}
	if err := json.Unmarshal([]byte(is), &iv); err != nil {
		fatal("inner json: %v", err)
	}
	e["inner"] = goToTree(iv)
	p, msg := guard(func() {
		s, err := mine.MarshalToString(m)
		var w bytes.Buffer
		err2 := mine.Marshal(&w, m)
		if err != nil || err2 != nil {
			e["out"] = []interface{}{"s", str("error")}
			return
		}
		e["same"] = s == w.String()
		var ov interface{}
		if err := json.Unmarshal([]byte(s), &ov); err != nil {
			e["out"] = []interface{}{"s", str("not json")}
			return
		}
		e["out"] = goToTree(ov)
	})
	return panicField(e, p, msg)
}

func buildBlockMsg(a Event) proto.Message {
	info := &pb.BlockInfo{Hash: gBytes(a, "hash"), PreviousBlock: gBytes(a, "prev"), MerkleRoot: gBytes(a, "root"),
		Height: int32(gInt(a, "height")), NextBlockHash: gBytes(a, "next")}
	blk := &pb.Block{Info: info}
	for _, h := range gList(a, "txs") {
		blk.TransactionData = append(blk.TransactionData, &pb.Block_TransactionData{
			TxidsOrTxs: &pb.Block_TransactionData_TransactionHash{TransactionHash: anyBytes(h)}})
	}
	if gBool(a, "noinfo") {
		blk.Info = nil
	}
	return &pb.GetBlockResponse{Block: blk}
}

func runX05(c *Ctx) {
	r := c.Rng
	cases := readCases(c.Cases)
	for _, cs := range cases {
		for _, dir := range []string{"hex", "b64"} {
			c.Call(Event{"op": "JsonWalk", "dir": dir, "in": cs["t"]})
		}
	}
	// strings that matter: hashes, near-hashes, case, padding, line breaks
	hexd := "0123456789abcdef"
	rh := func(n int) string {
		b := make([]byte, n)
		for i := range b {
			b[i] = hexd[r.Intn(16)]
		}
		return string(b)
	}
	var strs []string
	for _, n := range []int{0, 1, 2, 3, 4, 8, 40, 62, 63, 64, 65, 66, 128} {
		s := rh(n)
		strs = append(strs, s, strings.ToUpper(s))
		if n > 0 {
			strs = append(strs, s[:n-1]+"g", "0x"+s, s+" ")
		}
	}
	b64 := func(n int) string {
		b := randBytes(r, n)
		return stdB64(b)
	}
	for _, n := range []int{0, 1, 2, 3, 4, 20, 30, 31, 32, 33, 34, 48, 64} {
		s := b64(n)
		strs = append(strs, s, strings.TrimRight(s, "="), s+"\n", s+"=", "\r\n"+s)
		if len(s) > 4 {
			strs = append(strs, s[:4]+"\n"+s[4:], s[:len(s)-1]+"*", s[:3]+"="+s[4:], strings.Replace(s, "=", "", 1))
		}
		if n%3 != 0 {
			// non-canonical trailing bits
			k := strings.Index(s, "=") - 1
			strs = append(strs, s[:k]+string(nextB64(s[k]))+s[k+1:])
		}
	}
	strs = append(strs, "true", "abcd", "name", "deadbeef", "DEADBEEF", "DeadBeef", "00", "AA==", "AAA=", "AAAA", "A===", "====", "=", "AA=A", "+/+/", "-_-_", "éé")
	for _, s := range strs {
		leaf := []interface{}{"s", str(s)}
		for _, t := range []interface{}{
			[]interface{}{"o", []interface{}{[]interface{}{str("hash"), leaf}}},
			[]interface{}{"a", []interface{}{leaf, []interface{}{"n", 1}, leaf}},
			[]interface{}{"a", []interface{}{[]interface{}{"n", 1}, leaf}},
			[]interface{}{"a", []interface{}{[]interface{}{"a", []interface{}{leaf}}, leaf}},
			leaf,
		} {
			for _, dir := range []string{"hex", "b64"} {
				c.Call(Event{"op": "JsonWalk", "dir": dir, "in": t})
			}
		}
	}
	// the public entry points on block messages
	obj := func(kv ...interface{}) interface{} {
		var out []interface{}
		var keys []string
		m := map[string]interface{}{}
		for i := 0; i+1 < len(kv); i += 2 {
			keys = append(keys, kv[i].(string))
			m[kv[i].(string)] = kv[i+1]
		}
		sort.Strings(keys)
		for _, k := range keys {
			out = append(out, []interface{}{str(k), m[k]})
		}
		if out == nil {
			out = []interface{}{}
		}
		return []interface{}{"o", out}
	}
	sv := func(s string) interface{} { return []interface{}{"s", str(s)} }
	arr := func(v ...interface{}) interface{} {
		if v == nil {
			v = []interface{}{}
		}
		return []interface{}{"a", v}
	}
	hashes := []string{rh(64), strings.ToUpper(rh(64)), rh(62), rh(66), rh(63) + "g", "", "00", stdB64(randBytes(r, 32)), rh(40)}
	for _, h := range hashes {
		for _, h2 := range hashes[:4] {
			c.Call(Event{"op": "JsonUnmarshal", "in": obj("block", obj("info", obj("hash", sv(h), "height", []interface{}{"n", 5}, "previous_block", sv(h2))))})
			c.Call(Event{"op": "JsonUnmarshal", "in": obj("block", obj("info", obj("hash", sv(h), "merkleRoot", []interface{}{"z"}),
				"transaction_data", arr(obj("transaction_hash", sv(h2)), obj("transaction_hash", sv(h)))))})
		}
		c.Call(Event{"op": "JsonUnmarshal", "in": obj("block", obj("transaction_data", arr(sv(h), obj("transaction_hash", sv(h)))))})
		c.Call(Event{"op": "JsonUnmarshal", "in": obj("block", obj("info", arr(sv(h), []interface{}{"n", 1})))})
	}
	n := c.Pick(200, 2000)
	for i, cs := range cases {
		if cs["fam"] == "tree" && i%(len(cases)/n+1) == 0 {
			c.Call(Event{"op": "JsonUnmarshal", "in": cs["t"]})
			c.Call(Event{"op": "JsonUnmarshal", "in": obj("block", obj("info", cs["t"]))})
		}
	}
	lens := []int{0, 1, 20, 31, 32, 33, 64}
	for i := 0; i < c.Pick(150, 1500); i++ {
		var txs []interface{}
		for k := r.Intn(4); k > 0; k-- {
			txs = append(txs, ints(randBytes(r, lens[r.Intn(len(lens))])))
		}
		if txs == nil {
			txs = []interface{}{}
		}
		c.Call(Event{"op": "JsonMarshal", "opt": r.Intn(16), "hash": ints(randBytes(r, lens[r.Intn(len(lens))])),
			"prev": ints(randBytes(r, lens[r.Intn(len(lens))])), "root": ints(randBytes(r, 32)), "next": ints(randBytes(r, lens[r.Intn(len(lens))])),
			"height": r.Intn(3), "txs": txs, "noinfo": r.Intn(8) == 0})
	}
}

const b64alpha = "ABCDEFGHIJKLMNOPQRSTUVWXYZabcdefghijklmnopqrstuvwxyz0123456789+/"

func nextB64(c byte) byte {
	i := strings.IndexByte(b64alpha, c)
	return b64alpha[(i+1)%64]
}

// stdB64: RFC 4648 encoding written out here (the harness does not take it from the library under test's imports)
func stdB64(b []byte) string {
	var sb strings.Builder
	for i := 0; i+2 < len(b); i += 3 {
		x := uint(b[i])<<16 | uint(b[i+1])<<8 | uint(b[i+2])
		sb.WriteByte(b64alpha[x>>18&63])
		sb.WriteByte(b64alpha[x>>12&63])
		sb.WriteByte(b64alpha[x>>6&63])
		sb.WriteByte(b64alpha[x&63])
	}
	switch len(b) % 3 {
	case 1:
		x := uint(b[len(b)-1]) << 16
		sb.WriteByte(b64alpha[x>>18&63])
		sb.WriteByte(b64alpha[x>>12&63])
		sb.WriteString("==")
	case 2:
		x := uint(b[len(b)-2])<<16 | uint(b[len(b)-1])<<8
		sb.WriteByte(b64alpha[x>>18&63])
		sb.WriteByte(b64alpha[x>>12&63])
		sb.WriteByte(b64alpha[x>>6&63])
		sb.WriteString("=")
	}
	return sb.String()
}
