package main

// C20 dynamic part: many goroutines on one shared bloom filter (build with -race).

import (
	"sort"
	"sync"
	"sync/atomic"
	"time"

	"github.com/gcash/bchd/chaincfg/chainhash"
	"github.com/gcash/bchd/wire"
	"github.com/gcash/bchutil"
	"github.com/gcash/bchutil/bloom"
	"github.com/gcash/bchutil/merkleblock"
)

func init() {
	families["C20"] = runC20
	ops["ConcRound"] = withDeadlock(opConcRound)
	ops["LinRound"] = withDeadlock(opConcRound)
	ops["AtomRound"] = withDeadlock(opAtomRound)
	ops["TxRound"] = withDeadlock(opTxRound)
	ops["TxReloadRound"] = withDeadlock(opTxReloadRound)
	ops["LoadedRound"] = withDeadlock(opLoadedRound)
	ops["UnloadedRound"] = withDeadlock(opUnloadedRound)
}

// waitWG waits for the goroutines of a round; if they do not all return within 30 s the round is deadlocked (the
// goroutines are abandoned) and the event of the op in progress is marked (clause "panic").
var deadlockSeen, deadlockTotal int32

func waitWG(wg *sync.WaitGroup) bool {
	done := make(chan struct{})
	go func() { wg.Wait(); close(done) }()
	select {
	case <-done:
		return true
	case <-time.After(30 * time.Second):
		atomic.StoreInt32(&deadlockSeen, 1)
		atomic.AddInt32(&deadlockTotal, 1)
		return false
	}
}

const deadlockMsg = "deadlock: the goroutines of the round did not all return within 30 s"

func withDeadlock(fn OpFn) OpFn {
	return func(h *HState, a Event) Event {
		e := fn(h, a)
		if atomic.SwapInt32(&deadlockSeen, 0) != 0 {
			e["panic"] = deadlockMsg
		}
		return e
	}
}

// opUnloadedRound: a filter that was unloaded before the round and is never reloaded in it: from every goroutine
// IsLoaded is false, MsgFilterLoad is nil and nothing matches, whatever the others are doing at that moment.
func opUnloadedRound(_ *HState, a Event) Event {
	f := bloom.LoadFilter(wire.NewMsgFilterLoad(make([]byte, 8), 2, 1, wire.BloomUpdateAll))
	f.Add([]byte{1})
	f.Unload()
	var loadedTrue, msgNonNil, matchTrue, panics int32
	var wg sync.WaitGroup
	start := make(chan struct{})
	k, n := gInt(a, "k"), gInt(a, "n")
	for g := 0; g < k; g++ {
		wg.Add(1)
		go func(g int) {
			defer wg.Done()
			<-start
			p, _ := guard(func() {
				for i := 0; i < n; i++ {
					switch (g + i) % 5 {
					case 0:
						f.Add([]byte{byte(i)})
					case 1:
						if f.Matches([]byte{1}) {
							atomic.AddInt32(&matchTrue, 1)
						}
					case 2, 3:
						if f.IsLoaded() {
							atomic.AddInt32(&loadedTrue, 1)
						}
					case 4:
						if f.MsgFilterLoad() != nil {
							atomic.AddInt32(&msgNonNil, 1)
						}
					}
				}
			})
			if p {
				atomic.AddInt32(&panics, 1)
			}
		}(g)
	}
	close(start)
	if !waitWG(&wg) { // a wedged filter must not be touched again (every further call would block as well)
		return with(a, "panic", deadlockMsg)
	}
	e := with(a, "loaded_true", int(loadedTrue), "msg_nonnil", int(msgNonNil), "match_true", int(matchTrue))
	if panics > 0 {
		e["panic"] = "panic inside a concurrent call on an unloaded filter"
	}
	return e
}

// opTxReloadRound: matchers call MatchTxAndUpdate on a transaction paying to the watched key (update-all) while
// a reloader alternates between fresh messages A_i (tweak ta, containing the key) and fresh EMPTY messages B_i
// (tweak tb).  Every message object is kept.  In any sequential order of the calls a B message never matches
// anything, so it stays all-zero; an A message only gains the outpoint's bits under ta.
func opTxReloadRound(_ *HState, a Event) Event {
	nbytes, nhash := gInt(a, "nbytes"), gInt(a, "nhash")
	ta, tb := gW32(a, "ta"), gW32(a, "tb")
	item := poolItem(0)
	// mode "flags": both kinds of message contain the item (the transaction always matches); they differ in the UPDATE
	// FLAG (all / none).  Whatever sequential order the calls have, a message that forbids updates never gains a bit.
	// The matching output is the last of many, so that looking at the outputs takes a while.
	flagsMode := gName(a, "mode") == "flags"
	oidx := 0
	outs := []interface{}{}
	if flagsMode {
		oidx = 1500
		for k := 0; k < oidx; k++ {
			outs = append(outs, map[string]interface{}{"kind": "push", "item": 2, "item2": 2})
		}
	}
	outs = append(outs, map[string]interface{}{"kind": "pk", "item": 0, "item2": 0})
	desc := []interface{}{map[string]interface{}{
		"outs": outs,
		"ins":  []interface{}{map[string]interface{}{"parent": -1, "out": 0, "sig": -1, "ext": 1}}}}
	tx := buildTxs(desc, gInt(a, "salt"))[0]
	txid := tx.TxHash()
	n := gInt(a, "n")
	msgs := make([]*wire.MsgFilterLoad, n)
	var init []int
	for i := range msgs {
		if i%2 == 0 {
			msgs[i] = wire.NewMsgFilterLoad(make([]byte, nbytes), uint32(nhash), ta, wire.BloomUpdateAll)
			pf := bloom.LoadFilter(msgs[i])
			pf.Add(item)
			if init == nil {
				init = setBits(msgs[i].Filter)
			}
		} else if flagsMode {
			msgs[i] = wire.NewMsgFilterLoad(make([]byte, nbytes), uint32(nhash), ta, wire.BloomUpdateNone)
			bloom.LoadFilter(msgs[i]).Add(item)
		} else {
			msgs[i] = wire.NewMsgFilterLoad(make([]byte, nbytes), uint32(nhash), tb, wire.BloomUpdateAll)
		}
	}
	f := bloom.LoadFilter(msgs[0])
	var stop int32
	var wg sync.WaitGroup
	start := make(chan struct{})
	var panics int32
	for g := 0; g < gInt(a, "k"); g++ {
		wg.Add(1)
		go func() {
			defer wg.Done()
			<-start
			p, _ := guard(func() {
				for atomic.LoadInt32(&stop) == 0 {
					f.MatchTxAndUpdate(bchutil.NewTx(tx))
				}
			})
			if p {
				atomic.AddInt32(&panics, 1)
			}
		}()
	}
	wg.Add(1)
	go func() {
		defer wg.Done()
		<-start
		for i := 1; i < n; i++ {
			f.Reload(msgs[i])
		}
		atomic.StoreInt32(&stop, 1)
	}()
	close(start)
	if !waitWG(&wg) { // a wedged filter must not be touched again (every further call would block as well)
		return with(a, "panic", deadlockMsg)
	}
	isInit := map[int]bool{}
	for _, b := range init {
		isInit[b] = true
	}
	extra, dirty := map[int]bool{}, map[int]bool{}
	for i, m := range msgs {
		for _, b := range setBits(m.Filter) {
			if i%2 == 1 {
				if !flagsMode || !isInit[b] {
					dirty[b] = true
				}
			} else if !isInit[b] {
				extra[b] = true
			}
		}
	}
	keys := func(m map[int]bool) []int {
		out := []int{}
		for b := range m {
			out = append(out, b)
		}
		sort.Ints(out)
		return out
	}
	e := with(a, "item", ints(item), "txid", ints(txid[:]), "init", init, "aextra", keys(extra), "bdirty", keys(dirty), "oidx", oidx, "flagsmode", flagsMode)
	if panics > 0 {
		e["panic"] = "panic inside MatchTxAndUpdate"
	}
	return e
}

// opLoadedRound: in every round two goroutines Reload and two Unload, released together; once all four have
// returned the filter is quiescent and IsLoaded() must agree with MsgFilterLoad() != nil (two sequential reads
// of the same abstract state).
func opLoadedRound(_ *HState, a Event) Event {
	rounds := gInt(a, "rounds")
	f := bloom.LoadFilter(wire.NewMsgFilterLoad(make([]byte, 8), 2, 1, wire.BloomUpdateNone))
	mismatches, first := 0, -1
	p, msg := guard(func() {
		for r := 0; r < rounds; r++ {
			var wg sync.WaitGroup
			start := make(chan struct{})
			for g := 0; g < 4; g++ {
				wg.Add(1)
				go func(g int) {
					defer wg.Done()
					<-start
					if g%2 == 0 {
						f.Reload(wire.NewMsgFilterLoad(make([]byte, 8), 2, uint32(r), wire.BloomUpdateNone))
					} else {
						f.Unload()
					}
				}(g)
			}
			close(start)
			if !waitWG(&wg) {
				panic(deadlockMsg)
			}
			if f.IsLoaded() != (f.MsgFilterLoad() != nil) {
				if mismatches == 0 {
					first = r
				}
				mismatches++
			}
		}
	})
	return panicField(with(a, "mismatches", mismatches, "first", first), p, msg)
}

// opTxRound: k goroutines call MatchTxAndUpdate, each on its own transaction paying to the same
// watched public key.  Every call must match and (unless the flag is UpdateNone) every
// transaction's outpoint 0 must end up in the filter: no update may be lost.
func opTxRound(_ *HState, a Event) Event {
	k := gInt(a, "k")
	nbytes, nhash, flags := gInt(a, "nbytes"), gInt(a, "nhash"), gInt(a, "flags")
	item := poolItem(0)
	f := bloom.LoadFilter(wire.NewMsgFilterLoad(make([]byte, nbytes), uint32(nhash), gW32(a, "tweak"), wire.BloomUpdateType(flags)))
	f.Add(item)
	init := setBits(f.MsgFilterLoad().Filter)
	txs := make([]*wire.MsgTx, k)
	var txids [][]int
	for g := 0; g < k; g++ {
		desc := []interface{}{map[string]interface{}{
			"outs": []interface{}{map[string]interface{}{"kind": []string{"pk", "ms"}[g%2], "item": 0, "item2": 0}},
			"ins":  []interface{}{map[string]interface{}{"parent": -1, "out": g, "sig": -1, "ext": g}}}}
		txs[g] = buildTxs(desc, gInt(a, "salt")+g)[0]
		h := txs[g].TxHash()
		txids = append(txids, ints(h[:]))
	}
	rets := make([]bool, k)
	var wg sync.WaitGroup
	start := make(chan struct{})
	var panics int32
	for g := 0; g < k; g++ {
		wg.Add(1)
		go func(g int) {
			defer wg.Done()
			<-start
			p, _ := guard(func() { rets[g] = f.MatchTxAndUpdate(bchutil.NewTx(txs[g])) })
			if p {
				atomic.AddInt32(&panics, 1)
			}
		}(g)
	}
	close(start)
	if !waitWG(&wg) { // a wedged filter must not be touched again (every further call would block as well)
		return with(a, "panic", deadlockMsg)
	}
	e := with(a, "item", ints(item), "init", init, "txids", txids, "rets", rets, "final", setBits(f.MsgFilterLoad().Filter))
	if panics > 0 {
		e["panic"] = "panic inside MatchTxAndUpdate"
	}
	return e
}

// opAtomRound: one goroutine inserts a long item (hashing takes microseconds) while another
// keeps reloading fresh, empty, same-sized messages that alternate between two tweaks.  Every
// message object is kept and inspected afterwards: in any sequential order of the calls the
// insertion lands in exactly one message, with the bit numbers of THAT message's tweak.
func opAtomRound(_ *HState, a Event) Event {
	nbytes, nhash := gInt(a, "nbytes"), gInt(a, "nhash")
	tweaks := []uint32{gW32(a, "t0"), gW32(a, "t1")}
	item := gBytes(a, "item")
	mk := func(i int) *wire.MsgFilterLoad {
		return wire.NewMsgFilterLoad(make([]byte, nbytes), uint32(nhash), tweaks[i%2], wire.BloomUpdateNone)
	}
	msgs := []*wire.MsgFilterLoad{mk(0)}
	f := bloom.LoadFilter(msgs[0])
	var stop int32
	var wg sync.WaitGroup
	start := make(chan struct{})
	wg.Add(2)
	go func() {
		defer wg.Done()
		<-start
		for i := 1; i < 20000 && atomic.LoadInt32(&stop) == 0; i++ {
			m := mk(i)
			msgs = append(msgs, m)
			f.Reload(m)
		}
	}()
	var pan bool
	go func() {
		defer wg.Done()
		<-start
		for i := 0; i < 50; i++ { // let the reloader get going
			f.IsLoaded()
		}
		pan, _ = guard(func() { f.Add(item) })
		atomic.StoreInt32(&stop, 1)
	}()
	close(start)
	if !waitWG(&wg) { // a wedged filter must not be touched again (every further call would block as well)
		return with(a, "panic", deadlockMsg)
	}
	var touched []interface{}
	for i, m := range msgs {
		if b := setBits(m.Filter); len(b) > 0 {
			touched = append(touched, map[string]interface{}{"t": i % 2, "bits": b})
		}
	}
	if touched == nil {
		touched = []interface{}{}
	}
	// an implementation may copy the message on load (the caller's objects then never change): the filter's own final
	// state is observed as well -- tweak index of the last reload and the bits set in it
	fin := map[string]interface{}{"loaded": false, "t": 0, "bits": []int{}}
	if m := f.MsgFilterLoad(); m != nil {
		ft := 0
		if m.Tweak == tweaks[1] && tweaks[0] != tweaks[1] {
			ft = 1
		}
		fin = map[string]interface{}{"loaded": true, "t": ft, "bits": setBits(m.Filter)}
	}
	e := with(a, "nmsgs", len(msgs), "touched", touched, "fin", fin)
	if pan {
		e["panic"] = "Add panicked"
	}
	return e
}

type concOp struct {
	G    int
	Kind string
	Item []byte
	Txid []byte
	Idx  uint32
	Bits []int // Reload
	Ret  bool
	Inv  int64
	Rt   int64
}

// opConcRound replays the per-goroutine programs in a["prog"] concurrently on one filter.
// Tickets are drawn from one atomic counter immediately before the call and immediately
// after it returned (never wall-clock time).
func opConcRound(_ *HState, a Event) Event {
	nbytes, nhash, flags := gInt(a, "nbytes"), gInt(a, "nhash"), gInt(a, "flags")
	tweak := gW32(a, "tweak")
	mkmsg := func(bits []interface{}) *wire.MsgFilterLoad {
		b := make([]byte, nbytes)
		for _, x := range bits {
			v := int(x.(float64))
			b[v/8] |= 1 << uint(v%8)
		}
		return wire.NewMsgFilterLoad(b, uint32(nhash), tweak, wire.BloomUpdateType(flags))
	}
	f := bloom.LoadFilter(mkmsg(gList(a, "init")))
	var ticket int64
	prog := gList(a, "prog")
	results := make([][]map[string]interface{}, len(prog))
	var wg sync.WaitGroup
	start := make(chan struct{})
	var panics int32
	for g := range prog {
		wg.Add(1)
		go func(g int) {
			defer wg.Done()
			<-start
			for _, o := range gList(Event{"p": prog[g]}, "p") {
				om := o.(map[string]interface{})
				kind := gName(om, "k")
				rec := map[string]interface{}{"g": g, "k": kind, "ret": false}
				for _, key := range []string{"item", "txid", "idx", "bits"} {
					if v, ok := om[key]; ok {
						rec[key] = v
					}
				}
				var msg *wire.MsgFilterLoad
				if kind == "Reload" {
					msg = mkmsg(gList(om, "bits"))
				}
				item := gBytes(om, "item")
				var hsh chainhash.Hash
				copy(hsh[:], gBytes(om, "txid"))
				op := wire.NewOutPoint(&hsh, gW32(om, "idx"))
				inv := atomic.AddInt64(&ticket, 1)
				p, _ := guard(func() {
					switch kind {
					case "Add":
						f.Add(item)
					case "AddHash":
						var ih chainhash.Hash
						copy(ih[:], item)
						f.AddHash(&ih)
					case "AddOutPoint":
						f.AddOutPoint(op)
					case "Matches":
						rec["ret"] = f.Matches(item)
					case "MatchesOutPoint":
						rec["ret"] = f.MatchesOutPoint(op)
					case "IsLoaded":
						rec["ret"] = f.IsLoaded()
					case "GetMsg":
						rec["ret"] = f.MsgFilterLoad() != nil
					case "Reload":
						f.Reload(msg)
					case "Unload":
						f.Unload()
					}
				})
				rt := atomic.AddInt64(&ticket, 1)
				if p {
					atomic.AddInt32(&panics, 1)
				}
				rec["inv"], rec["rt"] = int(inv), int(rt)
				results[g] = append(results[g], rec)
			}
		}(g)
	}
	close(start)
	if !waitWG(&wg) { // a wedged filter must not be touched again (every further call would block as well)
		return with(a, "panic", deadlockMsg)
	}
	var all []interface{}
	for _, rs := range results {
		for _, r := range rs {
			all = append(all, r)
		}
	}
	sort.Slice(all, func(i, j int) bool {
		return all[i].(map[string]interface{})["inv"].(int) < all[j].(map[string]interface{})["inv"].(int)
	})
	e := with(a, "ops", all, "finalloaded", false, "final", []int{})
	if m := f.MsgFilterLoad(); m != nil {
		e["finalloaded"] = true
		e["final"] = setBits(m.Filter)
	}
	if panics > 0 {
		e["panic"] = "panic inside a concurrent call"
	}
	return e
}

// stress hammers every documented-safe operation (including transaction matching with
// update, reload and unload) from many goroutines; only the race detector and panics judge.
func stress(c *Ctx, k, n int, flags int) int {
	r := c.Rng
	desc := randDesc(c, 3, 3)
	txs := buildTxs(desc, 7)
	f := bloom.LoadFilter(wire.NewMsgFilterLoad(make([]byte, 4), 2, 1, wire.BloomUpdateType(flags)))
	f.Add(poolItem(0))
	f.Add(poolItem(1))
	f.Add(scanItem)
	// a block whose transactions come children first (every one relevant): the scan has to go back to spenders it
	// has already passed -- the exported block-scan entry points reach the shared message as well
	scanBytes := [][]byte{chainBlock(5, 1, false, true), chainBlock(5, 2, false, true)}
	seeds := make([]int64, k)
	for i := range seeds {
		seeds[i] = r.Int63()
	}
	var wg sync.WaitGroup
	var panics int32
	for g := 0; g < k; g++ {
		wg.Add(1)
		go func(g int) {
			defer wg.Done()
			rr := newRand(seeds[g])
			// every goroutine has its own block objects (a Block caches and is not shared); only the filter is shared
			scanBlocks := []*bchutil.Block{}
			for _, sb := range scanBytes {
				if b, err := bchutil.NewBlockFromBytes(sb); err == nil {
					scanBlocks = append(scanBlocks, b)
				}
			}
			for i := 0; i < n; i++ {
				p, _ := guard(func() {
					switch rr.Intn(13) {
					case 11:
						if len(scanBlocks) > 0 {
							if rr.Intn(2) == 0 {
								bloom.NewMerkleBlock(scanBlocks[rr.Intn(len(scanBlocks))], f)
							} else {
								merkleblock.NewMerkleBlockWithFilter(scanBlocks[rr.Intn(len(scanBlocks))], f)
							}
						}
					case 12:
						f.Add(scanItem)
					case 0:
						f.Add([]byte{byte(rr.Intn(4))})
					case 1:
						f.Matches([]byte{byte(rr.Intn(4))})
					case 2:
						f.IsLoaded()
					case 3:
						f.MsgFilterLoad()
					case 4:
						f.Reload(wire.NewMsgFilterLoad(make([]byte, 1+rr.Intn(4)), 2, 1, wire.BloomUpdateType(flags)))
					case 5:
						if k := rr.Intn(8); k == 0 {
							f.Unload()
						} else if k == 1 {
							f.Reload(nil)
						}
					case 6:
						f.MatchTxAndUpdate(bchutil.NewTx(txs[rr.Intn(len(txs))]))
					case 7:
						f.AddHash(&chainhash.Hash{byte(rr.Intn(4))})
					case 8:
						f.AddOutPoint(wire.NewOutPoint(&chainhash.Hash{1}, uint32(rr.Intn(3))))
					case 9:
						f.MatchesOutPoint(wire.NewOutPoint(&chainhash.Hash{1}, uint32(rr.Intn(3))))
					case 10:
						f.Matches(nil)
					}
				})
				if p {
					atomic.AddInt32(&panics, 1)
				}
			}
		}(g)
	}
	if !waitWG(&wg) { // the goroutines never came back: reported like a panic (the filter is not touched again)
		atomic.StoreInt32(&deadlockSeen, 0)
		return int(panics) + 1
	}
	return int(panics)
}

func concItem(c *Ctx, k int) []byte {
	return [][]byte{{1}, {2, 3}, {4, 5, 6}, {7, 8, 9, 10}, {11, 12, 13, 14, 15}, {}}[k%6]
}

func runC20(c *Ctx) {
	r := c.Rng
	c.Batch = 25
	if p := stress(c, 8, c.Pick(400, 4000), 1) + stress(c, 8, c.Pick(200, 2000), 2) + stress(c, 8, c.Pick(200, 2000), 0); p > 0 {
		c.Call(Event{"op": "ConcRound", "nbytes": 1, "nhash": 1, "tweak": w32(0), "flags": 0, "init": []int{}, "prog": []interface{}{}, "panic": "stress: panic or deadlock (no return within 30 s) inside concurrent calls"})
	}
	// (ii) one load epoch, any number of goroutines: insertions / queries only
	for round := 0; round < c.Pick(60, 600); round++ {
		if atomic.LoadInt32(&deadlockTotal) > 0 { // one deadlock is a verdict; further rounds would only wait
			break
		}
		k := []int{2, 4, 8, 16, 32}[round%5]
		nbytes := 1 + r.Intn(4)
		nhash := 1 + r.Intn(3)
		var init []int
		for b := 0; b < 8*nbytes; b++ {
			if r.Intn(6) == 0 {
				init = append(init, b)
			}
		}
		if init == nil {
			init = []int{}
		}
		var prog []interface{}
		for g := 0; g < k; g++ {
			var ops []interface{}
			for s := 0; s < 2+r.Intn(c.Pick(6, 30)); s++ {
				it := concItem(c, r.Intn(6))
				switch r.Intn(9) {
				case 0, 1, 2:
					ops = append(ops, map[string]interface{}{"k": "Add", "item": ints(it)})
				case 3:
					ops = append(ops, map[string]interface{}{"k": "AddOutPoint", "txid": ints(make([]byte, 32)), "idx": w32(uint32(r.Intn(3)))})
				case 4, 5, 6:
					ops = append(ops, map[string]interface{}{"k": "Matches", "item": ints(it)})
				case 7:
					ops = append(ops, map[string]interface{}{"k": "MatchesOutPoint", "txid": ints(make([]byte, 32)), "idx": w32(uint32(r.Intn(3)))})
				case 8:
					ops = append(ops, map[string]interface{}{"k": []string{"IsLoaded", "GetMsg"}[r.Intn(2)]})
				}
			}
			prog = append(prog, ops)
		}
		c.Call(Event{"op": "ConcRound", "nbytes": nbytes, "nhash": nhash, "tweak": w32(r.Uint32()), "flags": 0, "init": init, "prog": prog})
	}
	// concurrent MatchTxAndUpdate under every update flag: no outpoint insertion may be lost
	for round := 0; round < c.Pick(90, 900); round++ {
		if atomic.LoadInt32(&deadlockTotal) > 0 { // one deadlock is a verdict; further rounds would only wait
			break
		}
		c.Call(Event{"op": "TxRound", "k": []int{2, 4, 8, 16}[round%4], "nbytes": 64, "nhash": 3, "tweak": w32(r.Uint32()), "flags": round % 3,
			"salt": int(r.Int31n(50000))})
	}
	// MatchTxAndUpdate against reloads that alternate a matching and an empty message; loaded-flag agreement at quiescence
	for round := 0; round < c.Pick(12, 120); round++ {
		if atomic.LoadInt32(&deadlockTotal) > 0 { // one deadlock is a verdict; further rounds would only wait
			break
		}
		c.Call(Event{"op": "TxReloadRound", "k": []int{2, 4}[round%2], "n": 4000, "nbytes": 16, "nhash": 3, "ta": w32(r.Uint32()), "tb": w32(r.Uint32()),
			"salt": int(r.Int31n(50000))})
		c.Call(Event{"op": "TxReloadRound", "mode": "flags", "k": []int{2, 4}[round%2], "n": 600, "nbytes": 64, "nhash": 3, "ta": w32(r.Uint32()), "tb": w32(0),
			"salt": int(r.Int31n(50000))})
	}
	c.Call(Event{"op": "LoadedRound", "rounds": c.Pick(60000, 600000)})
	for round := 0; round < c.Pick(6, 60); round++ {
		if atomic.LoadInt32(&deadlockTotal) > 0 { // one deadlock is a verdict; further rounds would only wait
			break
		}
		c.Call(Event{"op": "UnloadedRound", "k": []int{4, 8, 16}[round%3], "n": 20000})
	}
	// atomicity of an insertion against concurrent reloads with another tweak
	for round := 0; round < c.Pick(40, 400); round++ {
		if atomic.LoadInt32(&deadlockTotal) > 0 { // one deadlock is a verdict; further rounds would only wait
			break
		}
		c.Call(Event{"op": "AtomRound", "nbytes": 8, "nhash": 3, "t0": w32(r.Uint32()), "t1": w32(r.Uint32()),
			"item": ints(randBytes(r, 1024+r.Intn(3072)))})
	}
	// immutable GCS filters queried from many goroutines: same answers as sequentially, bytes untouched
	for round := 0; round < c.Pick(6, 40); round++ {
		if atomic.LoadInt32(&deadlockTotal) > 0 { // one deadlock is a verdict; further rounds would only wait
			break
		}
		items := gcsItems(c, 2000+r.Intn(3000), 0x21)
		q := append(gcsItems(c, 10, 0x99), items[3], items[len(items)-1])
		c.Call(Event{"op": "GcsConc", "items": bytesList(items), "q": bytesList(q), "k": []int{2, 8, 16, 32}[round%4], "malformed": round%3 == 2, "reused": round%3 == 1})
	}
	c.Flush()
	// (i) small rounds with reload / unload: TLC searches for a linearization
	for round := 0; round < c.Pick(150, 1500); round++ {
		if atomic.LoadInt32(&deadlockTotal) > 0 { // one deadlock is a verdict; further rounds would only wait
			break
		}
		k := 2 + r.Intn(3)
		nbytes := 1 + r.Intn(2)
		var prog []interface{}
		for g := 0; g < k; g++ {
			var ops []interface{}
			for s := 0; s < 1+r.Intn(3); s++ {
				it := concItem(c, r.Intn(3))
				switch r.Intn(10) {
				case 0, 1, 2:
					ops = append(ops, map[string]interface{}{"k": "Add", "item": ints(it)})
				case 3, 4, 5:
					ops = append(ops, map[string]interface{}{"k": "Matches", "item": ints(it)})
				case 6:
					ops = append(ops, map[string]interface{}{"k": []string{"IsLoaded", "GetMsg"}[r.Intn(2)]})
				case 7, 8:
					var bits []int
					for b := 0; b < 8*nbytes; b++ {
						if r.Intn(5) == 0 {
							bits = append(bits, b)
						}
					}
					if bits == nil {
						bits = []int{}
					}
					ops = append(ops, map[string]interface{}{"k": "Reload", "bits": bits})
				case 9:
					ops = append(ops, map[string]interface{}{"k": "Unload"})
				}
			}
			prog = append(prog, ops)
		}
		c.Hist([]Event{Do(nil, Event{"op": "LinRound", "nbytes": nbytes, "nhash": 1 + r.Intn(2), "tweak": w32(r.Uint32()), "flags": 0, "init": []int{}, "prog": prog})})
	}
}
