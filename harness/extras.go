package main

// Growth beyond the listed properties (X01): address conversions, public-key address formats, hash helpers.

import (
	"fmt"

	"github.com/gcash/bchutil"
)

func init() {
	ops["Convert"] = opConvert
	ops["PubKeyOps"] = opPubKeyOps
	ops["HashFn"] = opHashFn
	families["X01"] = runX01
}

func opConvert(_ *HState, a Event) Event {
	src := opNewAddr(nil, with(a, "op", "NewAddr"))
	e := with(a, "ok", false, "rtype", "", "payload", []int{}, "enc", []int{})
	if !gBool(src, "ok") {
		e["panic"] = "source constructor failed"
		return e
	}
	net := nets[gInt(a, "net")-1]
	to := nets[gInt(a, "tonet")-1]
	data := gBytes(a, "data")
	p, msg := guard(func() {
		var ad bchutil.Address
		var err error
		switch gName(a, "ctor") {
		case "PubKeyHash":
			ad, err = bchutil.NewAddressPubKeyHash(data, net)
		case "SlpPubKeyHash":
			ad, err = bchutil.NewSlpAddressPubKeyHash(data, net)
		case "ScriptHashFromHash":
			ad, err = bchutil.NewAddressScriptHashFromHash(data, net)
		case "SlpScriptHashFromHash":
			ad, err = bchutil.NewSlpAddressScriptHashFromHash(data, net)
		case "ScriptHash32FromHash":
			ad, err = bchutil.NewAddressScriptHash32FromHash(data, net)
		case "LegacyPubKeyHash":
			ad, err = bchutil.NewLegacyAddressPubKeyHash(data, net)
		default:
			ad, err = bchutil.NewLegacyAddressScriptHashFromHash(data, net)
		}
		if err != nil {
			return
		}
		var out bchutil.Address
		if gBool(a, "toslp") {
			out, err = bchutil.ConvertCashToSlpAddress(ad, to)
		} else {
			out, err = bchutil.ConvertSlpToCashAddress(ad, to)
		}
		if err != nil || out == nil {
			return
		}
		e["ok"] = true
		e["rtype"] = fmt.Sprintf("%T", out)
		e["payload"] = ints(out.ScriptAddress())
		e["enc"] = str(out.EncodeAddress())
	})
	return panicField(e, p, msg)
}

func opPubKeyOps(_ *HState, a Event) Event {
	net := nets[gInt(a, "net")-1]
	data := gBytes(a, "data")
	e := with(a, "fmt0", "", "forms", []interface{}{})
	env := envPubKey(data)
	p, msg := guard(func() {
		ad, err := bchutil.NewAddressPubKey(data, net)
		if err != nil {
			e["panic"] = "valid key refused: " + err.Error()
			return
		}
		names := map[bchutil.PubKeyFormat]string{bchutil.PKFUncompressed: "uncompressed", bchutil.PKFCompressed: "compressed", bchutil.PKFHybrid: "hybrid"}
		e["fmt0"] = names[ad.Format()]
		var forms []interface{}
		for _, f := range []bchutil.PubKeyFormat{bchutil.PKFCompressed, bchutil.PKFUncompressed, bchutil.PKFHybrid, bchutil.PKFCompressed} {
			ad.SetFormat(f)
			ser := ad.ScriptAddress()
			forms = append(forms, map[string]interface{}{"fmt": names[ad.Format()], "want": names[f], "ser": ints(ser), "str": str(retainStr("AddressPubKey", "String", ad.String())), "enc": str(retainStr("AddressPubKey", "EncodeAddress", ad.EncodeAddress())),
				"pkhenc": str(ad.AddressPubKeyHash().EncodeAddress())})
			env = append(env, envHash160(ser)...)
			env = append(env, envSha256d(append([]byte{net.LegacyPubKeyHashAddrID}, ripemd(sha256b(ser))...)))
		}
		e["forms"] = forms
	})
	e["env"] = env
	return panicField(e, p, msg)
}

func opHashFn(_ *HState, a Event) Event {
	d := gBytes(a, "data")
	h160, h256 := bchutil.Hash160(d), bchutil.Hash256(d)
	retain("Hash", "h160", h160)
	retain("Hash", "h256", h256)
	e := with(a, "h160", ints(h160), "h256", ints(h256))
	e["env"] = append(envHash160(d), envHash256(d)...)
	return e
}

func runX01(c *Ctx) {
	c.Prelude = []Event{{"op": "Config"}}
	r := c.Rng
	ctors := []string{"PubKeyHash", "SlpPubKeyHash", "ScriptHashFromHash", "SlpScriptHashFromHash", "ScriptHash32FromHash", "LegacyPubKeyHash", "LegacyScriptHashFromHash"}
	for net := 1; net <= len(nets); net++ {
		for tonet := 1; tonet <= len(nets); tonet++ {
			for _, ct := range ctors {
				if isSlpCtor(ct) && nets[net-1].SlpAddressPrefix == "" {
					continue
				}
				n := 20
				if ct == "ScriptHash32FromHash" {
					n = 32
				}
				for _, slp := range []bool{true, false} {
					c.Call(Event{"op": "Convert", "ctor": ct, "net": net, "tonet": tonet, "toslp": slp, "data": ints(randBytes(r, n))})
				}
			}
		}
		for _, pk := range randPubKeys(c, c.Pick(4, 40)) {
			c.Call(Event{"op": "PubKeyOps", "net": net, "data": ints(pk)})
		}
	}
	for k := 0; k < c.Pick(60, 600); k++ {
		c.Call(Event{"op": "HashFn", "data": ints(randBytes(r, []int{0, 1, 20, 32, 33, 55, 56, 63, 64, 65, 119, 120, 1000}[k%13]))})
	}
}
