package main

import (
	"bytes"
	"math"
	"math/big"

	"github.com/gcash/bchd/bchec"
	"github.com/gcash/bchutil/hdkeychain"
)

func init() {
	families["C04"] = runC04
	families["C05"] = runC05
	families["C06"] = runC06
	families["C15"] = runC15
}

var hdIdx = []uint32{0, 1, 1<<31 - 1, 1 << 31, 1<<31 + 1, math.MaxUint32}

func hdCfg() Event { return Event{"op": "HDConfig"} }

// findLeadingZeroChild is an untrusted planner: it searches hardened indices whose child
// scalar starts with z zero bytes (the historic padding bug needs such keys).
func findLeadingZeroChild(seed []byte, z int, limit int) (uint32, bool) {
	m, err := hdkeychain.NewMaster(seed, nets[0])
	if err != nil {
		return 0, false
	}
	for i := 0; i < limit; i++ {
		idx := uint32(1<<31) + uint32(i)
		c, err := m.Child(idx)
		if err != nil {
			continue
		}
		sk, _ := c.ECPrivKey()
		b := sk.Serialize()
		ok := true
		for j := 0; j < z; j++ {
			if b[j] != 0 {
				ok = false
			}
		}
		if ok {
			return idx, true
		}
	}
	return 0, false
}

// findLeadingZeroPubChild: a non-hardened index whose child PUBLIC key has an X coordinate starting with a zero
// byte (about 1 in 256); found through the private derivation so that the public one is what gets examined.
func findLeadingZeroPubChild(seed []byte, limit int) (uint32, bool) {
	m, err := hdkeychain.NewMaster(seed, nets[0])
	if err != nil {
		return 0, false
	}
	for i := 0; i < limit; i++ {
		c, err := m.Child(uint32(i))
		if err != nil {
			continue
		}
		pk, err := c.ECPubKey()
		if err != nil {
			continue
		}
		if pk.SerializeCompressed()[1] == 0 {
			return uint32(i), true
		}
	}
	return 0, false
}

func runC04(c *Ctx) {
	c.DeferredOp = "HDObserve"
	hdSharedFamilies(c, c.Pick(2, 8), c.Pick(8, 60))
	for n := 0; n < 256; n++ { // the seed generator: every length
		if c.Thorough() || n <= 70 || n%16 == 0 || n == 255 {
			c.Call(Event{"op": "GenerateSeed", "n": n})
		}
	}
	c.Conc = true // stateless calls are also replayed from several goroutines at once
	r := c.Rng
	// seeds of every length: legal ones give a master key, others the documented error
	for n := 0; n <= 70; n++ {
		if !c.Thorough() && n > 17 && n < 63 && (n+int(c.Seed))%6 != 0 {
			continue
		}
		c.Run([]Event{hdCfg(), {"op": "NewMaster", "dst": 1, "seed": ints(randBytes(r, n)), "net": 1 + n%len(nets)},
			{"op": "NewMaster", "dst": 2, "seed": ints(randBytes(r, n+256)), "net": 1}})
	}
	for _, n := range []int{272, 300, 320, 528} { // lengths that are legal modulo 256
		c.Run([]Event{hdCfg(), {"op": "NewMaster", "dst": 1, "seed": ints(randBytes(r, n)), "net": 1}})
	}
	// all paths of length <= L over the index alphabet, neutering at every level
	L := c.Pick(2, 3)
	for _, net := range []int{1, 2, 6} {
		seed := randBytes(r, 16+r.Intn(49))
		var rec func(path []uint32)
		rec = func(path []uint32) {
			calls := []Event{hdCfg(), {"op": "NewMaster", "dst": 1, "seed": ints(seed), "net": net}}
			cur := 1
			for _, ix := range path {
				calls = append(calls, Event{"op": "Child", "src": cur, "dst": cur + 1, "idx": w32(ix)})
				// the same step from the neutered parent
				calls = append(calls, Event{"op": "Neuter", "src": cur, "dst": 20 + cur}, Event{"op": "Child", "src": 20 + cur, "dst": 40 + cur, "idx": w32(ix)})
				cur++
			}
			calls = append(calls, Event{"op": "Neuter", "src": cur, "dst": 20 + cur}, Event{"op": "Neuter", "src": 20 + cur, "dst": 60})
			if len(path) == L {
				c.Run(calls)
				return
			}
			for _, ix := range hdIdx {
				rec(append(append([]uint32{}, path...), ix))
			}
		}
		rec(nil)
	}
	// a deep path to depth 255 and the refused 256th step (private and public)
	for k := 0; k < c.Pick(1, 4); k++ {
		calls := []Event{hdCfg(), {"op": "NewMaster", "dst": 1, "seed": ints(randBytes(r, 32)), "net": 1 + k%len(nets)}}
		for d := 0; d < 255; d++ {
			ix := r.Uint32()
			if d%3 == 0 {
				ix &= 0x7fffffff
			}
			calls = append(calls, Event{"op": "Child", "src": 1, "dst": 1, "idx": w32(ix)})
		}
		calls = append(calls, Event{"op": "Child", "src": 1, "dst": 2, "idx": w32(0)}, Event{"op": "Neuter", "src": 1, "dst": 3},
			Event{"op": "Child", "src": 3, "dst": 4, "idx": w32(1)}, Event{"op": "Child", "src": 3, "dst": 4, "idx": w32(1 << 31)})
		c.Run(calls)
	}
	// children whose scalar has leading zero bytes (planner search), then derive below them
	for k := 0; k < c.Pick(3, 12); k++ {
		seed := randBytes(r, 32)
		z := 1
		limit := 4000
		if k == 0 {
			z, limit = 2, c.Pick(1000000, 3000000) // a miss has probability e^(-limit/65536)
		}
		ix, ok := findLeadingZeroChild(seed, z, limit)
		if !ok {
			continue
		}
		calls := []Event{hdCfg(), {"op": "NewMaster", "dst": 1, "seed": ints(seed), "net": 1}, {"op": "Child", "src": 1, "dst": 2, "idx": w32(ix)}}
		for j, cix := range []uint32{0, 1 << 31, 1<<31 + 7, 5, math.MaxUint32} {
			calls = append(calls, Event{"op": "Child", "src": 2, "dst": 3 + j, "idx": w32(cix)})
		}
		calls = append(calls, Event{"op": "Neuter", "src": 2, "dst": 10}, Event{"op": "Child", "src": 10, "dst": 11, "idx": w32(5)})
		// the same key exported as a string and imported again derives the same children
		calls = append(calls, Event{"op": "Reparse", "src": 2, "dst": 12}, Event{"op": "Child", "src": 12, "dst": 13, "idx": w32(1 << 31)},
			Event{"op": "Child", "src": 12, "dst": 14, "idx": w32(5)}, Event{"op": "Child", "src": 13, "dst": 15, "idx": w32(1<<31 + 1)})
		c.Run(calls)
	}
	// public children whose X coordinate starts with a zero byte, derived from the neutered parent, and below them
	for k := 0; k < c.Pick(2, 10); k++ {
		seed := randBytes(r, 32)
		ix, ok := findLeadingZeroPubChild(seed, 4000)
		if !ok {
			continue
		}
		c.Run([]Event{hdCfg(), {"op": "NewMaster", "dst": 1, "seed": ints(seed), "net": 1 + k%len(nets)}, {"op": "Neuter", "src": 1, "dst": 2},
			{"op": "Child", "src": 2, "dst": 3, "idx": w32(ix)}, {"op": "Child", "src": 1, "dst": 4, "idx": w32(ix)}, {"op": "Neuter", "src": 4, "dst": 5},
			{"op": "Child", "src": 3, "dst": 6, "idx": w32(0)}, {"op": "Reparse", "src": 3, "dst": 7}, {"op": "Child", "src": 7, "dst": 8, "idx": w32(1)}})
	}
	// derivation is a function of the key's VALUE: it is not disturbed by what happened to the object or to its
	// relatives before (printed, moved to another network, re-imported, a child or sibling erased)
	for k := 0; k < c.Pick(24, 240); k++ {
		net := 1 + k%len(nets)
		calls := []Event{hdCfg(), {"op": "NewMaster", "dst": 1, "seed": ints(randBytes(r, 32)), "net": net},
			{"op": "Child", "src": 1, "dst": 2, "idx": w32(1 << 31)}}
		switch k % 5 {
		case 4: // erase the ancestors (parent and master) after deriving: the descendants are complete values of their own
			calls = append(calls, Event{"op": "Child", "src": 2, "dst": 3, "idx": w32(1<<31 + 5)}, Event{"op": "Child", "src": 2, "dst": 4, "idx": w32(7)},
				Event{"op": "Zero", "src": 2}, Event{"op": "Zero", "src": 1}, Event{"op": "Child", "src": 3, "dst": 5, "idx": w32(0)},
				Event{"op": "Child", "src": 4, "dst": 6, "idx": w32(1 << 31)}, Event{"op": "Neuter", "src": 3, "dst": 7}, Event{"op": "Child", "src": 7, "dst": 8, "idx": w32(2)})
		case 0: // print, change the network, print again, derive
			calls = append(calls, Event{"op": "SetNet", "src": 2, "net": 1 + (net+1)%len(nets)}, Event{"op": "Child", "src": 2, "dst": 3, "idx": w32(1)},
				Event{"op": "Neuter", "src": 2, "dst": 4}, Event{"op": "SetNet", "src": 4, "net": net}, Event{"op": "Child", "src": 4, "dst": 5, "idx": w32(1)})
		case 1: // erase one child, derive its siblings afterwards (private and public parent)
			calls = append(calls, Event{"op": "Child", "src": 2, "dst": 3, "idx": w32(0)}, Event{"op": "Zero", "src": 3},
				Event{"op": "Child", "src": 2, "dst": 4, "idx": w32(1)}, Event{"op": "Child", "src": 2, "dst": 5, "idx": w32(1<<31 + 1)},
				Event{"op": "Neuter", "src": 2, "dst": 6}, Event{"op": "Child", "src": 6, "dst": 7, "idx": w32(0)}, Event{"op": "Zero", "src": 7},
				Event{"op": "Child", "src": 6, "dst": 8, "idx": w32(1)})
		case 2: // re-import, then derive from both objects
			calls = append(calls, Event{"op": "Reparse", "src": 2, "dst": 3}, Event{"op": "Child", "src": 3, "dst": 4, "idx": w32(1<<31 + 2)},
				Event{"op": "Child", "src": 2, "dst": 5, "idx": w32(1<<31 + 2)}, Event{"op": "Neuter", "src": 3, "dst": 6}, Event{"op": "Child", "src": 6, "dst": 7, "idx": w32(2)})
		case 3: // erase the neutered twin, keep deriving from the private key, neuter again
			calls = append(calls, Event{"op": "Neuter", "src": 2, "dst": 3}, Event{"op": "Zero", "src": 3}, Event{"op": "Neuter", "src": 2, "dst": 4},
				Event{"op": "Child", "src": 4, "dst": 5, "idx": w32(3)}, Event{"op": "Child", "src": 2, "dst": 6, "idx": w32(3)})
		}
		c.Run(resolveReparse(calls))
	}
	// the same API as stateless calls (seed -> strings along a path): they take part in the replay in other orders
	// and from 8 goroutines at once
	for k := 0; k < c.Pick(150, 1500); k++ {
		var path []interface{}
		for d := 0; d < r.Intn(4); d++ {
			ix := r.Uint32()
			if d%2 == 0 {
				ix &= 0x7fffffff
			}
			path = append(path, w32(ix))
		}
		if path == nil {
			path = []interface{}{}
		}
		c.Call(Event{"op": "HDPathStr", "seed": ints(randBytes(r, 16+r.Intn(49))), "net": 1 + k%len(nets), "path": path})
	}
	// random paths on every net
	for k := 0; k < c.Pick(20, 300); k++ {
		calls := []Event{hdCfg(), {"op": "NewMaster", "dst": 1, "seed": ints(randBytes(r, 16+r.Intn(49))), "net": 1 + k%len(nets)}}
		cur := 1
		for d := 0; d < 2+r.Intn(6); d++ {
			ix := r.Uint32()
			if r.Intn(2) == 0 {
				ix &= 0x7fffffff
			}
			if r.Intn(4) == 0 {
				calls = append(calls, Event{"op": "Neuter", "src": cur, "dst": cur + 1})
				cur++
			}
			calls = append(calls, Event{"op": "Child", "src": cur, "dst": cur + 1, "idx": w32(ix)})
			cur++
		}
		c.Run(calls)
	}
}

// ---------------------------------------------------------------------------- C05

func b58WithChecksum(p []byte) string {
	return base58Ref(append(append([]byte{}, p...), sha256d(p)[:4]...))
}

var masterSeeds = map[string][]byte{}

func runC05(c *Ctx) {
	c.DeferredOp = "HDObserve"
	c.Conc = true // stateless calls are also replayed from several goroutines at once
	r := c.Rng
	// private keys assembled from scalars shorter than 32 bytes
	for _, n := range []int{31, 30, 29, 16, 2, 1, 32} {
		kb := randBytes(r, n)
		if kb[0] == 0 {
			kb[0] = 1
		}
		c.Call(Event{"op": "ShortKeyString", "key": ints(kb)})
	}
	// a parsed key printed, moved to another network, printed and parsed again: the text always describes the key as it is
	for k := 0; k < c.Pick(8, 60); k++ {
		net := 1 + k%len(nets)
		other := 1 + (k+1+k/len(nets))%len(nets)
		calls := []Event{hdCfg(), {"op": "NewMaster", "dst": 1, "seed": ints(randBytes(r, 32)), "net": net}, {"op": "Child", "src": 1, "dst": 2, "idx": w32(uint32(k))},
			{"op": "Reparse", "src": 2, "dst": 3}, {"op": "SetNet", "src": 3, "net": other}, {"op": "Reparse", "src": 3, "dst": 4}, {"op": "Child", "src": 4, "dst": 5, "idx": w32(1 << 31)},
			{"op": "Neuter", "src": 3, "dst": 6}, {"op": "SetNet", "src": 6, "net": net}, {"op": "Reparse", "src": 6, "dst": 7}, {"op": "Child", "src": 7, "dst": 8, "idx": w32(2)}}
		c.Run(resolveReparse(calls))
	}
	secN := secN.Bytes()
	for k := 0; k < c.Pick(3, 8); k++ {
		// base keys: master, hardened child, public child
		m, err := hdkeychain.NewMaster(randBytes(r, 32), nets[k%len(nets)])
		if err != nil {
			continue
		}
		chIdx := uint32(1<<31) + uint32(k)
		if k%2 == 0 { // a child whose private scalar starts with a zero byte (k = 0: with two zero bytes) (planner search)
			seedZ := randBytes(r, 32)
			zz, lim := 1, 6000
			if k == 0 {
				zz, lim = 2, 1000000
			}
			if ix, ok := findLeadingZeroChild(seedZ, zz, lim); ok {
				if mz, err := hdkeychain.NewMaster(seedZ, nets[k%len(nets)]); err == nil {
					m, chIdx = mz, ix
					masterSeeds[mz.String()] = seedZ
				}
			}
		}
		ch, _ := m.Child(chIdx)
		pub, _ := ch.Neuter()
		pc, _ := pub.Child(uint32(k))
		if k == 0 { // the leading-zero child as an object (not re-imported): hardened and normal children below it, and its string
			var sd []byte
			if rs, ok := masterSeeds[m.String()]; ok {
				sd = rs
			}
			if sd != nil {
				c.Run([]Event{hdCfg(), {"op": "NewMaster", "dst": 1, "seed": ints(sd), "net": 1 + k%len(nets)}, {"op": "Child", "src": 1, "dst": 2, "idx": w32(chIdx)},
					{"op": "Child", "src": 2, "dst": 3, "idx": w32(1<<31 + 9)}, {"op": "Child", "src": 2, "dst": 4, "idx": w32(9)},
					{"op": "Reparse", "src": 2, "dst": 5}, {"op": "Child", "src": 5, "dst": 6, "idx": w32(1<<31 + 9)}})
			}
		}
		if k%2 == 1 { // a public child whose X coordinate starts with a zero byte
			seedZ := randBytes(r, 32)
			if ix, ok := findLeadingZeroPubChild(seedZ, 4000); ok {
				if mz, err := hdkeychain.NewMaster(seedZ, nets[k%len(nets)]); err == nil {
					if nz, err := mz.Neuter(); err == nil {
						if cz, err := nz.Child(ix); err == nil {
							pc = cz
						}
					}
				}
				// the same derivation as a judged history: the public child, its string, the string read back
				c.Run([]Event{hdCfg(), {"op": "NewMaster", "dst": 1, "seed": ints(seedZ), "net": 1 + k%len(nets)}, {"op": "Neuter", "src": 1, "dst": 2},
					{"op": "Child", "src": 2, "dst": 3, "idx": w32(ix)}, {"op": "Reparse", "src": 3, "dst": 4}, {"op": "Child", "src": 4, "dst": 5, "idx": w32(2)}})
			}
		}
		for bi, base := range []*hdkeychain.ExtendedKey{m, ch, pub, pc} {
			s := base.String()
			calls := []Event{hdCfg(), {"op": "Parse", "dst": 1, "s": str(s)},
				{"op": "Child", "src": 1, "dst": 2, "idx": w32(3)}, {"op": "Child", "src": 1, "dst": 2, "idx": w32(1<<31 + 3)},
				{"op": "Neuter", "src": 1, "dst": 3}, {"op": "Child", "src": 3, "dst": 2, "idx": w32(4)}}
			p := refB58Decode(s)[:78]
			id := 4
			parse := func(t string) {
				calls = append(calls, Event{"op": "Parse", "dst": id, "s": str(t)})
				id++
				if id > 7 {
					id = 4
				}
			}
			// single-bit and single-byte corruptions, with and without a recomputed checksum
			step := 1
			if !c.Thorough() {
				step = 5
			}
			for bit := (bi + int(c.Seed)) % step; bit < 78*8; bit += step {
				q := append([]byte{}, p...)
				q[bit/8] ^= 1 << uint(bit%8)
				parse(b58WithChecksum(q))
				if bit%3 == 0 {
					parse(base58Ref(append(q, sha256d(p)[:4]...))) // stale checksum
				}
			}
			for by := 0; by < 78; by += step {
				q := append([]byte{}, p...)
				q[by] = byte(r.Intn(256))
				parse(b58WithChecksum(q))
			}
			// every single bit of the four checksum bytes themselves, and every single byte of them
			full := refB58Decode(s)
			for bit := 78 * 8; bit < 82*8 && len(full) == 82; bit++ {
				q := append([]byte{}, full...)
				q[bit/8] ^= 1 << uint(bit%8)
				parse(base58Ref(q))
			}
			for by := 78; by < 82 && len(full) == 82; by++ {
				q := append([]byte{}, full...)
				q[by] ^= byte(1 + r.Intn(255))
				parse(base58Ref(q))
			}
			if len(full) == 82 {
				for _, q := range checksumForgeries(full) {
					parse(base58Ref(q))
				}
			}
			// non-ASCII twins: a character replaced by the code point 0x100, 0x200, ... above it (a decoder that
			// truncates runes to bytes reads the original character), and multi-byte characters
			for t := 0; t < 6; t++ {
				pos := r.Intn(len(s))
				parse(s[:pos] + string(rune(int(s[pos])+0x100*(1+t%3))) + s[pos+1:])
			}
			for _, w := range wsWraps(s)[:8] {
				parse(w)
			}
			parse(string(rune(int(s[0])+0x100)) + s[1:])
			parse(s[:len(s)-1] + string(rune(int(s[len(s)-1])+0x100)))
			// scalars at the range boundaries / public key bytes
			one := make([]byte, 32)
			one[31] = 1
			nm1 := append([]byte{}, secN...)
			nm1[31]--
			np1 := append([]byte{}, secN...)
			np1[31]++
			ff := make([]byte, 32)
			for i := range ff {
				ff[i] = 0xff
			}
			for _, sc := range [][]byte{make([]byte, 32), one, nm1, secN, np1, ff} {
				q := append([]byte{}, p...)
				q[45] = 0
				copy(q[46:], sc)
				parse(b58WithChecksum(q))
			}
			for _, par := range []byte{0, 1, 2, 3, 4, 5, 6, 7, 0xff} {
				q := append([]byte{}, p...)
				q[45] = par
				parse(b58WithChecksum(q))
				copy(q[46:], randBytes(r, 32)) // mostly off-curve / other point
				parse(b58WithChecksum(q))
			}
			// public key X coordinates outside the field: p + x0 for small x0 (some are abscissas of curve points
			// once reduced), p itself, p - 1, 2^256 - 1
			fieldP, _ := new(big.Int).SetString("fffffffffffffffffffffffffffffffffffffffffffffffffffffffefffffc2f", 16)
			for x0 := int64(-1); x0 <= 12; x0++ {
				q := append([]byte{}, p...)
				q[45] = 2 + byte(x0&1)
				new(big.Int).Add(fieldP, big.NewInt(x0)).FillBytes(q[46:78])
				parse(b58WithChecksum(q))
			}
			{
				q := append([]byte{}, p...)
				q[45] = 2
				copy(q[46:], bytes.Repeat([]byte{0xff}, 32))
				parse(b58WithChecksum(q))
			}
			// header fields in unusual combinations (a zero parent fingerprint on a derived key, a fingerprint / child number
			// on depth 0): the text form does not judge them -- what serialises is a key
			for _, hdr := range [][3]int{{1, 0, 5}, {3, 0, 0}, {0, 1, 0}, {0, 0, 9}, {255, 0, 1}} {
				q := append([]byte{}, p...)
				q[4] = byte(hdr[0])
				if hdr[1] == 0 {
					q[5], q[6], q[7], q[8] = 0, 0, 0, 0
				}
				q[9], q[10], q[11], q[12] = 0, 0, 0, byte(hdr[2])
				parse(b58WithChecksum(q))
			}
			// wrong lengths with a valid checksum, leading zero byte variants
			for n := 70; n <= 90; n++ {
				q := randBytes(r, n)
				copy(q, p[:minInt(n, 78)])
				parse(b58WithChecksum(q))
			}
			parse(b58WithChecksum(append([]byte{0}, p...)))
			// a complete valid serialisation (with ITS checksum) behind extra leading bytes, or in front of extra trailing
			// ones: a decoder that loses bytes at either end of a long number sees the valid 82 bytes
			if full := refB58Decode(s); len(full) == 82 {
				for _, pre := range [][]byte{{1}, {2}, {0xff}, {1, 0}, {0xff, 0xff}, {0, 1}} {
					parse(base58Ref(append(append([]byte{}, pre...), full...)))
				}
				for _, suf := range [][]byte{{0}, {1}, {0xff}, {0, 0}} {
					parse(base58Ref(append(append([]byte{}, full...), suf...)))
				}
			}
			parse("1" + s)
			parse(s + "1")
			parse(s[:len(s)-1])
			parse("")
			q := append([]byte{}, p...)
			q[0], q[1] = 0, 0 // version with leading zero bytes: leading '1' characters
			parse(b58WithChecksum(q))
			c.Run(calls)
		}
	}
}

// ---------------------------------------------------------------------------- C06

func runC06(c *Ctx) {
	c.Conc = true // stateless calls are also replayed from several goroutines at once
	r := c.Rng
	c.Prelude = []Event{hdCfg()}
	var scalars [][]byte
	one := make([]byte, 32)
	one[31] = 1
	nm1 := secN.Bytes()
	nm1[31]--
	scalars = append(scalars, one, nm1)
	for z := 1; z <= 31; z++ {
		b := randBytes(r, 32)
		for i := 0; i < z; i++ {
			b[i] = 0
		}
		if b[z] == 0 {
			b[z] = 1
		}
		scalars = append(scalars, b)
	}
	for k := 0; k < c.Pick(10, 200); k++ {
		b := randBytes(r, 32)
		b[0] = 0x80 | b[0]&0x7f
		if k%2 == 0 {
			b[0] &= 0x7f
		}
		scalars = append(scalars, b)
	}
	for si, sc := range scalars {
		for _, comp := range []bool{false, true} {
			for net := 1; net <= len(nets); net++ {
				if !c.Thorough() && net != 1 && net != 6 && (si+net)%3 != 0 {
					continue
				}
				e := c.Call(Event{"op": "Wif", "key": ints(sc), "net": net, "compressed": comp})
				s := gStr(e, "str")
				c.Call(Event{"op": "WifDecode", "s": str(s)})
				if si%4 != 0 && !c.Thorough() {
					continue
				}
				d := refB58Decode(s)
				if len(d) < 37 {
					continue
				}
				// single-bit corruptions of the decoded payload (stale checksum) and of the body (fresh checksum)
				for bit := si % 7; bit < 8*len(d); bit += 7 {
					q := append([]byte{}, d...)
					q[bit/8] ^= 1 << uint(bit%8)
					c.Call(Event{"op": "WifDecode", "s": str(base58Ref(q))})
				}
				for _, q := range checksumForgeries(d) {
					c.Call(Event{"op": "WifDecode", "s": str(base58Ref(q))})
				}
			}
		}
	}
	// every private-key identifier byte (a custom network): the length of the text depends on it (50..52 characters)
	for id := 0; id < 256; id++ {
		if !c.Thorough() && id > 0x22 && id%16 != 0 && id != 0x80 && id != 0xef && id != 0xff {
			continue
		}
		for _, comp := range []bool{false, true} {
			e := c.Call(Event{"op": "Wif", "key": ints(scalars[(id*2+3)%len(scalars)]), "net": 1, "idbyte": id, "compressed": comp})
			c.Call(Event{"op": "WifDecode", "s": str(gStr(e, "str"))})
		}
	}
	// key bytes outside [1, n-1] with a valid checksum: whatever is accepted must re-encode to itself
	for _, kb := range [][]byte{secN.Bytes(), new(big.Int).Add(secN, big.NewInt(1)).Bytes(), new(big.Int).Add(secN, big.NewInt(0x1234567)).Bytes(), bytes.Repeat([]byte{0xff}, 32), make([]byte, 32)} {
		for _, id := range []byte{0x80, 0xef} {
			body := append([]byte{id}, kb...)
			c.Call(Event{"op": "WifDecode", "s": str(b58WithChecksum(body))})
			c.Call(Event{"op": "WifDecode", "s": str(b58WithChecksum(append(body, 1)))})
		}
	}
	// white space around a valid string
	for k := 0; k < 4; k++ {
		e := Do(nil, Event{"op": "Wif", "key": ints(scalars[(k*5)%len(scalars)]), "net": 1 + k%len(nets), "compressed": k%2 == 0})
		for _, w := range wsWraps(gStr(e, "str")) {
			c.Call(Event{"op": "WifDecode", "s": str(w)})
		}
	}
	// keys whose public point has an X coordinate with a leading zero byte (planner search over small scalars)
	found := 0
	for v := int64(1); v < 20000 && found < c.Pick(6, 16); v++ {
		kb := make([]byte, 32)
		big.NewInt(v).FillBytes(kb)
		_, pubk := bchec.PrivKeyFromBytes(bchec.S256(), kb)
		if pub := ecBase(kb); len(pub) == 33 && (pub[1] == 0 || pubk.SerializeUncompressed()[33] == 0) { // X or Y with a leading zero byte
			found++
			for _, comp := range []bool{true, false} {
				c.Call(Event{"op": "Wif", "key": ints(kb), "net": 1 + found%len(nets), "compressed": comp})
			}
		}
	}
	// the flag of a WIF value changed after it was encoded / decoded
	for k := 0; k < c.Pick(24, 200); k++ {
		c.Call(Event{"op": "WifMutate", "key": ints(scalars[k%len(scalars)]), "net": 1 + k%len(nets), "compressed": k%2 == 0, "via": []string{"new", "decode", "decode-after-wipe"}[(k/2)%3]})
	}
	// marker byte over all values, every decoded length 0..45, with valid checksums
	for mk := 0; mk < 256; mk++ {
		body := append(append([]byte{0x80}, randBytes(r, 32)...), byte(mk))
		c.Call(Event{"op": "WifDecode", "s": str(b58WithChecksum(body))})
		// 38 bytes whose checksum only covers the first 33 (two cooperating sites)
		q := append(append([]byte{}, body...), sha256d(body[:33])[:4]...)
		c.Call(Event{"op": "WifDecode", "s": str(base58Ref(q))})
	}
	// a complete well-formed payload (identifier, key, optional 0x01 marker) with bytes in front of it, behind it, or
	// between the key and the marker -- every one with a valid checksum over the whole: only 33 or 34 bytes are a key
	for k := 0; k < c.Pick(4, 24); k++ {
		id := []byte{0x80, 0xef, 0x64, 0x00}[k%4]
		key := scalars[(3*k+1)%len(scalars)]
		plain := append([]byte{id}, key...)
		comp := append(append([]byte{}, plain...), 1)
		for _, extra := range [][]byte{{0}, {1}, {0xff}, {1, 1}, {0, 1}, {1, 0}, {7, 7, 7}, randBytes(r, 5), randBytes(r, 12)} {
			for _, b := range [][]byte{
				append(append([]byte{}, comp...), extra...),             // marker, then more
				append(append([]byte{}, plain...), extra...),            // no marker, then more
				append(append([]byte{}, extra...), comp...),             // something in front
				append(append(append([]byte{}, plain...), extra...), 1), // marker at the very end of a longer payload
			} {
				c.Call(Event{"op": "WifDecode", "s": str(b58WithChecksum(b))})
			}
		}
	}
	for n := 0; n <= 45; n++ {
		for k := 0; k < 3; k++ {
			b := randBytes(r, n)
			if n > 0 && k == 1 {
				b[0] = 0
			}
			if n >= 4 {
				copy(b[n-4:], sha256d(b[:n-4])[:4])
			}
			c.Call(Event{"op": "WifDecode", "s": str(base58Ref(b))})
		}
	}
	for k := 0; k < c.Pick(40, 400); k++ {
		s := randStr(c, b58alpha+"0OIl \xc5\x81", 1+r.Intn(60))
		c.Call(Event{"op": "WifDecode", "s": str(s)})
	}
	// "digit 255" twins: a decoder that lets a foreign byte through uses its table value (255) as a
	// digit; d,'U','Q' = (d-4),255,255 in base 58, so such a twin would decode to the same payload
	for k := 0; k < c.Pick(400, 4000); k++ {
		e := Do(nil, Event{"op": "Wif", "key": ints(randBytes(r, 32)), "net": 1 + k%len(nets), "compressed": k%2 == 0})
		s := gStr(e, "str")
		for p := 0; p+2 < len(s); p++ {
			d := indexByte(b58alpha, s[p])
			if s[p+1] == 'U' && s[p+2] == 'Q' && d >= 4 {
				for _, fb := range []string{"\xc5\x81", "0O", "\x80\x80", "Il", "\xc3\xa9"} {
					c.Call(Event{"op": "WifDecode", "s": str(s[:p] + string(b58alpha[d-4]) + fb + s[p+3:])})
				}
			}
		}
	}
	// rune twins: a character replaced by the code point 0x100, 0x200, 0x2100 above it (low byte = the character)
	for k := 0; k < c.Pick(30, 300); k++ {
		e := Do(nil, Event{"op": "Wif", "key": ints(randBytes(r, 32)), "net": 1 + k%len(nets), "compressed": k%2 == 0})
		s := gStr(e, "str")
		p := r.Intn(len(s))
		c.Call(Event{"op": "WifDecode", "s": str(s[:p] + string(rune(int(s[p])+[]int{0x100, 0x200, 0x2100, 0x400}[k%4])) + s[p+1:])})
	}
	// non-ASCII twins of valid strings: a multi-byte character in place of alphabet characters
	for k := 0; k < c.Pick(30, 300); k++ {
		e := Do(nil, Event{"op": "Wif", "key": ints(randBytes(r, 32)), "net": 1, "compressed": k%2 == 0})
		s := []byte(gStr(e, "str"))
		p := r.Intn(len(s) - 2)
		t := string(s[:p]) + []string{"Ł", "ı", "é", "Α"}[k%4] + string(s[p+1+k%2:])
		c.Call(Event{"op": "WifDecode", "s": str(t)})
	}
}

// ---------------------------------------------------------------------------- C15

func runC15(c *Ctx) {
	c.DeferredOp = "HDObserve"
	observeNeuterIdentity = true
	r := c.Rng
	seeds := [][]byte{randBytes(r, 32), randBytes(r, 16), randBytes(r, 64)}
	// TLC-generated histories over a pool of keys
	for _, cs := range readCases(c.Cases) {
		calls := []Event{hdCfg()}
		for _, st := range gList(cs, "ops") {
			s := st.(map[string]interface{})
			switch gName(s, "o") {
			case "NewMaster":
				calls = append(calls, Event{"op": "NewMaster", "dst": gInt(s, "d"), "seed": ints(seeds[gInt(s, "d")%3]), "net": 1 + gInt(s, "d")%2*5})
			case "Child0":
				calls = append(calls, Event{"op": "Child", "src": gInt(s, "s"), "dst": gInt(s, "d"), "idx": w32(0)})
			case "ChildH":
				calls = append(calls, Event{"op": "Child", "src": gInt(s, "s"), "dst": gInt(s, "d"), "idx": w32(1 << 31)})
			case "Neuter":
				calls = append(calls, Event{"op": "Neuter", "src": gInt(s, "s"), "dst": gInt(s, "d")})
			case "SetNet":
				calls = append(calls, Event{"op": "SetNet", "src": gInt(s, "s"), "net": 2 + gInt(s, "s")%2*4})
			case "Zero":
				calls = append(calls, Event{"op": "Zero", "src": gInt(s, "s")})
			case "Reparse":
				calls = append(calls, Event{"op": "Reparse", "src": gInt(s, "s"), "dst": gInt(s, "d")})
			}
		}
		c.Run(resolveReparse(calls))
	}
	// two children of one master whose private scalars both start with a zero byte (they are padded when stored):
	// deriving or erasing the second must not disturb the first
	for k := 0; k < c.Pick(2, 10); k++ {
		seed := randBytes(r, 32)
		m, err := hdkeychain.NewMaster(seed, nets[0])
		if err != nil {
			continue
		}
		var zs []uint32
		for i := 0; i < 3000 && len(zs) < 3; i++ {
			idx := uint32(1<<31) + uint32(i)
			if ch, err := m.Child(idx); err == nil {
				if sk, err := ch.ECPrivKey(); err == nil && sk.Serialize()[0] == 0 {
					zs = append(zs, idx)
				}
			}
		}
		if len(zs) < 2 {
			continue
		}
		calls := []Event{hdCfg(), {"op": "NewMaster", "dst": 1, "seed": ints(seed), "net": 1}}
		for j, ix := range zs {
			calls = append(calls, Event{"op": "Child", "src": 1, "dst": 2 + j, "idx": w32(ix)})
		}
		calls = append(calls, Event{"op": "Zero", "src": 2 + len(zs) - 1}, Event{"op": "Child", "src": 2, "dst": 7, "idx": w32(1)},
			Event{"op": "Child", "src": 1, "dst": 8, "idx": w32(zs[0])})
		c.Run(calls)
	}
	// keys assembled from caller-owned slices inside larger buffers
	for k := 0; k < c.Pick(16, 160); k++ {
		c.Run([]Event{hdCfg(), {"op": "PartsPurity", "seed": ints(randBytes(r, 32)), "private": k%2 == 0}})
	}
	// random histories on up to 8 keys
	for k := 0; k < c.Pick(60, 800); k++ {
		calls := []Event{hdCfg(), {"op": "NewMaster", "dst": 1, "seed": ints(randBytes(r, 32)), "net": 1}}
		live := map[int]bool{1: true}
		priv := map[int]bool{1: true}
		pick := func() int {
			var ids []int
			for id := 1; id <= 8; id++ {
				if live[id] {
					ids = append(ids, id)
				}
			}
			if len(ids) == 0 {
				return 0
			}
			return ids[r.Intn(len(ids))]
		}
		for s := 0; s < c.Pick(14, 40); s++ {
			src := pick()
			if src == 0 {
				calls = append(calls, Event{"op": "NewMaster", "dst": 1, "seed": ints(randBytes(r, 32)), "net": 1})
				live[1], priv[1] = true, true
				continue
			}
			dst := 1 + r.Intn(8)
			switch x := r.Intn(10); {
			case x < 3:
				ix := uint32(r.Intn(3))
				if priv[src] && r.Intn(2) == 0 {
					ix |= 1 << 31
				}
				calls = append(calls, Event{"op": "Child", "src": src, "dst": dst, "idx": w32(ix)})
				live[dst], priv[dst] = true, priv[src]
			case x < 5:
				if !priv[src] {
					dst = src // Neuter of a public key returns the key itself
				}
				calls = append(calls, Event{"op": "Neuter", "src": src, "dst": dst})
				live[dst], priv[dst] = true, false
			case x < 6:
				calls = append(calls, Event{"op": "SetNet", "src": src, "net": 1 + r.Intn(len(nets))})
			case x < 8:
				calls = append(calls, Event{"op": "Zero", "src": src})
				live[src] = false
			case x < 9:
				calls = append(calls, Event{"op": "Reparse", "src": src, "dst": dst})
				live[dst], priv[dst] = true, priv[src]
			default:
				calls = append(calls, Event{"op": "NewMaster", "dst": dst, "seed": ints(randBytes(r, 16+r.Intn(40))), "net": 1 + r.Intn(len(nets))})
				live[dst], priv[dst] = true, true
			}
		}
		c.Run(resolveReparse(calls))
	}
}

// resolveReparse turns the pseudo-op Reparse(src,dst) into Parse(dst, string of src): the
// string is only known while the history runs, so the op is kept and resolved by opHD.
func resolveReparse(calls []Event) []Event { return calls }

func indexByte(s string, b byte) int {
	for i := 0; i < len(s); i++ {
		if s[i] == b {
			return i
		}
	}
	return -1
}

// hdSharedFamilies: two families about memory shared between keys that matter for derivation (C04) as much as for
// independence (C15): several children with leading-zero scalars alive at once, and keys assembled from caller-owned
// slices inside larger buffers.
func hdSharedFamilies(c *Ctx, sib, parts int) {
	r := c.Rng
	for k := 0; k < sib; k++ {
		seed := randBytes(r, 32)
		m, err := hdkeychain.NewMaster(seed, nets[0])
		if err != nil {
			continue
		}
		var zs []uint32
		for i := 0; i < 3000 && len(zs) < 3; i++ {
			idx := uint32(1<<31) + uint32(i)
			if ch, err := m.Child(idx); err == nil {
				if sk, err := ch.ECPrivKey(); err == nil && sk.Serialize()[0] == 0 {
					zs = append(zs, idx)
				}
			}
		}
		if len(zs) < 2 {
			continue
		}
		calls := []Event{hdCfg(), {"op": "NewMaster", "dst": 1, "seed": ints(seed), "net": 1}}
		for j, ix := range zs {
			calls = append(calls, Event{"op": "Child", "src": 1, "dst": 2 + j, "idx": w32(ix)})
		}
		calls = append(calls, Event{"op": "Child", "src": 2, "dst": 7, "idx": w32(1)}, Event{"op": "Child", "src": 3, "dst": 8, "idx": w32(1 << 31)},
			Event{"op": "Child", "src": 1, "dst": 9, "idx": w32(zs[0])})
		c.Run(calls)
	}
	for k := 0; k < parts; k++ {
		c.Run([]Event{hdCfg(), {"op": "PartsPurity", "seed": ints(randBytes(r, 32)), "private": k%2 == 0}})
	}
}
