package main

// C10: transaction filtering and block scans.

import (
	"math"
	"sort"
	"time"

	"github.com/gcash/bchd/chaincfg/chainhash"
	"github.com/gcash/bchd/txscript"
	"github.com/gcash/bchd/wire"
	"github.com/gcash/bchutil"
	"github.com/gcash/bchutil/bloom"
	"github.com/gcash/bchutil/merkleblock"
)

func init() {
	ops["MatchTx"] = opMatchTx
	ops["ScanBlock"] = opScanBlock
	families["C10"] = runC10
	families["C11F"] = runC11F
}

// ---- abstract transaction descriptions ------------------------------------------------
// tx: {"outs":[{"kind":..,"item":k,"item2":k}], "ins":[{"parent":j|-1,"out":o,"sig":k|-1,"ext":n}]}

var itemPool [][]byte

func poolItem(k int) []byte {
	for len(itemPool) <= k {
		i := len(itemPool)
		b := make([]byte, 33)
		b[0] = 0x02 + byte(i%2)
		for j := 1; j < 33; j++ {
			b[j] = byte(i*37 + j*11)
		}
		itemPool = append(itemPool, b)
	}
	return itemPool[k]
}

func pushOp(d []byte) []byte {
	if len(d) == 0 {
		return []byte{0x4c, 0x00} // OP_PUSHDATA1 0: an empty push
	}
	if len(d) <= 75 {
		return append([]byte{byte(len(d))}, d...)
	}
	return append([]byte{0x4c, byte(len(d))}, d...)
}

func mkScript(kind string, it, it2 []byte) []byte {
	switch kind {
	case "pk": // <pubkey> CHECKSIG
		return append(pushOp(it), 0xac)
	case "ms": // 1 <pk1> <pk2> 2 CHECKMULTISIG
		s := append([]byte{0x51}, pushOp(it)...)
		s = append(s, pushOp(it2)...)
		return append(s, 0x52, 0xae)
	case "pkh": // DUP HASH160 <20> EQUALVERIFY CHECKSIG
		s := append([]byte{0x76, 0xa9}, pushOp(it[:20])...)
		return append(s, 0x88, 0xac)
	case "push": // bare data push of 5 bytes + OP_DROP
		return append(pushOp(it[:5]), 0x75)
	case "empty":
		return []byte{0x4c, 0x00, 0x51}
	case "op0":
		return []byte{0x00, 0x51}
	case "trunc": // a complete push followed by a truncated one
		s := pushOp(it[:7])
		return append(s, 0x20, 0x01, 0x02)
	case "return":
		return append([]byte{0x6a}, pushOp(it[:9])...)
	case "emptyscript":
		return []byte{}
	case "pushfull": // the whole item as a bare push + OP_DROP: matches like a public key but is not pay-to-pubkey
		return append(pushOp(it), 0x75)
	}
	return []byte{0x51}
}

// pushes of the item as it appears in the script of that kind (for filter contents)
func scriptItem(kind string, it []byte) []byte {
	switch kind {
	case "pkh":
		return it[:20]
	case "push":
		return it[:5]
	case "trunc":
		return it[:7]
	case "return":
		return it[:9]
	}
	return it
}

// prefixPushes is the harness' own tokenizer: the data pushes before a parse error.
func prefixPushes(s []byte) [][]byte {
	var out [][]byte
	i := 0
	for i < len(s) {
		op := s[i]
		i++
		n := -1
		switch {
		case op == 0x00:
			out = append(out, []byte{})
			continue
		case op >= 0x01 && op <= 0x4b:
			n = int(op)
		case op == 0x4c:
			if i+1 > len(s) {
				return out
			}
			n = int(s[i])
			i++
		case op == 0x4d:
			if i+2 > len(s) {
				return out
			}
			n = int(s[i]) | int(s[i+1])<<8
			i += 2
		case op == 0x4e:
			if i+4 > len(s) {
				return out
			}
			n = int(s[i]) | int(s[i+1])<<8 | int(s[i+2])<<16 | int(s[i+3])<<24
			i += 4
		default:
			continue
		}
		if n < 0 || i+n > len(s) {
			return out
		}
		out = append(out, append([]byte{}, s[i:i+n]...))
		i += n
	}
	return out
}

func bytesList(l [][]byte) [][]int {
	out := [][]int{}
	for _, x := range l {
		out = append(out, ints(x))
	}
	return out
}

func scriptFacts(s []byte) map[string]interface{} {
	pd, err := txscript.PushedData(s)
	cls := txscript.GetScriptClass(s)
	c := "other"
	if cls == txscript.PubKeyTy {
		c = "pubkey"
	} else if cls == txscript.MultiSigTy {
		c = "multisig"
	}
	m := map[string]interface{}{"pushes": bytesList(pd), "perr": err != nil, "prefix": [][]int{}, "class": c}
	if err != nil {
		m["prefix"] = bytesList(prefixPushes(s))
	}
	return m
}

// txFacts projects a wire transaction into the record the specification reads.
func txFacts(tx *wire.MsgTx) map[string]interface{} {
	h := tx.TxHash()
	outs := []interface{}{}
	for _, o := range tx.TxOut {
		outs = append(outs, scriptFacts(o.PkScript))
	}
	ins := []interface{}{}
	for _, in := range tx.TxIn {
		m := scriptFacts(in.SignatureScript)
		m["ptxid"] = ints(in.PreviousOutPoint.Hash[:])
		m["pidx"] = w32(in.PreviousOutPoint.Index)
		delete(m, "class")
		ins = append(ins, m)
	}
	return map[string]interface{}{"txid": ints(h[:]), "outs": outs, "ins": ins}
}

// buildTxs realises abstract descriptions in topological order (parents first).
func buildTxs(desc []interface{}, salt int) []*wire.MsgTx {
	txs := make([]*wire.MsgTx, len(desc))
	for i, d := range desc {
		dm := d.(map[string]interface{})
		tx := wire.NewMsgTx(1)
		for _, in := range gList(dm, "ins") {
			im := in.(map[string]interface{})
			var prev chainhash.Hash
			par := gInt(im, "parent")
			if par >= 0 && par < i {
				prev = txs[par].TxHash()
			} else {
				prev = chainhash.Hash{0xEE, byte(salt), byte(salt >> 8), byte(gInt(im, "ext")), byte(i)}
			}
			sig := []byte{0x51}
			if k := gInt(im, "sig"); k >= 0 {
				sig = append(pushOp(poolItem(k)[:8]), pushOp(poolItem(k))...)
			}
			switch gInt(im, "sig") { // unparsable signature scripts of several kinds
			case -2:
				sig = []byte{0x05, 0x01}
			case -3:
				sig = []byte{0x4c}
			case -4:
				sig = []byte{0x01, 0x07, 0x4d, 0xff}
			case -5:
				sig = append(pushOp(poolItem(1)), 0x4e, 0x01, 0x00)
			}
			tx.AddTxIn(wire.NewTxIn(wire.NewOutPoint(&prev, uint32(gInt(im, "out"))), sig))
		}
		for oi, o := range gList(dm, "outs") {
			om := o.(map[string]interface{})
			tx.AddTxOut(wire.NewTxOut(int64(1000+oi+i*10), mkScript(gName(om, "kind"), poolItem(gInt(om, "item")), poolItem(gInt(om, "item2"))), wire.TokenData{}))
		}
		tx.LockTime = uint32(salt)
		txs[i] = tx
	}
	return txs
}

func opMatchTx(h *HState, a Event) Event {
	o, _ := h.Obj["f"].(*bloomObj)
	if o == nil || o.dead {
		return Event{"op": "Skipped", "orig": "MatchTx"}
	}
	txs := buildTxs(gList(a, "desc"), gInt(a, "salt"))
	tx := txs[len(txs)-1]
	e := with(a, "tx", txFacts(tx), "ret", false)
	p, msg, hung := guardT(20*time.Second, func() { e["ret"] = o.f.MatchTxAndUpdate(bchutil.NewTx(tx)) })
	if p || hung {
		if hung {
			msg = "hang"
		}
		e["panic"] = msg
		o.dead = true
		return e
	}
	if gBool(a, "noobs") {
		return e
	}
	e["post"] = post(o, false)
	return e
}

func filterItems(a Event, txs []*wire.MsgTx) [][]byte {
	var items [][]byte
	for _, fi := range gList(a, "fitems") {
		m := fi.(map[string]interface{})
		switch gName(m, "t") {
		case "txid":
			h := txs[gInt(m, "i")].TxHash()
			items = append(items, append([]byte{}, h[:]...))
		case "item":
			items = append(items, scriptItem(gName(m, "kind"), poolItem(gInt(m, "k"))))
		case "outpoint":
			h := txs[gInt(m, "i")].TxHash()
			b := append([]byte{}, h[:]...)
			idx := uint32(gInt(m, "o"))
			items = append(items, append(b, byte(idx), byte(idx>>8), byte(idx>>16), byte(idx>>24)))
		case "sig":
			items = append(items, poolItem(gInt(m, "k"))[:8])
		case "extout": // the outpoint spent by an input without an in-block parent (same synthetic hash as buildTxs)
			salt := gInt(a, "salt")
			b := []byte{0xEE, byte(salt), byte(salt >> 8), byte(gInt(m, "ext")), byte(gInt(m, "i"))}
			b = append(b, make([]byte, 27)...)
			idx := uint32(gInt(m, "o"))
			items = append(items, append(b, byte(idx), byte(idx>>8), byte(idx>>16), byte(idx>>24)))
		}
	}
	return items
}

func opScanBlock(_ *HState, a Event) Event {
	txs := buildTxs(gList(a, "desc"), gInt(a, "salt"))
	var order []int
	for _, x := range gList(a, "order") {
		order = append(order, int(x.(float64)))
	}
	items := filterItems(a, txs)
	blk := wire.NewMsgBlock(wire.NewBlockHeader(1, &chainhash.Hash{9}, &chainhash.Hash{}, 0x1d00ffff, uint32(gInt(a, "salt"))))
	blk.Header.Timestamp = time.Unix(1600000000+int64(gInt(a, "salt")%100000), 0) // not the clock: the call is a function of its arguments
	var facts []interface{}
	for _, i := range order {
		blk.AddTransaction(txs[i])
		facts = append(facts, txFacts(txs[i]))
	}
	mk := func() *bloom.Filter {
		f := bloom.LoadFilter(wire.NewMsgFilterLoad(make([]byte, gInt(a, "nbytes")), uint32(gInt(a, "nhash")), gW32(a, "tweak"), wire.BloomUpdateType(gInt(a, "flags"))))
		for _, it := range items {
			f.Add(it)
		}
		return f
	}
	e := with(a, "txs", facts, "items", bytesList(items), "reported", []int{}, "reported2", []int{}, "reported3", []int{})
	p, msg, hung := guardT(60*time.Second, func() {
		f1 := mk()
		m := bloom.GetMatchedIndices(bchutil.NewBlock(blk), f1)
		var rep []int
		for k, v := range m {
			if v {
				rep = append(rep, k)
			}
		}
		sort.Ints(rep)
		if rep == nil {
			rep = []int{}
		}
		e["reported"] = rep
		o := &bloomObj{f: f1}
		e["final"] = post(o, true)
		_, i2 := bloom.NewMerkleBlock(bchutil.NewBlock(blk), mk())
		_, i3 := merkleblock.NewMerkleBlockWithFilter(bchutil.NewBlock(blk), mk())
		r2, r3 := []int{}, []int{}
		for _, x := range i2 {
			r2 = append(r2, int(x))
		}
		for _, x := range i3 {
			r3 = append(r3, int(x))
		}
		e["reported2"], e["reported3"] = r2, r3
	})
	if hung {
		p, msg = true, "block scan did not return within 60s (hang)"
	}
	return panicField(e, p, msg)
}

// ---- generators -----------------------------------------------------------------------

var outKinds = []string{"pk", "ms", "pkh", "push", "empty", "op0", "trunc", "return"}

func randDesc(c *Ctx, n, pool int) []interface{} {
	r := c.Rng
	var desc []interface{}
	for i := 0; i < n; i++ {
		nout := 1 + r.Intn(3)
		var outs []interface{}
		for o := 0; o < nout; o++ {
			outs = append(outs, map[string]interface{}{"kind": outKinds[r.Intn(len(outKinds))], "item": r.Intn(pool), "item2": r.Intn(pool)})
		}
		var ins []interface{}
		nin := 1 + r.Intn(2)
		for k := 0; k < nin; k++ {
			par := -1
			out := r.Intn(3)
			if i > 0 && r.Intn(3) != 0 {
				par = r.Intn(i)
				out = r.Intn(len(gList(desc[par].(map[string]interface{}), "outs")))
			}
			sig := -1
			switch r.Intn(6) {
			case 0:
				sig = r.Intn(pool)
			case 1:
				sig = -2
			}
			ins = append(ins, map[string]interface{}{"parent": par, "out": out, "sig": sig, "ext": r.Intn(200)})
		}
		desc = append(desc, map[string]interface{}{"outs": outs, "ins": ins})
	}
	return desc
}

func randFItems(c *Ctx, desc []interface{}, pool int) []interface{} {
	r := c.Rng
	var f []interface{}
	for k := 0; k < 1+r.Intn(3); k++ {
		switch r.Intn(5) {
		case 0:
			f = append(f, map[string]interface{}{"t": "txid", "i": r.Intn(len(desc))})
		case 1, 2:
			f = append(f, map[string]interface{}{"t": "item", "k": r.Intn(pool), "kind": outKinds[r.Intn(len(outKinds))]})
		case 3:
			i := r.Intn(len(desc))
			f = append(f, map[string]interface{}{"t": "outpoint", "i": i, "o": r.Intn(3)})
		case 4:
			f = append(f, map[string]interface{}{"t": "sig", "k": r.Intn(pool)})
		}
	}
	return f
}

// scanCases replays the configurations sampled by TLC from the design-level scan model (MC_TxScan):
// three transactions created in the order 1,2,3, the abstract output kinds realised as scripts, the spend
// relation as inputs, the initial filter contents as inserted items, in all six block orders.
func scanCases(c *Ctx) {
	perms := [][]int{{0, 1, 2}, {0, 2, 1}, {1, 0, 2}, {1, 2, 0}, {2, 0, 1}, {2, 1, 0}}
	for ci, cs := range readCases(c.Cases) {
		var desc []interface{}
		for t, ol := range gList(cs, "outs") {
			var outs []interface{}
			for _, o := range ol.([]interface{}) {
				om := o.(map[string]interface{})
				kind := "none"
				if om["push"].(bool) {
					kind = "pushfull"
					if om["pk"].(bool) {
						kind = "pk"
					}
				}
				outs = append(outs, map[string]interface{}{"kind": kind, "item": 0, "item2": 1})
			}
			var ins []interface{}
			for _, sp := range gList(cs, "sp")[t].([]interface{}) {
				pr := sp.([]interface{})
				ins = append(ins, map[string]interface{}{"parent": int(pr[0].(float64)) - 1, "out": int(pr[1].(float64)) - 1, "sig": -1, "ext": 0})
			}
			if len(ins) == 0 {
				ins = append(ins, map[string]interface{}{"parent": -1, "out": t, "sig": -1, "ext": ci % 200})
			}
			desc = append(desc, map[string]interface{}{"outs": outs, "ins": ins})
		}
		var fit []interface{}
		for _, el := range gList(cs, "i0") {
			l := el.([]interface{})
			if l[0].(string) == "item" {
				fit = append(fit, map[string]interface{}{"t": "item", "k": 0, "kind": "pk"})
			} else {
				fit = append(fit, map[string]interface{}{"t": "txid", "i": int(l[1].(float64)) - 1})
			}
		}
		if fit == nil {
			fit = []interface{}{}
		}
		for _, ord := range perms {
			c.Call(Event{"op": "ScanBlock", "desc": desc, "order": ord, "fitems": fit, "salt": 7000 + ci%50000, "flags": gInt(cs, "flags"), "nbytes": 4096, "nhash": 3, "tweak": w32(uint32(ci)), "src": "MC_TxScan"})
		}
	}
}

// twoSpenderScans: a parent with two (or three) matching outputs and one spender per output that is relevant only
// through the spent outpoint, in all block orders and under the two updating flags.
func twoSpenderScans(c *Ctx, rounds int) {
	perms3 := [][]int{{0, 1, 2}, {0, 2, 1}, {1, 0, 2}, {1, 2, 0}, {2, 0, 1}, {2, 1, 0}}
	for k := 0; k < rounds; k++ {
		kind := []string{"pk", "ms"}[k%2]
		nsp := 2 + k%2
		var outs []interface{}
		for o := 0; o < nsp; o++ {
			outs = append(outs, map[string]interface{}{"kind": kind, "item": 0, "item2": 1 + o})
		}
		desc := []interface{}{map[string]interface{}{"outs": outs, "ins": []interface{}{map[string]interface{}{"parent": -1, "out": 0, "sig": -1, "ext": k % 200}}}}
		for o := 0; o < nsp; o++ {
			desc = append(desc, map[string]interface{}{"outs": []interface{}{map[string]interface{}{"kind": "push", "item": 3, "item2": 3}},
				"ins": []interface{}{map[string]interface{}{"parent": 0, "out": o, "sig": -1, "ext": o}}})
		}
		orders := perms3
		if nsp == 3 {
			orders = [][]int{{0, 1, 2, 3}, {3, 2, 1, 0}, {1, 2, 3, 0}, {2, 3, 1, 0}, {1, 3, 0, 2}, {3, 0, 1, 2}}
		}
		for _, ord := range orders {
			c.Call(Event{"op": "ScanBlock", "desc": desc, "order": ord, "fitems": []interface{}{map[string]interface{}{"t": "item", "k": 0, "kind": kind}},
				"salt": 5200 + k, "flags": 1 + k%2, "nbytes": 4096, "nhash": 3, "tweak": w32(uint32(k)), "src": "two-spenders"})
		}
	}
}

// C11F: the filter-induced index lists of the two proof builders (reported2 / reported3 of a ScanBlock event) on
// blocks with intra-block spends -- the part of C11 that is about WHICH transactions a filter selects.
func runC11F(c *Ctx) {
	c.Conc = true // block scans are stateless calls: replayed in other orders and from 8 goroutines at once
	c.Batch = 10
	twoSpenderScans(c, c.Pick(8, 60))
	r := c.Rng
	for k := 0; k < c.Pick(60, 600); k++ {
		n := 2 + r.Intn(5)
		desc := randDesc(c, n, 4)
		fit := randFItems(c, desc, 4)
		topo, rev := make([]int, n), make([]int, n)
		for i := range topo {
			topo[i], rev[i] = i, n-1-i
		}
		for _, ord := range [][]int{topo, rev, r.Perm(n)} {
			c.Call(Event{"op": "ScanBlock", "desc": desc, "order": ord, "fitems": fit, "salt": int(r.Int31n(60000)), "flags": k % 3, "nbytes": 4096, "nhash": 3, "tweak": w32(uint32(k))})
		}
	}
}

func runC10(c *Ctx) {
	c.Conc = true // block scans are stateless calls: replayed in other orders and from 8 goroutines at once
	c.DeferredOp = "BloomObserve"
	r := c.Rng
	// single transactions against a filter: result and post-state exact
	for k := 0; k < c.Pick(120, 1500); k++ {
		n := 1 + r.Intn(3)
		pool := 3
		nb := []int{2, 8, 64, 512}[k%4]
		nh := []int{1, 2, 3, 5}[(k/4)%4]
		calls := []Event{loadCall(c, "LoadFilter", nb, nh, randTweak(c, k), k%3, true)}
		// realise the items the filter should contain
		desc := randDesc(c, n, pool)
		salt := int(r.Int31n(60000))
		txs := buildTxs(desc, salt)
		for _, it := range filterItems(Event{"fitems": randFItems(c, desc, pool)}, txs) {
			calls = append(calls, Event{"op": "Add", "item": ints(it)})
		}
		for i := 1; i <= n; i++ {
			calls = append(calls, Event{"op": "MatchTx", "desc": desc[:i], "salt": salt})
		}
		// and once more: the filter may now contain outpoints added by the first pass
		calls = append(calls, Event{"op": "MatchTx", "desc": desc[:n], "salt": salt})
		c.Run(calls)
	}
	// several inputs, the first ones with unparsable / irrelevant scripts, the reason for relevance in a LATER input (its
	// outpoint or a push of its script): every input is looked at
	for k := 0; k < c.Pick(40, 400); k++ {
		bad := []int{-2, -3, -4, -5}[k%4]
		var ins []interface{}
		switch (k / 4) % 3 {
		case 0:
			ins = []interface{}{map[string]interface{}{"parent": -1, "out": 1, "sig": bad, "ext": 11}, map[string]interface{}{"parent": -1, "out": 2, "sig": 0, "ext": 12}}
		case 1:
			ins = []interface{}{map[string]interface{}{"parent": -1, "out": 1, "sig": -1, "ext": 11}, map[string]interface{}{"parent": -1, "out": 2, "sig": bad, "ext": 12},
				map[string]interface{}{"parent": -1, "out": 3, "sig": 0, "ext": 13}}
		case 2:
			ins = []interface{}{map[string]interface{}{"parent": -1, "out": 1, "sig": bad, "ext": 11}, map[string]interface{}{"parent": -1, "out": 2, "sig": bad, "ext": 12},
				map[string]interface{}{"parent": -1, "out": 7, "sig": -1, "ext": 13}}
		}
		desc := []interface{}{map[string]interface{}{"outs": []interface{}{map[string]interface{}{"kind": "push", "item": 2, "item2": 2}}, "ins": ins}}
		salt := int(r.Int31n(60000))
		txs := buildTxs(desc, salt)
		var fit []interface{}
		if (k/4)%3 == 2 { // the outpoint the LAST input spends
			fit = []interface{}{map[string]interface{}{"t": "extout", "i": 0, "ext": 13, "o": int64(7)}}
		} else { // a push of the last input's script
			fit = []interface{}{map[string]interface{}{"t": "sig", "k": 0}}
		}
		calls := []Event{loadCall(c, "LoadFilter", []int{64, 512}[k%2], 1+k%3, randTweak(c, k), k%3, true)}
		for _, it := range filterItems(Event{"fitems": fit}, txs) {
			calls = append(calls, Event{"op": "Add", "item": ints(it)})
		}
		calls = append(calls, Event{"op": "MatchTx", "desc": desc, "salt": salt})
		c.Run(calls)
		c.Call(Event{"op": "ScanBlock", "desc": desc, "order": []int{0}, "fitems": fit, "salt": salt, "flags": k % 3, "nbytes": 512, "nhash": 3, "tweak": w32(uint32(k))})
	}
	// saturated tiny filters (8 or 16 bits): an insertion often flips no bit at all -- "the filter did not change" says
	// nothing about what a spender seen earlier would match now.  Parent, a second matching transaction, the parent's
	// spender, in every block order.
	for k := 0; k < c.Pick(12, 100); k++ {
		pkOut := map[string]interface{}{"kind": "pk", "item": 0, "item2": 0}
		other := map[string]interface{}{"kind": "push", "item": 2, "item2": 2}
		desc := []interface{}{
			map[string]interface{}{"outs": []interface{}{pkOut}, "ins": []interface{}{map[string]interface{}{"parent": -1, "out": 0, "sig": -1, "ext": k % 200}}},
			map[string]interface{}{"outs": []interface{}{pkOut, pkOut}, "ins": []interface{}{map[string]interface{}{"parent": -1, "out": 1, "sig": -1, "ext": (k + 50) % 200}}},
			map[string]interface{}{"outs": []interface{}{other}, "ins": []interface{}{map[string]interface{}{"parent": 0, "out": 0, "sig": -1, "ext": 0}}},
			map[string]interface{}{"outs": []interface{}{other}, "ins": []interface{}{map[string]interface{}{"parent": 1, "out": 1, "sig": -1, "ext": 0}}},
		}
		n := 3 + k%2
		var perms [][]int
		var rec func(p []int)
		rec = func(p []int) {
			if len(p) == n {
				perms = append(perms, append([]int{}, p...))
				return
			}
			for i := 0; i < n; i++ {
				used := false
				for _, x := range p {
					used = used || x == i
				}
				if !used {
					rec(append(p, i))
				}
			}
		}
		rec(nil)
		salt := int(r.Int31n(60000))
		for _, ord := range perms {
			c.Call(Event{"op": "ScanBlock", "desc": desc[:n], "order": ord, "fitems": []interface{}{map[string]interface{}{"t": "item", "k": 0, "kind": "pk"}},
				"salt": salt, "flags": 1 + k%2, "nbytes": 1 + k%2, "nhash": 1, "tweak": w32(uint32(k))})
		}
	}
	// output match -> outpoint update -> the spender matches only through that outpoint
	for k := 0; k < c.Pick(150, 1500); k++ {
		kind := outKinds[k%len(outKinds)]
		nout := 1 + r.Intn(3)
		j := r.Intn(nout)
		var outs []interface{}
		for o := 0; o < nout; o++ {
			kd := outKinds[r.Intn(len(outKinds))]
			it := 1 + r.Intn(2)
			if o == j {
				kd, it = kind, 0
			}
			outs = append(outs, map[string]interface{}{"kind": kd, "item": it, "item2": 2})
		}
		desc := []interface{}{
			map[string]interface{}{"outs": outs, "ins": []interface{}{map[string]interface{}{"parent": -1, "out": 0, "sig": -1, "ext": k % 200}}},
			map[string]interface{}{"outs": []interface{}{map[string]interface{}{"kind": "push", "item": 2, "item2": 2}},
				"ins": []interface{}{map[string]interface{}{"parent": 0, "out": j, "sig": -1, "ext": 0}}},
			map[string]interface{}{"outs": []interface{}{map[string]interface{}{"kind": "push", "item": 2, "item2": 2}},
				"ins": []interface{}{map[string]interface{}{"parent": 0, "out": (j + 1) % 3, "sig": -1, "ext": 0}}},
		}
		salt := int(r.Int31n(60000))
		nb := []int{64, 512, 4096}[k%3]
		calls := []Event{loadCall(c, "LoadFilter", nb, 1+k%4, randTweak(c, k), (k/3)%3, true),
			{"op": "Add", "item": ints(scriptItem(kind, poolItem(0)))},
			{"op": "MatchTx", "desc": desc[:1], "salt": salt}, // the output matches; the filter may learn the outpoint
			{"op": "MatchTx", "desc": desc[:2], "salt": salt}, // spends exactly that output
			{"op": "MatchTx", "desc": desc[:3], "salt": salt}, // spends a neighbouring output
			{"op": "MatchTx", "desc": desc[:1], "salt": salt}}
		c.Run(calls)
	}
	// twin outputs: two neighbouring outputs with byte-identical matching scripts; each must get its own outpoint
	for k := 0; k < c.Pick(48, 400); k++ {
		kind := []string{"pk", "ms", "pkh", "push"}[k%4]
		twin := map[string]interface{}{"kind": kind, "item": 0, "item2": 1}
		outs := []interface{}{twin, twin}
		if k%3 == 0 {
			outs = []interface{}{map[string]interface{}{"kind": "push", "item": 2, "item2": 2}, twin, twin, twin}
		}
		last := len(outs) - 1
		other := []interface{}{map[string]interface{}{"kind": "push", "item": 3, "item2": 3}}
		desc := []interface{}{
			map[string]interface{}{"outs": outs, "ins": []interface{}{map[string]interface{}{"parent": -1, "out": 0, "sig": -1, "ext": k % 200}}},
			map[string]interface{}{"outs": other, "ins": []interface{}{map[string]interface{}{"parent": 0, "out": last, "sig": -1, "ext": 0}}},
			map[string]interface{}{"outs": other, "ins": []interface{}{map[string]interface{}{"parent": 0, "out": last - 1, "sig": -1, "ext": 1}}},
		}
		salt := int(r.Int31n(60000))
		fl := 1 + k%2 // update-all, and pubkey-only
		c.Run([]Event{loadCall(c, "LoadFilter", 512, 1+k%4, randTweak(c, k), fl, true),
			{"op": "Add", "item": ints(scriptItem(kind, poolItem(0)))},
			{"op": "MatchTx", "desc": desc[:1], "salt": salt}, {"op": "MatchTx", "desc": desc[:2], "salt": salt}, {"op": "MatchTx", "desc": desc[:3], "salt": salt}})
		for _, ord := range [][]int{{0, 1, 2}, {2, 1, 0}, {1, 0, 2}} {
			c.Call(Event{"op": "ScanBlock", "desc": desc, "order": ord, "fitems": []interface{}{map[string]interface{}{"t": "item", "k": 0, "kind": kind}},
				"salt": salt, "flags": fl, "nbytes": 4096, "nhash": 3, "tweak": w32(uint32(k)), "src": "twins"})
		}
	}
	// spent outpoints at the index boundaries (0xffffffff is only "null" together with the zero hash)
	for k, idx := range []uint32{0, 1, 255, 256, 65535, 65536, 1 << 24, 1 << 31, math.MaxUint32 - 1, math.MaxUint32} {
		desc := []interface{}{map[string]interface{}{"outs": []interface{}{map[string]interface{}{"kind": "push", "item": 2, "item2": 2}},
			"ins": []interface{}{map[string]interface{}{"parent": -1, "out": int64(idx), "sig": -1, "ext": 9}}}}
		salt := 3100 + k
		prev := append([]byte{0xEE, byte(salt), byte(salt >> 8), 9, 0}, make([]byte, 27)...)
		c.Run([]Event{loadCall(c, "LoadFilter", 512, 1+k%4, randTweak(c, k), k%3, true),
			{"op": "AddOutPoint", "txid": ints(prev), "idx": w32(idx)},
			{"op": "MatchTx", "desc": desc, "salt": salt}})
		c.Call(Event{"op": "ScanBlock", "desc": desc, "order": []int{0}, "fitems": []interface{}{map[string]interface{}{"t": "extout", "i": 0, "ext": 9, "o": int64(idx)}},
			"salt": salt, "flags": k % 3, "nbytes": 4096, "nhash": 3, "tweak": w32(uint32(k)), "src": "extout"})
	}
	// a filter that is queried while its bit array is still empty and then receives a populated message through Reload
	for k := 0; k < c.Pick(12, 120); k++ {
		nb, nh, fl := []int{8, 64, 512}[k%3], 1+k%4, k%3
		tweak := randTweak(c, k)
		plan := bloom.LoadFilter(wire.NewMsgFilterLoad(make([]byte, nb), uint32(nh), tweak, wire.BloomUpdateType(fl)))
		plan.Add(poolItem(0))
		bits := []int{}
		for i, b := range plan.MsgFilterLoad().Filter {
			for j := 0; j < 8; j++ {
				if b&(1<<uint(j)) != 0 {
					bits = append(bits, i*8+j)
				}
			}
		}
		desc := []interface{}{
			map[string]interface{}{"outs": []interface{}{map[string]interface{}{"kind": "pk", "item": 0, "item2": 1}}, "ins": []interface{}{map[string]interface{}{"parent": -1, "out": 0, "sig": -1, "ext": k % 200}}},
			map[string]interface{}{"outs": []interface{}{map[string]interface{}{"kind": "push", "item": 2, "item2": 2}}, "ins": []interface{}{map[string]interface{}{"parent": 0, "out": 0, "sig": -1, "ext": 0}}},
		}
		salt := int(r.Int31n(60000))
		empty := Event{"op": "LoadFilter", "nil": false, "nbytes": nb, "nhash": nh, "tweak": w32(tweak), "flags": fl, "setbits": []int{}}
		c.Run([]Event{empty, {"op": "MatchTx", "desc": desc[:1], "salt": salt}, {"op": "Matches", "item": ints(poolItem(0))},
			{"op": "Reload", "nil": false, "nbytes": nb, "nhash": nh, "tweak": w32(tweak), "flags": fl, "setbits": bits},
			{"op": "Matches", "item": ints(poolItem(0))}, {"op": "MatchTx", "desc": desc[:1], "salt": salt}, {"op": "MatchTx", "desc": desc[:2], "salt": salt}})
	}
	// block scans: random spend DAGs in topological, reverse and random order
	c.Batch = 10
	twoSpenderScans(c, c.Pick(8, 60))
	scanCases(c)
	// chains and DAGs in which every transaction is relevant and spends several outputs of its parents, children
	// first: the re-check of dependants must not revisit matched transactions exponentially often (60 s deadline)
	for _, n := range []int{6, 26, c.Pick(40, 150)} {
		for _, fib := range []bool{false, true} {
			var desc []interface{}
			for i := 0; i < n; i++ {
				outs := []interface{}{map[string]interface{}{"kind": "pk", "item": 0, "item2": 1}, map[string]interface{}{"kind": "pk", "item": 0, "item2": 1}}
				var ins []interface{}
				for k := 0; k < 2; k++ {
					par, out := i-1, k
					if fib {
						par, out = i-1-k, 0
					}
					if par < 0 {
						par = -1
					}
					ins = append(ins, map[string]interface{}{"parent": par, "out": out, "sig": -1, "ext": k})
				}
				desc = append(desc, map[string]interface{}{"outs": outs, "ins": ins})
			}
			rev := make([]int, n)
			for i := range rev {
				rev[i] = n - 1 - i
			}
			for fl := 0; fl < 3; fl++ {
				c.Call(Event{"op": "ScanBlock", "desc": desc, "order": rev, "fitems": []interface{}{map[string]interface{}{"t": "item", "k": 0, "kind": "pk"}},
					"salt": 4242 + n, "flags": fl, "nbytes": 4096, "nhash": 3, "tweak": w32(uint32(n)), "src": "chain"})
			}
		}
	}
	for k := 0; k < c.Pick(260, 2500); k++ {
		n := 2 + r.Intn(5)
		if k%25 == 0 {
			n = c.Pick(20, 120)
		}
		pool := 4
		desc := randDesc(c, n, pool)
		fit := randFItems(c, desc, pool)
		salt := int(r.Int31n(60000))
		orders := [][]int{}
		topo := make([]int, n)
		rev := make([]int, n)
		for i := range topo {
			topo[i] = i
			rev[i] = n - 1 - i
		}
		orders = append(orders, topo, rev, r.Perm(n))
		if n <= 4 && c.Thorough() {
			orders = append(orders, r.Perm(n), r.Perm(n), r.Perm(n))
		}
		nb, nh := 4096, 3
		if k%6 == 5 { // a tiny filter: false positives happen, the sandwich matters
			nb, nh = 2, 2
		}
		for _, ord := range orders {
			c.Call(Event{"op": "ScanBlock", "desc": desc, "order": ord, "fitems": fit, "salt": salt, "flags": k % 3, "nbytes": nb, "nhash": nh, "tweak": w32(uint32(k))})
		}
	}
}
