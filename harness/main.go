package main

import (
	"bufio"
	"encoding/json"
	"flag"
	"fmt"
	"math/rand"
	"os"
	"sort"
	"strings"
)

var families = map[string]func(*Ctx){}

func main() {
	if len(os.Args) < 2 {
		fatal("usage: vh <family> [flags]")
	}
	fam := os.Args[1]
	fs := flag.NewFlagSet(fam, flag.ExitOnError)
	tier := fs.String("tier", "quick", "quick|thorough")
	seed := fs.Int64("seed", 1, "seed")
	cases := fs.String("cases", "", "TLC generated cases (ndjson)")
	replay := fs.String("replay", "", "replay file")
	out := fs.String("out", "trace.ndjson", "trace output")
	stats := fs.String("stats", "", "stats output (json)")
	batch := fs.Int("batch", 200, "events per batch history")
	args := fs.String("arg", "", "k=v,k=v family arguments")
	fs.Parse(os.Args[2:])
	fn, ok := families[fam]
	if !ok {
		var names []string
		for k := range families {
			names = append(names, k)
		}
		sort.Strings(names)
		fatal("unknown family %q (have %v)", fam, names)
	}
	f, err := os.Create(*out)
	if err != nil {
		fatal("%v", err)
	}
	c := &Ctx{Tier: *tier, Seed: *seed, Rng: rand.New(rand.NewSource(*seed)), Cases: *cases,
		Replay: *replay, out: bufio.NewWriterSize(f, 1<<20), f: f, Batch: *batch,
		OpCnt: map[string]int{}, Arg: map[string]string{}}
	for _, kv := range strings.Split(*args, ",") {
		if p := strings.SplitN(kv, "=", 2); len(p) == 2 {
			c.Arg[p[0]] = p[1]
		}
	}
	// a generator that dies on something the code under test returned (an empty string where it builds on it, ...) must
	// not take the run with it: what was recorded so far is still judged, and the abort is reported in the stats (the
	// driver turns it into exit 2 only if nothing was rejected)
	aborted := ""
	func() {
		defer func() {
			if r := recover(); r != nil {
				aborted = fmt.Sprintf("%v", r)
			}
		}()
		fn(c)
	}()
	c.ConcurrentReplay()
	c.DeferredCheck()
	c.RetainCheck()
	c.Flush()
	c.out.Flush()
	f.Close()
	st := map[string]interface{}{"family": fam, "histories": c.nh, "events": c.NEv, "ops": c.OpCnt, "aborted": aborted}
	b, _ := json.Marshal(st)
	if *stats != "" {
		os.WriteFile(*stats, b, 0o644)
	}
	fmt.Println(string(b))
}

func init() {
	families["replay"] = func(c *Ctx) {
		b, err := os.ReadFile(c.Replay)
		if err != nil {
			fatal("replay: %v", err)
		}
		var rec struct {
			History []Event `json:"history"`
		}
		if err := json.Unmarshal(b, &rec); err != nil {
			fatal("replay: %v", err)
		}
		c.Run(rec.History)
	}
}
