package main

// C03 binding to the implementation's own remainder functions (verif hooks).

import (
	"encoding/json"
	"os"

	"github.com/gcash/bchutil"
	"github.com/gcash/bchutil/bech32"
)

func init() {
	ops["CashTable"] = opCashTable
	ops["BechTable"] = opBechTable
	ops["PolyAffine"] = opPolyAffine
	ops["PolySparse"] = opPolySparse
	families["C03table"] = runC03Table
}

func pack40(v uint64) []int { return []int{int(v >> 20), int(v & 0xFFFFF)} }
func pack30(v int) []int    { return []int{v >> 15, v & 0x7FFF} }

func implPoly(code string, w []byte) []int {
	if code == "cash" {
		return pack40(bchutil.VerifPolyMod(w))
	}
	vals := make([]int, len(w))
	for i, x := range w {
		vals[i] = int(x)
	}
	return pack30(bech32.VerifPolymod(vals))
}

func xor2(a, b []int) []int { return []int{a[0] ^ b[0], a[1] ^ b[1]} }

// implTable returns T[p][a-1] = P(a x^p) xor P(0) for words of length n.
func implTable(code string, w, n int) [][][]int {
	zero := make([]byte, n)
	p0 := implPoly(code, zero)
	t := make([][][]int, w)
	for p := 0; p < w; p++ {
		t[p] = make([][]int, 31)
		for a := 1; a <= 31; a++ {
			word := make([]byte, n)
			word[n-1-p] = byte(a)
			t[p][a-1] = xor2(implPoly(code, word), p0)
		}
	}
	return t
}

func opCashTable(_ *HState, a Event) Event {
	w := gInt(a, "w")
	return with(a, "t", implTable("cash", w, w+gInt(a, "lead")))
}
func opBechTable(_ *HState, a Event) Event {
	w := gInt(a, "w")
	return with(a, "t", implTable("bech", w, w+gInt(a, "lead")))
}

func opPolyAffine(_ *HState, a Event) Event {
	code := gName(a, "code")
	u, v := gBytes(a, "u"), gBytes(a, "v")
	uv := make([]byte, len(u))
	for i := range u {
		uv[i] = u[i] ^ v[i]
	}
	return with(a, "pu", implPoly(code, u), "pv", implPoly(code, v), "puv", implPoly(code, uv), "p0", implPoly(code, make([]byte, len(u))))
}

func opPolySparse(_ *HState, a Event) Event {
	code := gName(a, "code")
	n := gInt(a, "n")
	word := make([]byte, n)
	for _, t := range gList(a, "terms") {
		var p, c int
		switch tt := t.(type) {
		case []interface{}:
			p, c = int(tt[0].(float64)), int(tt[1].(float64))
		case []int:
			p, c = tt[0], tt[1]
		}
		word[n-1-p] = byte(c)
	}
	return with(a, "pw", implPoly(code, word), "p0", implPoly(code, make([]byte, n)))
}

// runC03Table writes the implementation tables for the TLC proof (-arg out=<dir>) and
// records affinity / sparse-superposition events that tie the table to the whole map.
func runC03Table(c *Ctx) {
	dir := c.Arg["out"]
	for _, spec := range []struct {
		code string
		w    int
	}{{"cash", 112}, {"bech", 89}} {
		t := implTable(spec.code, spec.w, spec.w+13)
		b, _ := json.Marshal(map[string]interface{}{"t": t})
		if err := os.WriteFile(dir+"/table-"+spec.code+".json", b, 0o644); err != nil {
			fatal("%v", err)
		}
	}
	r := c.Rng
	var calls []Event
	calls = append(calls, Event{"op": "CashTable", "w": 112, "lead": 13}, Event{"op": "BechTable", "w": 89, "lead": 13})
	for k := 0; k < c.Pick(300, 3000); k++ {
		code := []string{"cash", "bech"}[k%2]
		n := 1 + r.Intn(125)
		u, v := make([]byte, n), make([]byte, n)
		for i := range u {
			u[i], v[i] = byte(r.Intn(32)), byte(r.Intn(32))
		}
		calls = append(calls, Event{"op": "PolyAffine", "code": code, "u": ints(u), "v": ints(v)})
		w := 112
		if code == "bech" {
			w = 89
		}
		nt := 1 + r.Intn(8)
		var terms [][]int
		for _, p := range r.Perm(w)[:nt] {
			terms = append(terms, []int{p, 1 + r.Intn(31)})
		}
		calls = append(calls, Event{"op": "PolySparse", "code": code, "n": w + r.Intn(20), "terms": terms})
	}
	c.Run(calls)
}
