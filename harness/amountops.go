package main

// C17: amounts.

import (
	"encoding/binary"
	"math"
	"math/big"

	"github.com/gcash/bchutil"
)

func init() {
	for _, op := range []string{"NewAmount", "ToUnit", "RoundTrip", "Format", "MulF64"} {
		ops[op] = opAmount
	}
	families["C17"] = runC17
}

// fdec: IEEE-754 decomposition value = (-1)^neg * mant * 2^exp
func fdec(f float64) map[string]interface{} {
	m := map[string]interface{}{"cls": "fin", "neg": math.Signbit(f), "mant": []int{}, "exp": 0, "bits": f64bits(f)}
	switch {
	case math.IsNaN(f):
		m["cls"] = "nan"
	case math.IsInf(f, 0):
		m["cls"] = "inf"
	case f == 0:
	default:
		fr, e := math.Frexp(math.Abs(f))
		mant := uint64(fr * (1 << 53))
		var b [8]byte
		binary.BigEndian.PutUint64(b[:], mant)
		m["mant"], m["exp"] = ints(b[:]), e-53
	}
	return m
}
func f64bits(f float64) []int {
	var b [8]byte
	binary.BigEndian.PutUint64(b[:], math.Float64bits(f))
	return ints(b[:])
}
func gF64(a Event, k string) float64 {
	return math.Float64frombits(binary.BigEndian.Uint64(gBytes(a, k)))
}
func idec(v int64) map[string]interface{} {
	u := uint64(v)
	if v < 0 {
		u = uint64(-v)
	}
	var b [8]byte
	binary.BigEndian.PutUint64(b[:], u)
	return map[string]interface{}{"neg": v < 0, "abs": ints(b[:])}
}
func gI64(a Event, k string) int64 {
	m := a[k].(map[string]interface{})
	v := int64(binary.BigEndian.Uint64(gBytes(m, "abs")))
	if gBool(m, "neg") {
		return -v
	}
	return v
}

func opAmount(_ *HState, a Event) Event {
	e := with(a)
	p, msg := guard(func() {
		switch gName(a, "op") {
		case "NewAmount":
			f := gF64(a, "fbits")
			e["f"] = fdec(f)
			r, err := bchutil.NewAmount(f)
			e["ok"], e["ret"] = err == nil, idec(int64(r))
		case "ToUnit":
			v := gI64(a, "a")
			e["r"] = fdec(bchutil.Amount(v).ToUnit(bchutil.AmountUnit(gInt(a, "u"))))
		case "RoundTrip":
			v := gI64(a, "a")
			f := bchutil.Amount(v).ToBCH()
			e["r"] = fdec(f) // ToBCH is a conversion of its own: the correctly rounded quotient, like ToUnit(BCH)
			r, _ := bchutil.NewAmount(f)
			e["back"] = idec(int64(r))
		case "Format":
			v := gI64(a, "a")
			u := bchutil.AmountUnit(gInt(a, "u"))
			s := retainStr("Amount", "Format", bchutil.Amount(v).Format(u))
			if gBool(a, "str") {
				s = bchutil.Amount(v).String()
			}
			e["text"] = str(s)
		case "MulF64":
			v := gI64(a, "a")
			f := gF64(a, "fbits")
			e["f"] = fdec(f)
			e["ret"] = idec(int64(bchutil.Amount(v).MulF64(f)))
		}
	})
	return panicField(e, p, msg)
}

func runC17(c *Ctx) {
	c.Conc = true // stateless calls are also replayed from several goroutines at once
	r := c.Rng
	newAmt := func(f float64) { c.Call(Event{"op": "NewAmount", "fbits": f64bits(f)}) }
	both := func(f float64) { newAmt(f); newAmt(-f) }
	// every small whole number of satoshi and its half-way neighbours
	lim := c.Pick(3000, 100000)
	for k := 0; k <= lim; k++ {
		both(float64(k) / 1e8)
		if k%7 == 0 || c.Thorough() {
			h := (float64(k) + 0.5) / 1e8
			both(h)
			both(math.Nextafter(h, 0))
			both(math.Nextafter(h, 1))
		}
	}
	// products just below / at / above .5, large magnitudes, double-rounding corners
	both((0.5 - math.Pow(2, -54)) / 1e8)
	both(0.49999999999999994 / 1e8)
	for _, base := range []float64{1 << 52, 1 << 53, 1 << 60, 1<<61 + 1<<9, 2.1e15, 2099999999999999, 1e15, 9007199254740993} {
		for d := -3.0; d <= 3; d++ {
			f := (base + d) / 1e8
			both(f)
			both(math.Nextafter(f, 0))
			both(math.Nextafter(f, math.Inf(1)))
		}
	}
	for k := 0; k < c.Pick(3000, 60000); k++ {
		switch k % 4 {
		case 0:
			both(r.Float64() * 21e6)
		case 1:
			both((float64(r.Int63n(1<<52)) + 0.5) / 1e8)
		case 2:
			both(math.Ldexp(r.Float64(), r.Intn(80)-60))
		case 3:
			both(float64(r.Int63n(1<<61)) / 1e8)
		}
	}
	// exact ties: f * 1e8 is exactly k + 1/2 iff f is an odd multiple of 1/512 (no floating-point rounding anywhere:
	// the tie goes away from zero)
	for m := int64(1); m < int64(c.Pick(1200, 20000)); m += 2 {
		both(float64(m) / 512)
	}
	for k := 0; k < c.Pick(300, 5000); k++ {
		both(float64(2*r.Int63n(5000000000)+1) / 512)
	}
	for _, f := range []float64{0, math.Copysign(0, -1), math.SmallestNonzeroFloat64, 5e-324 * 3, 2.2250738585072014e-308, math.NaN(), math.Inf(1), math.Inf(-1), 1e-9, 4.9e-9, 5e-9, 5.1e-9} {
		both(f)
	}
	// conversions, round trips and text for amounts up to the cap
	var amts []int64
	for k := int64(0); k <= int64(c.Pick(300, 5000)); k++ {
		amts = append(amts, k)
	}
	for p := 0; p <= 15; p++ {
		t := int64(math.Pow10(p))
		for d := int64(-2); d <= 2; d++ {
			amts = append(amts, t+d, 2*t+d, 5*t+d)
		}
	}
	for p := 1; p <= 51; p++ {
		amts = append(amts, 1<<uint(p)-1, 1<<uint(p), 1<<uint(p)+1)
	}
	amts = append(amts, 2100000000000000, 2099999999999999, 2099999999999998, 1234567890123456, 1000000000000001)
	for k := 0; k < c.Pick(400, 20000); k++ {
		amts = append(amts, r.Int63n(2100000000000001))
	}
	units := []int{6, 3, 0, -3, -6, -8}
	for ai, v := range amts {
		if v > 2100000000000000 || v < 0 {
			continue
		}
		for _, sgn := range []int64{1, -1} {
			x := v * sgn
			c.Call(Event{"op": "RoundTrip", "a": idec(x)})
			for ui, u := range units {
				if (ai+ui)%3 == 0 || c.Thorough() {
					c.Call(Event{"op": "ToUnit", "a": idec(x), "u": u})
					c.Call(Event{"op": "Format", "a": idec(x), "u": u})
				}
			}
			c.Call(Event{"op": "Format", "a": idec(x), "u": 0, "str": true})
			if ai%5 == 0 || c.Thorough() { // arbitrary exponents -12..12
				u := r.Intn(25) - 12
				c.Call(Event{"op": "ToUnit", "a": idec(x), "u": u})
				c.Call(Event{"op": "Format", "a": idec(x), "u": u})
			}
		}
	}
	// ToBCH on amounts between 1 and 100 000 BCH (a conversion assembled from whole coins + remainder is one ulp off there)
	for k := 0; k < c.Pick(1500, 30000); k++ {
		v := 100000000 + r.Int63n(9900000000)
		if k%5 == 0 {
			v = 10000000000 + r.Int63n(9990000000000)
		}
		if k%2 == 0 {
			v = -v
		}
		c.Call(Event{"op": "RoundTrip", "a": idec(v)})
	}
	// every exponent -12..12 (and a few outside) for a handful of amounts: unit labels and scaling
	for u := -14; u <= 14; u++ {
		for _, v := range []int64{0, 1, 123456789, 2100000000000000, -5} {
			c.Call(Event{"op": "Format", "a": idec(v), "u": u})
			c.Call(Event{"op": "ToUnit", "a": idec(v), "u": u})
		}
	}
	// planner (untrusted): amounts whose exact quotient a / 10^(u+8) lies within 2^-12 ulp of the midpoint between two
	// doubles -- a conversion that rounds twice (through an intermediate of more than 53 bits) is wrong exactly there
	for _, u := range units {
		for _, v := range nearMidpointAmounts(c, u, c.Pick(20, 200)) {
			for _, x := range []int64{v, -v} {
				c.Call(Event{"op": "ToUnit", "a": idec(x), "u": u})
				c.Call(Event{"op": "Format", "a": idec(x), "u": u})
				if u == 0 {
					c.Call(Event{"op": "RoundTrip", "a": idec(x)})
					c.Call(Event{"op": "Format", "a": idec(x), "u": 0, "str": true})
				}
			}
		}
	}
	// MulF64: exact halves (ties), thirds, tiny and large multipliers, negatives
	muls := []float64{0.5, -0.5, 1.5, 0.25, 1.0 / 3, 2.0 / 3, 1e-8, 0.1, 2.5, -2.5, 1e3, 0, 0.49999999999999994, 1}
	for k := 0; k < c.Pick(2000, 40000); k++ {
		v := r.Int63n(2100000000000001)
		if k%3 == 0 {
			v = int64(r.Intn(2000))
		}
		if k%2 == 0 {
			v = -v
		}
		f := muls[k%len(muls)]
		if k%11 == 0 {
			f = math.Ldexp(r.Float64(), r.Intn(12)-8)
		}
		c.Call(Event{"op": "MulF64", "a": idec(v), "fbits": f64bits(f)})
	}
}

// nearMidpointAmounts searches random amounts a for which a / 10^(u+8) is extremely close to (but not on) the midpoint
// of two neighbouring doubles.  Only the choice of inputs comes from here; the specification computes the correctly
// rounded quotient itself.
func nearMidpointAmounts(c *Ctx, u int, want int) []int64 {
	k := u + 8
	if k <= 0 {
		return nil
	}
	den := new(big.Float).SetPrec(300).SetInt(new(big.Int).Exp(big.NewInt(10), big.NewInt(int64(k)), nil))
	var out []int64
	thr := new(big.Float).SetPrec(300).SetFloat64(math.Ldexp(1, -12))
	for tries := 0; tries < 3000000 && len(out) < want; tries++ {
		a := c.Rng.Int63n(2100000000000000) + 1
		q := new(big.Float).SetPrec(300).Quo(new(big.Float).SetPrec(300).SetInt64(a), den)
		f, acc := q.Float64()
		if acc == big.Exact {
			continue
		}
		lo, hi := f, f
		if acc == big.Above { // f > q
			lo = math.Nextafter(f, math.Inf(-1))
		} else {
			hi = math.Nextafter(f, math.Inf(1))
		}
		blo, bhi := new(big.Float).SetPrec(300).SetFloat64(lo), new(big.Float).SetPrec(300).SetFloat64(hi)
		mid := new(big.Float).SetPrec(300).Add(blo, bhi)
		mid.Quo(mid, big.NewFloat(2))
		d := new(big.Float).SetPrec(300).Sub(q, mid)
		d.Abs(d)
		d.Quo(d, new(big.Float).SetPrec(300).Sub(bhi, blo))
		if d.Sign() != 0 && d.Cmp(thr) < 0 {
			out = append(out, a)
		}
	}
	return out
}
