package main

// Conformance harness: executes cases against the real gcash/bchutil code (built
// from /repo's working tree) and records one event per API call.  It takes no
// decisions about correctness: every event is judged by TLC against the TLA+
// specification (spec/Trace_*.tla).  Primitives that live outside the repository
// (SHA-256, RIPEMD-160, HMAC, secp256k1, SipHash ...) are evaluated here with the
// standard library / bchd and logged as "env" facts.

import (
	"bufio"
	"crypto/sha256"
	"encoding/json"
	"fmt"
	"math/rand"
	"os"
	"reflect"
	"runtime/debug"
	"sync"
	"time"
)

type Event = map[string]interface{}

type History struct {
	H  int     `json:"h"`
	Ev []Event `json:"ev"`
}

type Ctx struct {
	Tier   string
	Seed   int64
	Rng    *rand.Rand
	Cases  string // optional ndjson of TLC-generated cases
	Replay string // optional replay file (a list of histories' cases)
	out    *bufio.Writer
	f      *os.File
	nh     int
	cur    []Event
	Batch  int
	NEv    int
	OpCnt  map[string]int
	Arg    map[string]string
	// Prelude calls are re-executed at the start of every batch history (e.g. Config).
	Prelude []Event
	// Conc: stateless calls are remembered and executed again from several goroutines at once (ConcurrentReplay).
	Conc bool
	// DeferredOp: every history is executed a second time on a fresh object store without observing anything on the
	// way ("noobs"); this op then observes the final state, which must equal the final state of the observed run
	// (a value the library computes lazily on first read must not depend on WHEN it is first read).
	DeferredOp string
	defRuns    int
	defMism    int
	defFirst   map[string]interface{}
	pure       []pureCall
	pureSeen   int
	prng       *rand.Rand
}

type pureCall struct {
	call Event
	res  []byte
	dur  time.Duration
}

const maxPure = 3000

func resultBytes(e Event) []byte {
	b, err := json.Marshal(denil(e))
	if err != nil {
		fatal("marshal: %v", err)
	}
	return b
}

// the sample has its own random stream: remembering calls must not change which calls the generators make
func (c *Ctx) pureRng() *rand.Rand {
	if c.prng == nil {
		c.prng = rand.New(rand.NewSource(c.Seed ^ 0x5eed))
	}
	return c.prng
}

// remember keeps a uniform sample of the stateless calls of this run.
// volatileOps: ops whose recorded event legitimately differs between two executions of the same call (the block
// filter builder reports its entries in map order); they take no part in the replay.
var volatileOps = map[string]bool{"GcsBuilder": true, "BuilderHist": true, "Robust": true, "CertPair": true}

func (c *Ctx) remember(a, e Event, dur time.Duration) {
	if volatileOps[gName(a, "op")] || a["limit"] != nil {
		return
	}
	c.pureSeen++
	pc := pureCall{a, resultBytes(e), dur}
	if len(c.pure) < maxPure {
		c.pure = append(c.pure, pc)
	} else if j := c.pureRng().Intn(c.pureSeen); j < maxPure {
		c.pure[j] = pc
	}
}

// ConcurrentReplay executes the remembered stateless calls again, the same list from 8 goroutines at once (each
// starting a few calls apart, so that similar calls overlap in time), and counts results that differ from the ones
// recorded sequentially.  The verdict on the count is the specification's (TraceBase.ConcurrentReplayVerdict).
func (c *Ctx) ConcurrentReplay() {
	if !c.Conc || len(c.pure) == 0 {
		return
	}
	// only calls that are deterministic when repeated sequentially take part, within a time budget (each call is
	// executed 16 more times on 8 goroutines: about 2 x its sequential cost in wall-clock time)
	var calls []pureCall
	var budget time.Duration
	skipped := 0
	for _, pc := range c.pure {
		if budget+3*pc.dur > 6*time.Second {
			skipped++
			continue
		}
		budget += 3 * pc.dur
		calls = append(calls, pc)
	}
	if len(calls) == 0 {
		return
	}
	// (a) sequentially, in two other orders (reversed, shuffled): a pure function of its arguments does not depend
	//     on which calls came before it (hidden "last value" hints, pooled scratch state)
	{
		ord := make([]int, len(calls))
		for i := range ord {
			ord[i] = len(calls) - 1 - i
		}
		mism, fseq, fgot := 0, "", ""
		for pass := 0; pass < 2; pass++ {
			for _, k := range ord {
				if got := resultBytes(Do(nil, calls[k].call)); string(got) != string(calls[k].res) {
					if mism == 0 {
						fseq, fgot = string(calls[k].res), string(got)
					}
					mism++
				}
			}
			c.pureRng().Shuffle(len(ord), func(i, j int) { ord[i], ord[j] = ord[j], ord[i] })
		}
		cut := func(s string) string {
			if len(s) > 1500 {
				return s[:1500] + "..."
			}
			return s
		}
		c.Flush()
		c.Hist([]Event{{"op": "ConcurrentReplay", "mode": "sequential, other call orders", "calls": len(calls), "workers": 1, "executions": 2 * len(calls),
			"skipped_budget": skipped,
			"mismatches":     mism, "first": map[string]interface{}{"sequential": cut(fseq), "concurrent": cut(fgot)}}})
	}
	// (b) the same list from 8 goroutines at once
	const workers = 8
	type diff struct {
		call      Event
		seq, conc string
	}
	var mu sync.Mutex
	var diffs []diff
	total := 0
	var wg sync.WaitGroup
	start := make(chan struct{})
	for g := 0; g < workers; g++ {
		wg.Add(1)
		go func(g int) {
			defer wg.Done()
			<-start
			for pass := 0; pass < 2; pass++ {
				for k := range calls {
					pc := calls[(k+g*3)%len(calls)]
					got := resultBytes(Do(nil, pc.call))
					mu.Lock()
					total++
					if string(got) != string(pc.res) && len(diffs) < 50 {
						diffs = append(diffs, diff{pc.call, string(pc.res), string(got)})
					} else if string(got) != string(pc.res) {
						diffs = append(diffs, diff{})
					}
					mu.Unlock()
				}
			}
		}(g)
	}
	close(start)
	wg.Wait()
	cut := func(s string) string {
		if len(s) > 1500 {
			return s[:1500] + "..."
		}
		return s
	}
	e := Event{"op": "ConcurrentReplay", "mode": "8 goroutines", "calls": len(calls), "skipped_budget": skipped, "workers": workers, "executions": total,
		"mismatches": len(diffs), "first": map[string]interface{}{"sequential": "", "concurrent": ""}}
	if len(diffs) > 0 {
		e["first"] = map[string]interface{}{"sequential": cut(diffs[0].seq), "concurrent": cut(diffs[0].conc)}
	}
	c.Flush()
	c.Hist([]Event{e})
}

// Returned byte slices are the caller's: no later call may change them (a result that is a view of a pooled or shared
// buffer is overwritten by the next call).  Ops hand the raw slices they got from the library to retain(); at the end
// of the run every one of them is compared with the copy taken at the time.
type retainedSlice struct {
	op, field string
	live, was []byte
}

var (
	retMu   sync.Mutex
	retList []retainedSlice
	retSeen int
)

func retain(op, field string, b []byte) {
	if len(b) == 0 {
		return
	}
	retMu.Lock()
	retSeen++
	if len(retList) < 20000 || retSeen%16 == 0 && len(retList) < 60000 {
		retList = append(retList, retainedSlice{op, field, b, append([]byte{}, b...)})
	}
	retMu.Unlock()
}

// retainStr: the same for returned strings (a string built as a zero-copy view of a reused buffer changes later).
func retainStr(op, field, v string) string {
	if len(v) > 0 {
		retMu.Lock()
		retSeen++
		if len(retStrs) < 20000 || retSeen%16 == 0 && len(retStrs) < 60000 {
			retStrs = append(retStrs, retainedStr{op, field, v, []byte(v)})
		}
		retMu.Unlock()
	}
	return v
}

type retainedStr struct {
	op, field string
	live      string
	was       []byte
}

var retStrs []retainedStr

// retainFn: the same for results that are objects: read() renders the object now and again at the end of the run.
func retainFn(op, field string, read func() []byte) {
	was := read()
	retMu.Lock()
	retSeen++
	if len(retFns) < 5000 || retSeen%16 == 0 && len(retFns) < 20000 {
		retFns = append(retFns, retainedFn{op, field, read, was})
	}
	retMu.Unlock()
}

type retainedFn struct {
	op, field string
	read      func() []byte
	was       []byte
}

var retFns []retainedFn

func (c *Ctx) RetainCheck() {
	retMu.Lock()
	defer retMu.Unlock()
	if len(retList) == 0 && len(retStrs) == 0 && len(retFns) == 0 {
		return
	}
	mism := 0
	first := map[string]interface{}{"sequential": "", "concurrent": ""}
	for _, r := range retFns {
		var now []byte
		if p, _ := guard(func() { now = r.read() }); p {
			now = []byte("panic")
		}
		if string(now) != string(r.was) {
			if mism == 0 {
				cut := func(b []byte) []byte {
					if len(b) > 600 {
						return b[:600]
					}
					return b
				}
				first = map[string]interface{}{"sequential": fmt.Sprintf("%s.%s = %x", r.op, r.field, cut(r.was)), "concurrent": fmt.Sprintf("%x", cut(now))}
			}
			mism++
		}
	}
	for _, r := range retStrs {
		if r.live != string(r.was) {
			if mism == 0 {
				first = map[string]interface{}{"sequential": fmt.Sprintf("%s.%s = %q", r.op, r.field, r.was), "concurrent": fmt.Sprintf("%q", r.live)}
			}
			mism++
		}
	}
	for _, r := range retList {
		if string(r.live) != string(r.was) {
			if mism == 0 {
				first = map[string]interface{}{"sequential": fmt.Sprintf("%s.%s = %x", r.op, r.field, r.was), "concurrent": fmt.Sprintf("%x", r.live)}
			}
			mism++
		}
	}
	c.Flush()
	c.Hist([]Event{{"op": "ConcurrentReplay", "mode": "returned slices read again at the end of the run", "calls": len(retList) + len(retStrs) + len(retFns), "workers": 0,
		"executions": len(retList) + len(retStrs) + len(retFns), "skipped_budget": 0, "mismatches": mism, "first": first}})
}

func (c *Ctx) Thorough() bool { return c.Tier == "thorough" }

// Pick returns q in the quick tier and t in the thorough tier.
func (c *Ctx) Pick(q, t int) int {
	if c.Thorough() {
		return t
	}
	return q
}

// Add appends a stateless event to the current batch history.
func (c *Ctx) Add(e Event) {
	if len(c.cur) == 0 {
		for _, p := range c.Prelude {
			pe := Do(nil, p)
			c.cur = append(c.cur, pe)
			c.count(pe)
		}
	}
	c.cur = append(c.cur, e)
	c.count(e)
	if len(c.cur) >= c.Batch {
		c.Flush()
	}
}

func (c *Ctx) count(e Event) {
	c.NEv++
	if op, ok := e["op"].(string); ok {
		c.OpCnt[op]++
	}
}

// Flush closes the current batch history.
func (c *Ctx) Flush() {
	if len(c.cur) <= len(c.Prelude) {
		c.cur = nil
		return
	}
	c.writeHist(c.cur)
	c.cur = nil
}

// Hist writes a complete (stateful) history of its own.
func (c *Ctx) Hist(ev []Event) {
	for _, e := range ev {
		c.count(e)
	}
	c.writeHist(ev)
}

// denil replaces nil slices / maps by empty ones (TLC's JSON reader rejects null).
func denil(v interface{}) interface{} {
	if v == nil {
		return []int{}
	}
	rv := reflect.ValueOf(v)
	switch rv.Kind() {
	case reflect.Slice:
		if rv.IsNil() {
			return []int{}
		}
		if rv.Type().Elem().Kind() == reflect.Interface {
			out := make([]interface{}, rv.Len())
			for i := 0; i < rv.Len(); i++ {
				out[i] = denil(rv.Index(i).Interface())
			}
			return out
		}
		if rv.Type().Elem().Kind() == reflect.Map {
			out := make([]interface{}, rv.Len())
			for i := 0; i < rv.Len(); i++ {
				out[i] = denil(rv.Index(i).Interface())
			}
			return out
		}
		return v
	case reflect.Map:
		if rv.IsNil() {
			return map[string]interface{}{}
		}
		if m, ok := v.(map[string]interface{}); ok {
			out := make(map[string]interface{}, len(m))
			for k, x := range m {
				out[k] = denil(x)
			}
			return out
		}
		return v
	}
	return v
}

func (c *Ctx) writeHist(ev []Event) {
	for i := range ev {
		ev[i] = denil(ev[i]).(map[string]interface{})
	}
	c.nh++
	b, err := json.Marshal(History{H: c.nh, Ev: ev})
	if err != nil {
		fatal("marshal: %v", err)
	}
	c.out.Write(b)
	c.out.WriteByte('\n')
}

func fatal(f string, a ...interface{}) {
	fmt.Fprintf(os.Stderr, "harness: "+f+"\n", a...)
	os.Exit(2)
}

// ints renders a byte slice as a JSON int array (TLC cannot index strings).
func ints(b []byte) []int {
	r := make([]int, len(b))
	for i, x := range b {
		r[i] = int(x)
	}
	return r
}
func str(s string) []int { return ints([]byte(s)) }

// argument accessors: arguments come either from Go generators ([]int, int, bool,
// string) or from JSON (replay files, TLC-generated cases: []interface{}, float64).
func gBytes(a Event, k string) []byte {
	switch v := a[k].(type) {
	case []int:
		r := argSlice(a, k, len(v))
		for i, x := range v {
			r[i] = byte(x)
		}
		return r
	case []interface{}:
		r := argSlice(a, k, len(v))
		for i, x := range v {
			r[i] = byte(int(x.(float64)))
		}
		return r
	case []byte:
		r := argSlice(a, k, len(v))
		copy(r, v)
		return r
	case string:
		return []byte(v)
	case nil:
		return nil
	}
	fatal("argument %q: unexpected type %T", k, a[k])
	return nil
}

// Every byte-slice argument handed to the code under test sits in a larger backing array whose spare capacity holds
// a recognisable non-zero pattern: code that reads behind the slice (through its capacity) computes from the pattern
// and is judged on the result; code that WRITES behind the slice is caught by Do, which checks the pattern of every
// argument of the call afterwards ("sparemod").  Registration is per call (keyed by the identity of the call's
// argument map), so the concurrent replay needs no goroutine-local state.
const spareCap = 24

var sparePattern = [8]byte{0xA5, 0x5B, 0xFF, 0x81, 0x7E, 0x13, 0xC9, 0x3D}

type argReg struct {
	key     string
	n       int
	backing []byte
}

var (
	argMu   sync.Mutex
	argOpen = map[uintptr][]argReg{}
)

func argSlice(a Event, k string, n int) []byte {
	backing := make([]byte, n+spareCap)
	for i := n; i < len(backing); i++ {
		backing[i] = sparePattern[(i-n)%8]
	}
	id := reflect.ValueOf(a).Pointer()
	argMu.Lock()
	if regs, ok := argOpen[id]; ok {
		argOpen[id] = append(regs, argReg{k, n, backing})
	}
	argMu.Unlock()
	return backing[:n:len(backing)]
}

func argsOpen(a Event) {
	argMu.Lock()
	argOpen[reflect.ValueOf(a).Pointer()] = []argReg{}
	argMu.Unlock()
}

// argsClose returns the first argument whose spare capacity no longer holds the pattern.
func argsClose(a Event) (string, int, bool) {
	id := reflect.ValueOf(a).Pointer()
	argMu.Lock()
	regs := argOpen[id]
	delete(argOpen, id)
	argMu.Unlock()
	for _, r := range regs {
		for i := r.n; i < len(r.backing); i++ {
			if r.backing[i] != sparePattern[(i-r.n)%8] {
				return r.key, i - r.n, true
			}
		}
	}
	return "", 0, false
}

func gStr(a Event, k string) string { return string(gBytes(a, k)) }
func gInt(a Event, k string) int {
	switch v := a[k].(type) {
	case int:
		return v
	case int64:
		return int(v)
	case float64:
		return int(v)
	case nil:
		return 0
	}
	fatal("argument %q: unexpected type %T", k, a[k])
	return 0
}
func gInt64(a Event, k string) int64 {
	switch v := a[k].(type) {
	case int:
		return int64(v)
	case int64:
		return v
	case float64:
		return int64(v)
	case nil:
		return 0
	}
	fatal("argument %q: unexpected type %T", k, a[k])
	return 0
}
func gBool(a Event, k string) bool {
	b, _ := a[k].(bool)
	return b
}
func gName(a Event, k string) string {
	s, _ := a[k].(string)
	return s
}
func gList(a Event, k string) []interface{} {
	switch v := a[k].(type) {
	case []interface{}:
		return v
	case []Event:
		r := make([]interface{}, len(v))
		for i := range v {
			r[i] = v[i]
		}
		return r
	case []int:
		r := make([]interface{}, len(v))
		for i := range v {
			r[i] = float64(v[i])
		}
		return r
	case [][]int:
		r := make([]interface{}, len(v))
		for i := range v {
			r[i] = v[i]
		}
		return r
	case nil:
		return nil
	}
	fatal("argument %q: unexpected list type %T", k, a[k])
	return nil
}

// HState is the per-history object store of stateful families.
type HState struct {
	Obj map[string]interface{}
}

// OpFn executes one recorded call (arguments in a) against the real code and
// returns the event: the arguments plus the observed results.
type OpFn func(h *HState, a Event) Event

var ops = map[string]OpFn{}

// Do executes call a and returns its event.
func Do(h *HState, a Event) Event {
	op := gName(a, "op")
	fn, ok := ops[op]
	if !ok {
		fatal("unknown op %q", op)
	}
	argsOpen(a)
	e := fn(h, a)
	if k, off, bad := argsClose(a); bad {
		e["sparemod"] = map[string]interface{}{"arg": k, "offset": off}
	}
	return e
}

// Call executes a stateless call and adds its event to the batch.
func (c *Ctx) Call(a Event) Event {
	t0 := time.Now()
	e := Do(nil, a)
	if c.Conc {
		c.remember(a, e, time.Since(t0))
	}
	c.Add(e)
	return e
}

// Run executes a whole history of calls on a fresh object store.
func (c *Ctx) Run(calls []Event) []Event {
	h := &HState{Obj: map[string]interface{}{}}
	ev := make([]Event, 0, len(calls))
	for _, a := range calls {
		ev = append(ev, Do(h, a))
	}
	c.Hist(ev)
	if c.DeferredOp != "" && len(ev) > 0 && ev[len(ev)-1]["panic"] == nil {
		// the same final observation is taken of the run that was observed all along ...
		var fin Event
		if p, _ := guard(func() { fin = Do(h, Event{"op": c.DeferredOp}) }); !p && fin != nil && fin["all"] != nil {
			c.deferredRun(calls, fin["all"])
		}
	}
	return ev
}

// ... and of a second execution on fresh objects in which nothing is read before the end
func (c *Ctx) deferredRun(calls []Event, last interface{}) {
	h := &HState{Obj: map[string]interface{}{}}
	var fin Event
	p, _ := guard(func() {
		for _, a := range calls {
			Do(h, with(a, "noobs", true))
		}
		fin = Do(h, Event{"op": c.DeferredOp})
	})
	c.defRuns++
	want, _ := json.Marshal(denil(last))
	got := []byte("panic")
	if !p && fin != nil {
		got, _ = json.Marshal(denil(fin["all"]))
	}
	if string(want) != string(got) {
		if c.defMism == 0 {
			cut := func(b []byte) string {
				if len(b) > 1500 {
					return string(b[:1500]) + "..."
				}
				return string(b)
			}
			cj, _ := json.Marshal(calls)
			c.defFirst = map[string]interface{}{"sequential": cut(want), "concurrent": cut(got) + " calls=" + cut(cj)}
		}
		c.defMism++
	}
}

// DeferredCheck reports the deferred-observation runs (judged by TraceBase like the other replays: workers = -1).
func (c *Ctx) DeferredCheck() {
	if c.defRuns == 0 {
		return
	}
	first := c.defFirst
	if first == nil {
		first = map[string]interface{}{"sequential": "", "concurrent": ""}
	}
	c.Flush()
	c.Hist([]Event{{"op": "ConcurrentReplay", "mode": "histories executed again without intermediate observation", "calls": c.defRuns, "workers": -1,
		"executions": c.defRuns, "skipped_budget": 0, "mismatches": c.defMism, "first": first}})
}

// with returns a copy of a with extra fields (the results).
func with(a Event, kv ...interface{}) Event {
	e := Event{}
	for k, v := range a {
		e[k] = v
	}
	for i := 0; i+1 < len(kv); i += 2 {
		e[kv[i].(string)] = kv[i+1]
	}
	return e
}

func rBytes(e Event, k string) []byte { return gBytes(e, k) }

// envFact is one logged value of an out-of-repository primitive.
func envFact(f string, in, out []byte) map[string]interface{} {
	return map[string]interface{}{"f": f, "i": ints(in), "o": ints(out)}
}

func sha256d(b []byte) []byte {
	h := sha256.Sum256(b)
	h2 := sha256.Sum256(h[:])
	return h2[:]
}
func envSha256d(b []byte) map[string]interface{} { return envFact("sha256d", b, sha256d(b)) }

// guard runs f and reports a recovered panic.
func guard(f func()) (panicked bool, msg string) {
	defer func() {
		if r := recover(); r != nil {
			panicked = true
			msg = fmt.Sprint(r)
			_ = debug.Stack
		}
	}()
	f()
	return
}

// guardT runs f with a deadline; a call that neither returns nor panics in time is a hang.
// The goroutine is abandoned (the process exits at the end of the run anyway).
func guardT(d time.Duration, f func()) (panicked bool, msg string, hung bool) {
	done := make(chan struct{})
	go func() {
		defer close(done)
		panicked, msg = guard(f)
	}()
	select {
	case <-done:
		return panicked, msg, false
	case <-time.After(d):
		return false, "", true
	}
}

func newRand(seed int64) *rand.Rand { return rand.New(rand.NewSource(seed)) }

func randBytes(r *rand.Rand, n int) []byte {
	b := make([]byte, n)
	for i := range b {
		b[i] = byte(r.Intn(256))
	}
	return b
}

// sliceWithCap returns b placed in a larger backing array whose spare capacity
// is filled with a sentinel, and the backing array itself.
func sliceWithCap(b []byte, extra int) (arg []byte, backing []byte) {
	backing = make([]byte, len(b)+extra)
	copy(backing, b)
	for i := len(b); i < len(backing); i++ {
		backing[i] = 0xA5
	}
	return backing[:len(b):len(backing)], backing
}

func readCases(path string) []map[string]interface{} {
	if path == "" {
		return nil
	}
	f, err := os.Open(path)
	if err != nil {
		fatal("cases: %v", err)
	}
	defer f.Close()
	var res []map[string]interface{}
	sc := bufio.NewScanner(f)
	sc.Buffer(make([]byte, 1<<20), 1<<28)
	for sc.Scan() {
		line := sc.Bytes()
		if len(line) == 0 {
			continue
		}
		// TLC's CSVWrite("%1$s", ToJson(x)) emits a JSON *string* holding JSON.
		var s string
		if line[0] == '"' {
			if err := json.Unmarshal(line, &s); err != nil {
				fatal("cases outer: %v", err)
			}
			line = []byte(s)
		}
		var m map[string]interface{}
		if err := json.Unmarshal(line, &m); err != nil {
			fatal("cases inner: %v: %s", err, string(line))
		}
		res = append(res, m)
	}
	return res
}

// wsWraps: a valid text form wrapped in white space (what a "lenient" parser trims): none of these is the string.
func wsWraps(s string) []string {
	return []string{" " + s, s + " ", s + "\n", "\t" + s, s + "\r\n", " " + s + " ", "\u00a0" + s, s + "\u2028", s + "\x00", "\x00" + s, s + "\x0b", "\x0c" + s}
}

// checksumForgeries: variants of full = body ‖ c0 c1 c2 c3 that differ from it ONLY inside the four checksum bytes and
// keep some algebraic relation between them (what a comparison assembled from shifts, ORs, sums or a partial loop may
// fail to see): every single bit, every swap and rotation, a byte replaced by the OR / AND / XOR with a neighbour, a
// bit moved from one byte to another that already has it, sums preserved, all-zero / all-one, each byte +-1.
func checksumForgeries(full []byte) [][]byte {
	n := len(full)
	if n < 4 {
		return nil
	}
	seen := map[string]bool{string(full): true}
	var out [][]byte
	emit := func(c [4]byte) {
		q := append(append([]byte{}, full[:n-4]...), c[:]...)
		if !seen[string(q)] {
			seen[string(q)] = true
			out = append(out, q)
		}
	}
	var c [4]byte
	copy(c[:], full[n-4:])
	for bit := 0; bit < 32; bit++ {
		d := c
		d[bit/8] ^= 1 << uint(bit%8)
		emit(d)
	}
	for i := 0; i < 4; i++ {
		for j := 0; j < 4; j++ {
			if i == j {
				continue
			}
			d := c
			d[i], d[j] = d[j], d[i]
			emit(d)
			d = c
			d[i] = c[i] | c[j]
			emit(d)
			d = c
			d[i] = c[i] & c[j]
			emit(d)
			d = c
			d[i] = c[i] ^ c[j]
			emit(d)
			d = c
			d[i] = c[j]
			emit(d)
			for b := uint(0); b < 8; b++ {
				if c[i]&(1<<b) != 0 && c[j]&(1<<b) != 0 { // a bit both have: clear it in one (OR unchanged)
					d = c
					d[i] &^= 1 << b
					emit(d)
				}
				if c[i]&(1<<b) != 0 && c[j]&(1<<b) == 0 { // move a bit (OR, XOR and the sum are unchanged)
					d = c
					d[i] &^= 1 << b
					d[j] |= 1 << b
					emit(d)
				}
			}
			d = c // sum preserved
			d[i]++
			d[j]--
			emit(d)
		}
		d := c
		d[i]++
		emit(d)
		d[i] -= 2
		emit(d)
		d[i] = 0
		emit(d)
		d[i] = 0xff
		emit(d)
	}
	emit([4]byte{c[1], c[2], c[3], c[0]})
	emit([4]byte{c[3], c[0], c[1], c[2]})
	emit([4]byte{c[3], c[2], c[1], c[0]})
	emit([4]byte{})
	emit([4]byte{0xff, 0xff, 0xff, 0xff})
	emit([4]byte{^c[0], ^c[1], ^c[2], ^c[3]})
	return out
}
