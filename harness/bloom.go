package main

// Bloom filter ops (C09, C10, C20).  One history = one *bloom.Filter (HState "f").

import (
	"math"
	"strconv"
	"time"

	"github.com/gcash/bchd/chaincfg/chainhash"
	"github.com/gcash/bchd/wire"
	"github.com/gcash/bchutil/bloom"
)

func init() {
	families["C09"] = runC09
	for _, op := range []string{"NewFilter", "LoadFilter", "Reload", "Unload", "IsLoaded", "Add", "AddHash", "AddOutPoint",
		"Matches", "MatchesOutPoint", "GetMsg", "BloomObserve"} {
		ops[op] = opBloom
	}
	ops["Murmur"] = opMurmur
}

func w32(v uint32) []int { return []int{int(v >> 16), int(v & 0xffff)} }
func gW32(a Event, k string) uint32 {
	l := gList(a, k)
	if len(l) != 2 {
		return 0
	}
	return uint32(l[0].(float64))<<16 | uint32(l[1].(float64))
}

func opMurmur(_ *HState, a Event) Event {
	var r uint32
	p, msg := guard(func() { r = bloom.MurmurHash3(gW32(a, "seed"), gBytes(a, "data")) })
	return panicField(with(a, "ret", w32(r)), p, msg)
}

// item: callers insert and query from re-used buffers (one scratch buffer / one hash variable per filter object, as a
// message loop does): the filter takes what it needs from the item during the call and keeps no reference to it
func (o *bloomObj) item(b []byte) []byte {
	if cap(o.scratch) < len(b) {
		o.scratch = make([]byte, 0, 2*len(b)+64)
	}
	buf := o.scratch[:len(b)]
	copy(buf, b)
	return buf
}

type bloomObj struct {
	scratch []byte
	hashVar chainhash.Hash
	dead    bool // an earlier op panicked or hung (possibly while holding the filter mutex)
	f       *bloom.Filter
	prev    []byte // snapshot of the filter bytes after the previous event
	had     bool
}

func snapshot(f *bloom.Filter) (msg *wire.MsgFilterLoad, bytes []byte) {
	msg = f.MsgFilterLoad()
	if msg == nil {
		return nil, nil
	}
	return msg, append([]byte{}, msg.Filter...)
}

func setBits(b []byte) []int {
	out := []int{}
	for i, x := range b {
		for j := 0; j < 8; j++ {
			if x>>uint(j)&1 == 1 {
				out = append(out, 8*i+j)
			}
		}
	}
	return out
}

func popcount(b []byte) int {
	n := 0
	for _, x := range b {
		for ; x != 0; x &= x - 1 {
			n++
		}
	}
	return n
}

// post projects the filter state after an op.  full=true logs all set bits (new object).
func post(o *bloomObj, full bool) map[string]interface{} {
	if o.f == nil {
		return map[string]interface{}{"loaded": false}
	}
	msg, cur := snapshot(o.f)
	if msg == nil {
		o.prev, o.had = nil, false
		return map[string]interface{}{"loaded": false}
	}
	q := map[string]interface{}{"loaded": true, "nbytes": len(cur), "nhash": int(msg.HashFuncs), "tweak": w32(msg.Tweak),
		"flags": int(msg.Flags), "pop": popcount(cur), "full": full, "bits": []int{}, "delta": []int{}, "cleared": []int{}, "bytes": []int{}}
	if !o.had || len(o.prev) != len(cur) {
		full = true
		q["full"] = true
	}
	if full {
		q["bits"] = setBits(cur)
	} else {
		d, cl := []int{}, []int{}
		for i := range cur {
			if cur[i] != o.prev[i] {
				for j := 0; j < 8; j++ {
					nb, ob := cur[i]>>uint(j)&1, o.prev[i]>>uint(j)&1
					if nb == 1 && ob == 0 {
						d = append(d, 8*i+j)
					}
					if nb == 0 && ob == 1 {
						cl = append(cl, 8*i+j)
					}
				}
			}
		}
		q["delta"], q["cleared"] = d, cl
	}
	if len(cur) <= 64 {
		q["bytes"] = ints(cur)
	}
	o.prev, o.had = cur, true
	return q
}

func mkMsg(a Event) *wire.MsgFilterLoad {
	if gBool(a, "nil") {
		return nil
	}
	n := gInt(a, "nbytes")
	// the bit array of a message is often a window of a larger receive buffer: spare capacity behind it (patterned)
	spare := []int{0, 5, 64}[(n+gInt(a, "nhash"))%3]
	b := make([]byte, n, n+spare)
	for i := range b[n : n+spare] {
		b[n : n+spare][i] = 0xA5
	}
	for _, x := range gList(a, "setbits") {
		bit := int(x.(float64))
		b[bit/8] |= 1 << uint(bit%8)
	}
	return wire.NewMsgFilterLoad(b, uint32(gInt(a, "nhash")), gW32(a, "tweak"), wire.BloomUpdateType(gInt(a, "flags")))
}

func opBloom(h *HState, a Event) Event {
	o, _ := h.Obj["f"].(*bloomObj)
	if o == nil {
		o = &bloomObj{}
		h.Obj["f"] = o
	}
	op := gName(a, "op")
	if op == "BloomObserve" { // final observation of a history (DeferredOp): the whole state, nothing else
		if o.f == nil || o.dead {
			return Event{"op": op, "all": map[string]interface{}{"loaded": false, "dead": o.dead}}
		}
		o.had = false
		return Event{"op": op, "all": post(o, true)}
	}
	if o.dead {
		// after a panic / hang inside a locked method the object is unusable; the
		// remaining calls of the history are recorded as skipped
		return Event{"op": "Skipped", "orig": op}
	}
	e := with(a)
	full := false
	p, msg, hung := guardT(20*time.Second, func() {
		switch op {
		case "NewFilter":
			fp, _ := strconv.ParseFloat(gName(a, "fprate"), 64)
			o.f = bloom.NewFilter(gW32(a, "elements"), gW32(a, "tweak"), fp, wire.BloomUpdateType(gInt(a, "flags")))
			full = true
		case "LoadFilter":
			o.f = bloom.LoadFilter(mkMsg(a))
			full = true
		case "Reload":
			o.f.Reload(mkMsg(a))
			full = true
		case "Unload":
			o.f.Unload()
		case "IsLoaded":
			e["ret"] = o.f.IsLoaded()
		case "Add":
			o.f.Add(o.item(gBytes(a, "item")))
		case "AddHash":
			o.hashVar = chainhash.Hash{}
			copy(o.hashVar[:], gBytes(a, "item"))
			o.f.AddHash(&o.hashVar)
		case "AddOutPoint":
			var hsh chainhash.Hash
			copy(hsh[:], gBytes(a, "txid"))
			o.f.AddOutPoint(wire.NewOutPoint(&hsh, gW32(a, "idx")))
		case "Matches":
			e["ret"] = o.f.Matches(o.item(gBytes(a, "item")))
		case "MatchesOutPoint":
			var hsh chainhash.Hash
			copy(hsh[:], gBytes(a, "txid"))
			e["ret"] = o.f.MatchesOutPoint(wire.NewOutPoint(&hsh, gW32(a, "idx")))
		case "GetMsg":
			e["retnil"] = o.f.MsgFilterLoad() == nil
		}
	})
	if p || hung {
		if hung {
			msg = "call did not return within 20s (hang)"
		}
		e["panic"] = msg
		if _, ok := e["ret"]; !ok {
			e["ret"] = false
		}
		o.dead = true
		return e
	}
	if gBool(a, "noobs") { // quiet second execution: the message is not read between the calls
		return e
	}
	pp, pmsg, ph := guardT(20*time.Second, func() { e["post"] = post(o, full) })
	if pp || ph {
		e["panic"] = "post: " + pmsg
		delete(e, "post")
		o.dead = true
	}
	return e
}

// ---- generator ---------------------------------------------------------------------

func bloomItem(c *Ctx, k int) []byte {
	// every length mod 4; lengths around the wire limit of a filteradd payload / script element (520) and well beyond it
	// (the filter itself has no item length limit)
	lens := []int{0, 1, 2, 3, 4, 5, 6, 7, 8, 20, 32, 33, 36, 65, 519, 520, 521, 1023}
	return randBytes(c.Rng, lens[k%len(lens)])
}

func loadCall(c *Ctx, op string, nbytes, nhash int, tweak uint32, flags int, sparse bool) Event {
	r := c.Rng
	var bits []int
	if nbytes > 0 {
		if nbytes <= 8 && !sparse {
			for b := 0; b < 8*nbytes; b++ {
				if r.Intn(3) == 0 {
					bits = append(bits, b)
				}
			}
		} else {
			for k := 0; k < r.Intn(12); k++ {
				bits = append(bits, r.Intn(8*nbytes))
			}
		}
	}
	if bits == nil {
		bits = []int{}
	}
	return Event{"op": op, "nil": false, "nbytes": nbytes, "nhash": nhash, "tweak": w32(tweak), "flags": flags, "setbits": bits}
}

func randTweak(c *Ctx, k int) uint32 {
	return []uint32{0, 1, 1 << 31, math.MaxUint32, 0xfba4c795, c.Rng.Uint32()}[k%6]
}

func runC09(c *Ctx) {
	c.DeferredOp = "BloomObserve"
	r := c.Rng
	// MurmurHash3 itself: every length 0..40 x boundary seeds
	for n := 0; n <= 40; n++ {
		for _, seed := range []uint32{0, 1, 1 << 31, math.MaxUint32, r.Uint32()} {
			d := randBytes(r, n)
			if n%5 == 0 {
				for i := range d {
					d[i] = 0xff
				}
			}
			c.Call(Event{"op": "Murmur", "seed": w32(seed), "data": ints(d)})
		}
	}
	c.Flush()
	// TLC-generated abstract histories instantiated on concrete filter shapes
	shapes := []int{1, 2, 3, 8, 64, 36000}
	hashes := []int{0, 1, 2, 5, 50}
	cases := readCases(c.Cases)
	for ci, cs := range cases {
		nb := shapes[ci%len(shapes)]
		nh := hashes[(ci/len(shapes))%len(hashes)]
		if nh == 50 && nb == 36000 && ci%4 != 0 {
			nh = 5
		}
		items := [][]byte{bloomItem(c, ci), bloomItem(c, ci+3), randBytes(r, 32)}
		tw := randTweak(c, ci)
		calls := []Event{loadCall(c, "LoadFilter", nb, nh, tw, ci%3, true)}
		for _, st := range gList(cs, "ops") {
			s := st.(map[string]interface{})
			it := items[(gInt(s, "x")+2)%3]
			switch gName(s, "o") {
			case "Add":
				if len(it) == 32 {
					calls = append(calls, Event{"op": "AddHash", "item": ints(it)})
				} else {
					calls = append(calls, Event{"op": "Add", "item": ints(it)})
				}
			case "Matches":
				calls = append(calls, Event{"op": "Matches", "item": ints(it)})
			case "Reload":
				// reload with another size / hash count / tweak: nothing may survive from the old message
				nb2 := shapes[(ci+1+len(calls))%len(shapes)]
				nh2 := hashes[(ci+len(calls))%len(hashes)]
				if nh2 == 50 && nb2 == 36000 {
					nh2 = 3
				}
				calls = append(calls, loadCall(c, "Reload", nb2, nh2, randTweak(c, ci+len(calls)), (ci+1)%3, true))
			case "ReloadNil":
				calls = append(calls, Event{"op": "Reload", "nil": true})
			case "Unload":
				calls = append(calls, Event{"op": "Unload"})
			case "IsLoaded":
				calls = append(calls, Event{"op": "IsLoaded"})
			case "GetMsg":
				calls = append(calls, Event{"op": "GetMsg"})
			}
		}
		c.Run(calls)
	}
	// long seeded random histories
	for k := 0; k < c.Pick(40, 400); k++ {
		nb := []int{1, 2, 3, 4, 8, 33, 64, 65, 1000, 36000}[k%10]
		nh := []int{1, 2, 3, 5, 11, 50, 0}[k%7]
		if nh == 50 && nb > 64 && k%3 != 0 {
			nh = 7
		}
		tw := randTweak(c, k)
		calls := []Event{loadCall(c, "LoadFilter", nb, nh, tw, k%3, k%2 == 0)}
		var added [][]byte
		var addedOP [][]byte
		for s := 0; s < c.Pick(30, 60); s++ {
			switch x := r.Intn(20); {
			case x < 6:
				it := bloomItem(c, r.Intn(18))
				added = append(added, it)
				calls = append(calls, Event{"op": "Add", "item": ints(it)})
			case x < 8:
				it := randBytes(r, 32)
				added = append(added, it)
				calls = append(calls, Event{"op": "AddHash", "item": ints(it)})
			case x < 10:
				txid := randBytes(r, 32)
				idx := []uint32{0, 1, math.MaxUint32, r.Uint32()}[r.Intn(4)]
				addedOP = append(addedOP, append(append([]byte{}, txid...), byte(idx), byte(idx>>8), byte(idx>>16), byte(idx>>24)))
				calls = append(calls, Event{"op": "AddOutPoint", "txid": ints(txid), "idx": w32(idx)})
			case x < 13 && len(added) > 0:
				calls = append(calls, Event{"op": "Matches", "item": ints(added[r.Intn(len(added))])})
			case x < 14 && len(addedOP) > 0:
				o := addedOP[r.Intn(len(addedOP))]
				idx := uint32(o[32]) | uint32(o[33])<<8 | uint32(o[34])<<16 | uint32(o[35])<<24
				calls = append(calls, Event{"op": "MatchesOutPoint", "txid": ints(o[:32]), "idx": w32(idx)})
				calls = append(calls, Event{"op": "Matches", "item": ints(o)}) // the same 36 bytes as a plain item
			case x < 16:
				calls = append(calls, Event{"op": "Matches", "item": ints(bloomItem(c, r.Intn(18)))})
			case x < 17:
				calls = append(calls, Event{"op": "MatchesOutPoint", "txid": ints(randBytes(r, 32)), "idx": w32(r.Uint32())})
			case x < 18:
				calls = append(calls, Event{"op": []string{"IsLoaded", "GetMsg"}[r.Intn(2)]})
			case x == 18 && s > 10:
				if r.Intn(2) == 0 {
					calls = append(calls, Event{"op": "Unload"})
				} else {
					nb = []int{1, 2, 3, 4, 8, 33, 64, 65, 1000, 36000}[r.Intn(10)] // a different size
					calls = append(calls, loadCall(c, "Reload", nb, nh, randTweak(c, s), k%3, true))
				}
				added, addedOP = nil, nil
			default:
				calls = append(calls, Event{"op": "Matches", "item": ints(bloomItem(c, r.Intn(18)))})
			}
		}
		c.Run(calls)
	}
	// NewFilter sizing over a grid of (elements, fprate)
	var nf []Event
	for _, el := range []uint32{0, 1, 2, 10, 1000, 100000, 1 << 20, 1 << 31, math.MaxUint32, r.Uint32()} {
		for _, fp := range []string{"0", "1e-12", "1e-9", "0.0001", "0.01", "0.5", "1", "1.5", "-1", "NaN", "+Inf", "-Inf"} {
			nf = append(nf, Event{"op": "NewFilter", "elements": w32(el), "tweak": w32(r.Uint32()), "fprate": fp, "flags": r.Intn(3)})
			nf = append(nf, Event{"op": "Add", "item": ints(randBytes(r, 20))}, Event{"op": "GetMsg"})
		}
	}
	c.Run(nf)
	// empty bit array / unloaded filter: every op is total, insertions are ignored
	for nh := 0; nh <= 50; nh += 10 {
		c.Run([]Event{loadCall(c, "LoadFilter", 0, nh, 5, 0, true), {"op": "Add", "item": ints([]byte("x"))}, {"op": "Matches", "item": ints([]byte("x"))},
			{"op": "AddOutPoint", "txid": ints(randBytes(r, 32)), "idx": w32(1)}, {"op": "MatchesOutPoint", "txid": ints(randBytes(r, 32)), "idx": w32(1)},
			{"op": "GetMsg"}, {"op": "IsLoaded"}})
	}
	c.Run([]Event{{"op": "LoadFilter", "nil": true}, {"op": "IsLoaded"}, {"op": "Add", "item": ints([]byte("abc"))}, {"op": "Matches", "item": ints([]byte("abc"))},
		{"op": "AddHash", "item": ints(randBytes(r, 32))}, {"op": "GetMsg"}, loadCall(c, "Reload", 2, 3, 7, 1, false), {"op": "Add", "item": ints([]byte("abc"))},
		{"op": "Matches", "item": ints([]byte("abc"))}, {"op": "Unload"}, {"op": "Matches", "item": ints([]byte("abc"))}, {"op": "IsLoaded"}})
}
