#!/bin/sh
# Offline setup: warm the Go build cache for the harness (plain and -race) and check the tools.
set -e
cd "$(dirname "$0")"
export GOFLAGS=-mod=mod GOPROXY=off GOSUMDB=off GOTOOLCHAIN=local
command -v java >/dev/null
test -f /opt/veriftools/tla/tla2tools.jar
(cd harness && go build -tags verif -o /dev/null . && go build -race -tags verif -o /dev/null . && go build -tags "verif mutexlog" -o /dev/null ./mutexlog && go build -o /dev/null ./extract)
python3 -c "import json,sys; json.load(open('MANIFEST.json')); json.load(open('known_findings.json'))"
echo setup ok
