INIT InitCC
NEXT NextCC
INVARIANT JudgeCC
CHECK_DEADLOCK FALSE
