------------------------------ MODULE Trace_TxSort ------------------------------
EXTENDS TxSort, TraceBase
V(clause, exp, got) == <<clause, exp, got>>
OK == <<>>
Keys(t) == [ins |-> [k \in 1..Len(t.ins) |-> <<Take(Rev(t.ins[k].hash), 3), t.ins[k].idx>>],
            outs |-> [k \in 1..Len(t.outs) |-> <<t.outs[k].value, Take(t.outs[k].script, 4)>>]]
Which(s, t) ==
  IF ~SameMultiset(s.ins, t.ins) THEN "inputs-not-a-permutation"
  ELSE IF ~SameMultiset(s.outs, t.outs) THEN "outputs-not-a-permutation"
  ELSE IF ~Ordered(s.ins, InLE) THEN "inputs-not-in-bip69-order"
  ELSE IF ~Ordered(s.outs, OutLE) THEN "outputs-not-in-bip69-order"
  ELSE "other-fields-changed"
VerdictS(p, e, s) ==
  IF "panic" \in DOMAIN e THEN V("panic", e.op, e.panic)
  ELSE IF e.op # "TxSort" THEN V("unknown-op", e.op, e.op)
  ELSE IF ~IsSortingOf(e.sorted, e.tx) THEN V(Which(e.sorted, e.tx), Cut(Keys(e.tx).ins), Cut(Keys(e.sorted).ins))
  ELSE IF e.origafter # e.tx THEN V("sort-modified-the-original", "unchanged", "changed")
  ELSE IF e.origaftermut # e.tx THEN V("sorted-copy-shares-memory-with-original", "unchanged", "changed")
  ELSE IF ~IsSortingOf(e.inplace, e.tx) THEN V("in-place-sort", Which(e.inplace, e.tx), Cut(Keys(e.inplace).ins))
  ELSE IF e.issorted # SortedPred(e.tx) THEN V("sortedness-predicate", SortedPred(e.tx), e.issorted)
  ELSE IF ~e.issorted2 THEN V("sorted-copy-not-reported-sorted", TRUE, e.issorted2)
  ELSE OK
InitS == TInit(0)
NextS == TNext(Same)
JudgeS == Judge(VerdictS)
=============================================================================
