---- MODULE KeyPool_TTrace_1790854715 ----
EXTENDS KeyPool, Sequences, TLCExt, Toolbox, Naturals, TLC

_expression ==
    LET KeyPool_TEExpression == INSTANCE KeyPool_TEExpression
    IN KeyPool_TEExpression!expression
----

_trace ==
    LET KeyPool_TETrace == INSTANCE KeyPool_TETrace
    IN KeyPool_TETrace!trace
----

_inv ==
    ~(
        TLCGet("level") = Len(_TETrace)
        /\
        kpNextObj = (3)
        /\
        kpPriv = (<<TRUE, FALSE>>)
        /\
        kpHist = (<<[s |-> 0, d |-> 3, o |-> "NewMaster"], [s |-> 3, d |-> 1, o |-> "Neuter"], [s |-> 1, d |-> 0, o |-> "Zero"]>>)
        /\
        kpNextBuf = (5)
        /\
        kpObj = (<<0, 0, 1>>)
        /\
        kpBufs = (<<1..4, 1..4>>)
        /\
        kpWiped = (1..4)
    )
----

_init ==
    /\ kpNextBuf = _TETrace[1].kpNextBuf
    /\ kpNextObj = _TETrace[1].kpNextObj
    /\ kpObj = _TETrace[1].kpObj
    /\ kpHist = _TETrace[1].kpHist
    /\ kpPriv = _TETrace[1].kpPriv
    /\ kpWiped = _TETrace[1].kpWiped
    /\ kpBufs = _TETrace[1].kpBufs
----

_next ==
    /\ \E i,j \in DOMAIN _TETrace:
        /\ \/ /\ j = i + 1
              /\ i = TLCGet("level")
        /\ kpNextBuf  = _TETrace[i].kpNextBuf
        /\ kpNextBuf' = _TETrace[j].kpNextBuf
        /\ kpNextObj  = _TETrace[i].kpNextObj
        /\ kpNextObj' = _TETrace[j].kpNextObj
        /\ kpObj  = _TETrace[i].kpObj
        /\ kpObj' = _TETrace[j].kpObj
        /\ kpHist  = _TETrace[i].kpHist
        /\ kpHist' = _TETrace[j].kpHist
        /\ kpPriv  = _TETrace[i].kpPriv
        /\ kpPriv' = _TETrace[j].kpPriv
        /\ kpWiped  = _TETrace[i].kpWiped
        /\ kpWiped' = _TETrace[j].kpWiped
        /\ kpBufs  = _TETrace[i].kpBufs
        /\ kpBufs' = _TETrace[j].kpBufs

\* Uncomment the ASSUME below to write the states of the error trace
\* to the given file in Json format. Note that you can pass any tuple
\* to `JsonSerialize`. For example, a sub-sequence of _TETrace.
    \* ASSUME
    \*     LET J == INSTANCE Json
    \*         IN J!JsonSerialize("KeyPool_TTrace_1790854715.json", _TETrace)

=============================================================================

 Note that you can extract this module `KeyPool_TEExpression`
  to a dedicated file to reuse `expression` (the module in the 
  dedicated `KeyPool_TEExpression.tla` file takes precedence 
  over the module `KeyPool_TEExpression` below).

---- MODULE KeyPool_TEExpression ----
EXTENDS KeyPool, Sequences, TLCExt, Toolbox, Naturals, TLC

expression == 
    [
        \* To hide variables of the `KeyPool` spec from the error trace,
        \* remove the variables below.  The trace will be written in the order
        \* of the fields of this record.
        kpNextBuf |-> kpNextBuf
        ,kpNextObj |-> kpNextObj
        ,kpObj |-> kpObj
        ,kpHist |-> kpHist
        ,kpPriv |-> kpPriv
        ,kpWiped |-> kpWiped
        ,kpBufs |-> kpBufs
        
        \* Put additional constant-, state-, and action-level expressions here:
        \* ,_stateNumber |-> _TEPosition
        \* ,_kpNextBufUnchanged |-> kpNextBuf = kpNextBuf'
        
        \* Format the `kpNextBuf` variable as Json value.
        \* ,_kpNextBufJson |->
        \*     LET J == INSTANCE Json
        \*     IN J!ToJson(kpNextBuf)
        
        \* Lastly, you may build expressions over arbitrary sets of states by
        \* leveraging the _TETrace operator.  For example, this is how to
        \* count the number of times a spec variable changed up to the current
        \* state in the trace.
        \* ,_kpNextBufModCount |->
        \*     LET F[s \in DOMAIN _TETrace] ==
        \*         IF s = 1 THEN 0
        \*         ELSE IF _TETrace[s].kpNextBuf # _TETrace[s-1].kpNextBuf
        \*             THEN 1 + F[s-1] ELSE F[s-1]
        \*     IN F[_TEPosition - 1]
    ]

=============================================================================



Parsing and semantic processing can take forever if the trace below is long.
 In this case, it is advised to uncomment the module below to deserialize the
 trace from a generated binary file.

\*
\*---- MODULE KeyPool_TETrace ----
\*EXTENDS KeyPool, IOUtils, TLC
\*
\*trace == IODeserialize("KeyPool_TTrace_1790854715.bin", TRUE)
\*
\*=============================================================================
\*

---- MODULE KeyPool_TETrace ----
EXTENDS KeyPool, TLC

trace == 
    <<
    ([kpNextObj |-> 1,kpPriv |-> <<>>,kpHist |-> <<>>,kpNextBuf |-> 1,kpObj |-> <<0, 0, 0>>,kpBufs |-> <<>>,kpWiped |-> {}]),
    ([kpNextObj |-> 2,kpPriv |-> <<TRUE>>,kpHist |-> <<[s |-> 0, d |-> 3, o |-> "NewMaster"]>>,kpNextBuf |-> 5,kpObj |-> <<0, 0, 1>>,kpBufs |-> <<1..4>>,kpWiped |-> {}]),
    ([kpNextObj |-> 3,kpPriv |-> <<TRUE, FALSE>>,kpHist |-> <<[s |-> 0, d |-> 3, o |-> "NewMaster"], [s |-> 3, d |-> 1, o |-> "Neuter"]>>,kpNextBuf |-> 5,kpObj |-> <<2, 0, 1>>,kpBufs |-> <<1..4, 1..4>>,kpWiped |-> {}]),
    ([kpNextObj |-> 3,kpPriv |-> <<TRUE, FALSE>>,kpHist |-> <<[s |-> 0, d |-> 3, o |-> "NewMaster"], [s |-> 3, d |-> 1, o |-> "Neuter"], [s |-> 1, d |-> 0, o |-> "Zero"]>>,kpNextBuf |-> 5,kpObj |-> <<0, 0, 1>>,kpBufs |-> <<1..4, 1..4>>,kpWiped |-> 1..4])
    >>
----


=============================================================================

---- CONFIG KeyPool_TTrace_1790854715 ----
CONSTANTS
    MaxKeys = 3
    MaxDepth = 5
    NeuterShares = TRUE
    Emit = FALSE

INVARIANT
    _inv

CHECK_DEADLOCK
    \* CHECK_DEADLOCK off because of PROPERTY or INVARIANT above.
    FALSE

INIT
    _init

NEXT
    _next

CONSTANT
    _TETrace <- _trace

ALIAS
    _expression
=============================================================================
\* Generated on Thu Oct 01 11:38:36 UTC 2026