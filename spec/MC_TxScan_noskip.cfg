INIT Init
NEXT Next
INVARIANT OrderIndependent
CONSTANTS
 SkipMatched = FALSE
 Recheck = TRUE
 Emit = FALSE
CHECK_DEADLOCK FALSE
