------------------------------ MODULE AddressExtras ------------------------------
(* Growth of the address specification beyond the listed properties:              *)
(*   ConvertSlpToCashAddress / ConvertCashToSlpAddress                            *)
(*   AddressPubKey: SetFormat / Format / String / ScriptAddress / EncodeAddress /  *)
(*                  AddressPubKeyHash() for the three serialisations of one point   *)
(*   Hash160 / Hash256 helpers.                                                   *)
(* Named deviations (what the code does, not what one might wish):                *)
(*   ConvertNoP2SH32   the converters refuse P2SH32 (and legacy / public-key)      *)
(*                     addresses with an error ("TODO add p2sh32?" in the source);  *)
(*   PubKeyNetById     AddressPubKeyHash() picks the cash prefix from the legacy    *)
(*                     P2PKH id: testnet3 for 0x6f (shared with regtest and the      *)
(*                     other testnets), simnet for its id, mainnet for anything else.*)
EXTENDS AddressCodec

\* ---- conversions -------------------------------------------------------------------
ConvertSpec(a, net, toSlp) ==
  IF a.kind \in {"P2PKH", "P2SH"} THEN Succ(CashAddr(a.kind, toSlp, net, a.payload))
  ELSE Fail("invalid-address-type")

\* ---- public keys --------------------------------------------------------------------
\* X, Y (32 bytes each) of a valid serialisation
PointOf(env, ser) ==
  IF Len(ser) = 33 THEN <<SubSeq(ser, 2, 33), EnvGet(env, "ec-decompress", ser)>>
  ELSE <<SubSeq(ser, 2, 33), SubSeq(ser, 34, 65)>>
SerialiseAs(fmt, pt) ==
  LET par == pt[2][32] % 2 IN
  CASE fmt = "compressed" -> <<2 + par>> \o pt[1]
    [] fmt = "hybrid" -> <<6 + par>> \o pt[1] \o pt[2]
    [] OTHER -> <<4>> \o pt[1] \o pt[2]
FormatOf(ser) == IF ser[1] \in {2, 3} THEN "compressed" ELSE IF ser[1] \in {6, 7} THEN "hybrid" ELSE "uncompressed"

\* which network's cash prefix AddressPubKeyHash() uses for legacy id `id` (deviation PubKeyNetById)
NetForId(cfg, id) ==
  LET byName(nm) == CHOOSE n \in {cfg.nets[k] : k \in 1..Len(cfg.nets)} : n.name = nm
      t3 == byName("testnet3")  rg == byName("regtest")  sm == byName("simnet")
  IN IF id = t3.pkh THEN t3 ELSE IF id = rg.pkh THEN rg ELSE IF id = sm.pkh THEN sm
     ELSE IF id = t3.sh THEN t3 ELSE IF id = rg.sh THEN rg ELSE IF id = sm.sh THEN sm
     ELSE byName("mainnet")
=============================================================================
