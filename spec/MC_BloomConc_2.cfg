INIT Init
NEXT Next
CONSTANT K = 2
INVARIANT I1_AccessUnderLock
INVARIANT I2_UnlockByHolderAndReleased
INVARIANT I3_NoSelfDeadlock
INVARIANT ModelSane
CHECK_DEADLOCK FALSE
