INIT Init
NEXT Next
INVARIANT Independent
CONSTANTS
 MaxKeys = 3
 MaxDepth = 5
 NeuterShares = TRUE
 Emit = FALSE
CHECK_DEADLOCK FALSE
