INIT Init
NEXT Next
INVARIANT Agree
CONSTANT MaxM = 3000
CHECK_DEADLOCK FALSE
