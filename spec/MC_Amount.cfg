INIT Init
NEXT Next
INVARIANT Agree
CONSTANT MaxM = 1000
CHECK_DEADLOCK FALSE
