INIT InitA
NEXT NextA
INVARIANT JudgeA
CHECK_DEADLOCK FALSE
