---------------------------- MODULE CoinSetCache ----------------------------
(* C19, "coin-set totals never drift", as an INDUCTIVE invariant checked symbolically  *)
(* by Apalache: the CoinSet of coinset/coins.go keeps two cached totals that PushCoin,   *)
(* PopCoin and ShiftCoin update incrementally.  Values and value-ages are unbounded       *)
(* integers here (TLC can only enumerate small ones); the list length is bounded by       *)
(* MaxLen for the symbolic sequence encoding.                                             *)
(*   apalache-mc check --init=IndInit --inv=IndInv --length=1 CoinSetCache.tla            *)
(*   apalache-mc check --init=Init    --inv=IndInv --length=0 CoinSetCache.tla            *)
EXTENDS Integers, Sequences, Apalache

MaxLen == 6

VARIABLES
  \* @type: Seq({value: Int, va: Int});
  coins,
  \* @type: Int;
  tv,
  \* @type: Int;
  tva

\* @type: (Int, {value: Int, va: Int}) => Int;
AddValue(acc, c) == acc + c.value
\* @type: (Int, {value: Int, va: Int}) => Int;
AddVA(acc, c) == acc + c.va
\* @type: (Seq({value: Int, va: Int})) => Int;
SumValue(s) == ApaFoldSeqLeft(AddValue, 0, s)
\* @type: (Seq({value: Int, va: Int})) => Int;
SumVA(s) == ApaFoldSeqLeft(AddVA, 0, s)

Init == coins = <<>> /\ tv = 0 /\ tva = 0

\* PushCoin: append, add to both cached totals
Push == \E v \in Int, a \in Int :
          /\ Len(coins) < MaxLen
          /\ coins' = Append(coins, [value |-> v, va |-> a])
          /\ tv' = tv + v /\ tva' = tva + a
\* PopCoin: remove the last element, subtract; nothing happens on an empty set
Pop == IF Len(coins) = 0 THEN UNCHANGED <<coins, tv, tva>>
       ELSE /\ coins' = SubSeq(coins, 1, Len(coins) - 1)
            /\ tv' = tv - coins[Len(coins)].value /\ tva' = tva - coins[Len(coins)].va
\* ShiftCoin: remove the first element, subtract
Shift == IF Len(coins) = 0 THEN UNCHANGED <<coins, tv, tva>>
         ELSE /\ coins' = Tail(coins)
              /\ tv' = tv - Head(coins).value /\ tva' = tva - Head(coins).va
Next == Push \/ Pop \/ Shift

IndInv == /\ Len(coins) <= MaxLen
          /\ tv = SumValue(coins)
          /\ tva = SumVA(coins)
\* an arbitrary state satisfying the invariant (symbolic sequence of up to MaxLen coins)
IndInit == /\ coins = Gen(MaxLen)
           /\ tv \in Int /\ tva \in Int
           /\ IndInv
=============================================================================
