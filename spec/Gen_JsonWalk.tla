------------------------------- MODULE Gen_JsonWalk -------------------------------
(* JSON tree generator for X05 / C08.  Every state is one tree (or one string):           *)
(*   "tree": all trees of depth <= 2 over six leaf kinds (a hex string, a string neither    *)
(*           rule touches, a base64 string, number, bool, null), arrays of <= 2 elements    *)
(*           and objects over the keys "a", "b" -- 19 504 trees; GEN_TIER = thorough wraps   *)
(*           each in a third level (5 wrapper shapes x 6 leaves, sampled 1 in GEN_MOD)      *)
(*   "str":  every string of length <= 4 over {A B = LF 0 f g /} as the member of an object  *)
(* The harness runs both walks on each tree, and the public Unmarshal on its text form.     *)
EXTENDS JsonWalk, TLC, Json, CSV, IOUtils

VARIABLES gjKind, gjI, gjJ, gjW, gjDone
vars == <<gjKind, gjI, gjJ, gjW, gjDone>>

Thorough == "GEN_TIER" \in DOMAIN IOEnv /\ IOEnv.GEN_TIER = "thorough"
SampleMod == IF "GEN_MOD" \in DOMAIN IOEnv THEN atoi(IOEnv.GEN_MOD) ELSE 1
SeedOff == IF "VERIF_SEED" \in DOMAIN IOEnv THEN atoi(IOEnv.VERIF_SEED) % SampleMod ELSE 0

LeafSeq == <<Str(<<48, 48>>), Str(<<122, 122>>), Str(<<65, 65, 61, 61>>), <<"n", 7>>, <<"b", 1>>, Null>>
NL == Len(LeafSeq)
KeyA == <<97>>
KeyB == <<98>>
\* object over {"a","b"}: index 0 = member absent
ObjOf(E, x, y) == <<"o", (IF x = 0 THEN <<>> ELSE << <<KeyA, E[x]>> >>) \o (IF y = 0 THEN <<>> ELSE << <<KeyB, E[y]>> >>)>>
ArrOf(E, x, y) == <<"a", (IF x = 0 THEN <<>> ELSE <<E[x]>>) \o (IF y = 0 THEN <<>> ELSE <<E[y]>>)>>

\* level 1: containers over leaves (arrays: y # 0 => x # 0)
L1Seq == Concat([x \in 1..(NL + 1) |-> Concat([y \in 1..(NL + 1) |->
            (IF x = 1 /\ y > 1 THEN <<>> ELSE <<ArrOf(LeafSeq, x - 1, y - 1)>>) \o <<ObjOf(LeafSeq, x - 1, y - 1)>>])])
E1 == LeafSeq \o L1Seq
NE == Len(E1)

Alpha == <<65, 66, 61, 10, 48, 102, 103, 47>>
\* the n-th string over Alpha in length-then-lexicographic order (n = 0 is the empty string)
StrOf(n) ==
  LET len == IF n < 1 THEN 0 ELSE IF n < 9 THEN 1 ELSE IF n < 73 THEN 2 ELSE IF n < 585 THEN 3 ELSE 4
      off == n - (IF len = 0 THEN 0 ELSE IF len = 1 THEN 1 ELSE IF len = 2 THEN 9 ELSE IF len = 3 THEN 73 ELSE 585)
  IN [k \in 1..len |-> Alpha[((off \div (8 ^ (len - k))) % 8) + 1]]

Tree2 == IF gjKind = "a" THEN ArrOf(E1, gjI, gjJ) ELSE ObjOf(E1, gjI, gjJ)
Wrap(t, w) ==
  LET shape == w \div NL  leaf == LeafSeq[(w % NL) + 1] IN
  IF w < 0 THEN t
  ELSE CASE shape = 0 -> <<"a", <<t>>>>
         [] shape = 1 -> <<"a", <<t, leaf>>>>
         [] shape = 2 -> <<"a", <<leaf, t>>>>
         [] shape = 3 -> <<"o", << <<KeyA, t>> >>>>
         [] OTHER -> <<"o", << <<KeyA, leaf>>, <<KeyB, t>> >>>>
Case == IF gjKind = "str" THEN [fam |-> "str", t |-> <<"o", << <<KeyA, Str(StrOf(gjI))>> >>>>]
        ELSE [fam |-> "tree", t |-> Wrap(Tree2, gjW)]

Init ==
  /\ gjDone = FALSE
  /\ \/ gjKind = "str" /\ gjI \in 0..4680 /\ gjJ = 0 /\ gjW = -1
     \/ gjKind \in {"a", "o"} /\ gjI \in 0..NE /\ gjJ \in 0..NE /\ (gjKind = "a" /\ gjJ # 0 => gjI # 0)
        /\ gjW \in (IF Thorough THEN -1..(5 * NL - 1) ELSE {-1})
Sampled == gjW < 0 \/ (gjI * 131 + gjJ * 17 + gjW * 7) % SampleMod = SeedOff
Next == /\ ~gjDone /\ gjDone' = TRUE /\ UNCHANGED <<gjKind, gjI, gjJ, gjW>>
        /\ Sampled => CSVWrite("%1$s", <<ToJson(Case)>>, IOEnv.GEN_OUT)
\* sanity of the generator against the specification: the walks never touch the shape above the strings
Sane == gjDone => Size(ConvertHex(Case.t)) <= Size(Case.t) /\ Tag(ConvertBase64(Case.t)) = Tag(Case.t)
=============================================================================
