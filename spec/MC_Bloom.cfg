SPECIFICATION Spec
CONSTANTS
  NBits = 3
  Items = {1, 2, 3}
  MaxHash = 2
INVARIANT NoFalseNeg
INVARIANT UnloadedInert
PROPERTY Monotone
PROPERTY UnloadedIgnores
CHECK_DEADLOCK FALSE
