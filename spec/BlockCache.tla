-------------------------------- MODULE BlockCache --------------------------------
(* C16: the Block / Tx wrappers as a cache state machine over OBJECT IDENTITIES.   *)
(* Abstract state  [n, slots, hashObj, bytesObj, height]:                          *)
(*   slots[i]   identity of the wrapped transaction handed out for index i-1       *)
(*              (0 = not wrapped yet);  hashObj / bytesObj likewise for the cached  *)
(*              hash object and byte slice.                                        *)
(* Values (hash, serialisation, per-transaction hashes and serialisations) are      *)
(* "fresh" facts recomputed from the underlying wire message by the harness.        *)
(* Every accessor is an action: its result must carry the fresh value and the       *)
(* identity must be the cached one if there is one, otherwise a NEW identity.        *)
EXTENDS LibCodec, FiniteSets

BC0(n, bytesObj) == [n |-> n, slots |-> Rep(0, n), hashObj |-> 0, bytesObj |-> bytesObj, height |-> -1]
UsedIds(s) == ({s.slots[k] : k \in 1..s.n} \cup {s.hashObj, s.bytesObj}) \ {0}

\* identity rule shared by all accessors: cached id if any, else an id never handed out before
IdOK(cached, got, used) == IF cached # 0 THEN got = cached ELSE (got # 0 /\ got \notin used)

InRange(s, i) == i >= 0 /\ i < s.n
\* Tx(i): slot update
TxNext(s, i, got) == IF InRange(s, i) /\ s.slots[i + 1] = 0 THEN [s EXCEPT !.slots[i + 1] = got] ELSE s
\* Transactions(): every empty slot gets the identity reported at that position
AllNext(s, ids) == [s EXCEPT !.slots = [k \in 1..s.n |-> IF s.slots[k] = 0 THEN ids[k] ELSE s.slots[k]]]

\* transaction locations inside the serialized block
TxLocSpec(n, lens) ==
  LET base == 80 + Len(CompactSize(n))
  IN [k \in 1..n |-> <<base + FoldLeft(LAMBDA acc, j : acc + lens[j], 0, [j \in 1..(k - 1) |-> j]), lens[k]>>]
=============================================================================
