INIT Init
NEXT Next
INVARIANT RoundTrip
INVARIANT Shrinks
CHECK_DEADLOCK FALSE
