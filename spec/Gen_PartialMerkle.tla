--------------------------- MODULE Gen_PartialMerkle ---------------------------
(* C12: exhaustive small-scope exploration of merkle-block messages.            *)
(* The extraction algorithm is run as an explicit-stack machine over ABSTRACT    *)
(* hash terms (atoms <<"L",a>> and <<"H",l,r>>) on a message that is chosen      *)
(* LAZILY: a flag bit or a hash is fixed only when the traversal consumes it,    *)
(* the unconsumed tail only by its length.  Each terminal state is therefore one *)
(* equivalence class of messages (transaction count, consumed bits and hashes,   *)
(* tail lengths) together with its verdict.                                     *)
(*  - invariant Sound: every reported (hash, pos) is the subterm of the returned *)
(*    root at the path given by pos (so it is a leaf at that position);          *)
(*  - invariant Agree: the recursive definition PartialMerkle!Extract gives the  *)
(*    same verdict on the class (tail filled with 0s and with 1s);              *)
(*  - every terminal state writes its class as a case; the harness turns atoms   *)
(*    into 32-byte hashes and runs the real extractor, TLC judges the result.   *)
EXTENDS PartialMerkle, TLC, Json, CSV, IOUtils

CONSTANTS MaxN, Atoms, FlagBytes      \* e.g. 5, {1,2,3}, {0,1,2}

VARIABLES pmN, pmNB, pmNH,   \* declared transactions, flag bits, hashes in the message
          pmStack,           \* frames [ht, pos, st, left]
          pmBits, pmHashes,  \* consumed so far
          pmRet, pmBad, pmM, pmDone
pmvars == <<pmN, pmNB, pmNH, pmStack, pmBits, pmHashes, pmRet, pmBad, pmM, pmDone>>

MaxNEnv == IF "GEN_MAXN" \in DOMAIN IOEnv THEN atoi(IOEnv.GEN_MAXN) ELSE MaxN
Leaf(a) == <<"L", a>>
HT(l, r) == <<"H", l, r>>
ZeroT == <<"Z">>
Frame(ht, pos) == [ht |-> ht, pos |-> pos, st |-> "enter", left |-> ZeroT]

PreFail == pmN = 0 \/ pmNH > pmN \/ pmNB < pmNH

Init ==
  /\ pmN \in 0..MaxNEnv /\ pmNB \in {8 * k : k \in FlagBytes} /\ pmNH \in 0..(MaxNEnv + 1)
  /\ pmNH <= pmN + 1
  /\ pmStack = IF pmN = 0 \/ pmNH > pmN \/ pmNB < pmNH THEN <<>> ELSE <<Frame(Height(pmN), 0)>>
  /\ pmBits = <<>> /\ pmHashes = <<>> /\ pmRet = ZeroT /\ pmBad = FALSE /\ pmM = <<>> /\ pmDone = FALSE

Top == pmStack[Len(pmStack)]
Pop == SubSeq(pmStack, 1, Len(pmStack) - 1)
SetTop(f) == [pmStack EXCEPT ![Len(pmStack)] = f]

Enter ==
  /\ Top.st = "enter"
  /\ IF Len(pmBits) >= pmNB
       THEN pmBad' = TRUE /\ pmStack' = <<>> /\ UNCHANGED <<pmBits, pmHashes, pmRet, pmM>>
       ELSE \E b \in {0, 1} :
              /\ pmBits' = Append(pmBits, b)
              /\ IF Top.ht = 0 \/ b = 0
                   THEN IF Len(pmHashes) >= pmNH
                          THEN pmBad' = TRUE /\ pmStack' = <<>> /\ UNCHANGED <<pmHashes, pmRet, pmM>>
                          ELSE \E a \in Atoms :
                                 /\ pmHashes' = Append(pmHashes, a)
                                 /\ pmRet' = Leaf(a)
                                 /\ pmM' = IF Top.ht = 0 /\ b = 1 THEN Append(pmM, <<Leaf(a), Top.pos>>) ELSE pmM
                                 /\ pmStack' = Pop /\ UNCHANGED pmBad
                   ELSE /\ pmStack' = Append(SetTop([Top EXCEPT !.st = "afterLeft"]), Frame(Top.ht - 1, 2 * Top.pos))
                        /\ UNCHANGED <<pmHashes, pmRet, pmM, pmBad>>
  /\ UNCHANGED <<pmN, pmNB, pmNH, pmDone>>

AfterLeft ==
  /\ Top.st = "afterLeft"
  /\ IF 2 * Top.pos + 1 < Width(pmN, Top.ht - 1)
       THEN /\ pmStack' = Append(SetTop([Top EXCEPT !.st = "afterRight", !.left = pmRet]), Frame(Top.ht - 1, 2 * Top.pos + 1))
            /\ UNCHANGED pmRet
       ELSE /\ pmRet' = HT(pmRet, pmRet) /\ pmStack' = Pop
  /\ UNCHANGED <<pmN, pmNB, pmNH, pmBits, pmHashes, pmBad, pmM, pmDone>>

AfterRight ==
  /\ Top.st = "afterRight"
  /\ IF pmRet = Top.left
       THEN pmBad' = TRUE /\ pmStack' = <<>> /\ UNCHANGED pmRet
       ELSE pmRet' = HT(Top.left, pmRet) /\ pmStack' = Pop /\ UNCHANGED pmBad
  /\ UNCHANGED <<pmN, pmNB, pmNH, pmBits, pmHashes, pmM, pmDone>>

Verdict ==
  IF PreFail \/ pmBad THEN "fail"
  ELSE IF (Len(pmBits) + 7) \div 8 # (pmNB + 7) \div 8 THEN "fail"
  ELSE IF Len(pmHashes) # pmNH THEN "fail"
  ELSE "ok"

TheCase == [n |-> pmN, bits |-> pmBits, hashes |-> pmHashes, nbits |-> pmNB, nhashes |-> pmNH, verdict |-> Verdict]

Finish ==
  /\ pmStack = <<>> /\ ~pmDone
  /\ pmDone' = TRUE
  /\ CSVWrite("%1$s", <<ToJson(TheCase)>>, IOEnv.GEN_OUT)
  /\ UNCHANGED <<pmN, pmNB, pmNH, pmStack, pmBits, pmHashes, pmRet, pmBad, pmM>>

Next == (pmStack # <<>> /\ (Enter \/ AfterLeft \/ AfterRight)) \/ Finish

\* ---- invariants ---------------------------------------------------------------------
RECURSIVE SubTerm(_, _, _, _)
\* the subterm of t (a node at height ht) reached by the path to leaf number pos
SubTerm(t, ht, pos, n) ==
  IF ht = 0 THEN t
  ELSE IF t[1] # "H" THEN ZeroT
  ELSE LET bit == (pos \div Pow2(ht - 1)) % 2
       IN SubTerm(IF bit = 0 THEN t[2] ELSE t[3], ht - 1, pos, n)
Sound ==
  (pmDone /\ Verdict = "ok") =>
     \A k \in 1..Len(pmM) : pmM[k][2] < pmN /\ SubTerm(pmRet, Height(pmN), pmM[k][2], pmN) = pmM[k][1]

\* the recursive definition agrees with the machine on the class, whatever fills the tail
Msg(fillBit, fillAtom) ==
  [n |-> pmN,
   bits |-> pmBits \o [k \in 1..(pmNB - Len(pmBits)) |-> fillBit],
   hashes |-> [k \in 1..Len(pmHashes) |-> Leaf(pmHashes[k])] \o [k \in 1..(pmNH - Len(pmHashes)) |-> Leaf(fillAtom)]]
Agree ==
  pmDone =>
    \A fb \in {0, 1} :
      LET x == Extract(Msg(fb, 1), FALSE, HT, ZeroT) IN
      /\ x.ok <=> (Verdict = "ok")
      /\ x.ok => (x.root = pmRet /\ x.m = pmM)
=============================================================================
