INIT Init
NEXT Next
INVARIANT Agree
CONSTANTS
 MaxN = 4
 MaxV = 24
 MaxP = 3
CHECK_DEADLOCK FALSE
