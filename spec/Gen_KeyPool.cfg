INIT Init
NEXT Next
CONSTANTS
 MaxKeys = 3
 MaxDepth = 4
 NeuterShares = FALSE
 Emit = TRUE
CHECK_DEADLOCK FALSE
