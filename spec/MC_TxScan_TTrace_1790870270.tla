---- MODULE MC_TxScan_TTrace_1790870270 ----
EXTENDS Sequences, TLCExt, Toolbox, MC_TxScan, Naturals, TLC

_expression ==
    LET MC_TxScan_TEExpression == INSTANCE MC_TxScan_TEExpression
    IN MC_TxScan_TEExpression!expression
----

_trace ==
    LET MC_TxScan_TETrace == INSTANCE MC_TxScan_TETrace
    IN MC_TxScan_TETrace!trace
----

_inv ==
    ~(
        TLCGet("level") = Len(_TETrace)
        /\
        scI0 = ({<<"item">>})
        /\
        scOuts = (<<<<[push |-> TRUE, pk |-> FALSE]>>, <<[push |-> FALSE, pk |-> FALSE]>>, <<[push |-> FALSE, pk |-> FALSE]>>>>)
        /\
        scSp = (<<{}, {<<1, 1>>}, {}>>)
        /\
        scStage = (2)
        /\
        scFlags = (1)
    )
----

_init ==
    /\ scStage = _TETrace[1].scStage
    /\ scFlags = _TETrace[1].scFlags
    /\ scOuts = _TETrace[1].scOuts
    /\ scSp = _TETrace[1].scSp
    /\ scI0 = _TETrace[1].scI0
----

_next ==
    /\ \E i,j \in DOMAIN _TETrace:
        /\ \/ /\ j = i + 1
              /\ i = TLCGet("level")
        /\ scStage  = _TETrace[i].scStage
        /\ scStage' = _TETrace[j].scStage
        /\ scFlags  = _TETrace[i].scFlags
        /\ scFlags' = _TETrace[j].scFlags
        /\ scOuts  = _TETrace[i].scOuts
        /\ scOuts' = _TETrace[j].scOuts
        /\ scSp  = _TETrace[i].scSp
        /\ scSp' = _TETrace[j].scSp
        /\ scI0  = _TETrace[i].scI0
        /\ scI0' = _TETrace[j].scI0

\* Uncomment the ASSUME below to write the states of the error trace
\* to the given file in Json format. Note that you can pass any tuple
\* to `JsonSerialize`. For example, a sub-sequence of _TETrace.
    \* ASSUME
    \*     LET J == INSTANCE Json
    \*         IN J!JsonSerialize("MC_TxScan_TTrace_1790870270.json", _TETrace)

=============================================================================

 Note that you can extract this module `MC_TxScan_TEExpression`
  to a dedicated file to reuse `expression` (the module in the 
  dedicated `MC_TxScan_TEExpression.tla` file takes precedence 
  over the module `MC_TxScan_TEExpression` below).

---- MODULE MC_TxScan_TEExpression ----
EXTENDS Sequences, TLCExt, Toolbox, MC_TxScan, Naturals, TLC

expression == 
    [
        \* To hide variables of the `MC_TxScan` spec from the error trace,
        \* remove the variables below.  The trace will be written in the order
        \* of the fields of this record.
        scStage |-> scStage
        ,scFlags |-> scFlags
        ,scOuts |-> scOuts
        ,scSp |-> scSp
        ,scI0 |-> scI0
        
        \* Put additional constant-, state-, and action-level expressions here:
        \* ,_stateNumber |-> _TEPosition
        \* ,_scStageUnchanged |-> scStage = scStage'
        
        \* Format the `scStage` variable as Json value.
        \* ,_scStageJson |->
        \*     LET J == INSTANCE Json
        \*     IN J!ToJson(scStage)
        
        \* Lastly, you may build expressions over arbitrary sets of states by
        \* leveraging the _TETrace operator.  For example, this is how to
        \* count the number of times a spec variable changed up to the current
        \* state in the trace.
        \* ,_scStageModCount |->
        \*     LET F[s \in DOMAIN _TETrace] ==
        \*         IF s = 1 THEN 0
        \*         ELSE IF _TETrace[s].scStage # _TETrace[s-1].scStage
        \*             THEN 1 + F[s-1] ELSE F[s-1]
        \*     IN F[_TEPosition - 1]
    ]

=============================================================================



Parsing and semantic processing can take forever if the trace below is long.
 In this case, it is advised to uncomment the module below to deserialize the
 trace from a generated binary file.

\*
\*---- MODULE MC_TxScan_TETrace ----
\*EXTENDS IOUtils, MC_TxScan, TLC
\*
\*trace == IODeserialize("MC_TxScan_TTrace_1790870270.bin", TRUE)
\*
\*=============================================================================
\*

---- MODULE MC_TxScan_TETrace ----
EXTENDS MC_TxScan, TLC

trace == 
    <<
    ([scI0 |-> {<<"item">>},scOuts |-> <<>>,scSp |-> <<>>,scStage |-> 0,scFlags |-> 1]),
    ([scI0 |-> {<<"item">>},scOuts |-> <<<<[push |-> TRUE, pk |-> FALSE]>>, <<[push |-> FALSE, pk |-> FALSE]>>, <<[push |-> FALSE, pk |-> FALSE]>>>>,scSp |-> <<>>,scStage |-> 1,scFlags |-> 1]),
    ([scI0 |-> {<<"item">>},scOuts |-> <<<<[push |-> TRUE, pk |-> FALSE]>>, <<[push |-> FALSE, pk |-> FALSE]>>, <<[push |-> FALSE, pk |-> FALSE]>>>>,scSp |-> <<{}, {<<1, 1>>}, {}>>,scStage |-> 2,scFlags |-> 1])
    >>
----


=============================================================================

---- CONFIG MC_TxScan_TTrace_1790870270 ----
CONSTANTS
    SkipMatched = TRUE
    Recheck = FALSE
    Emit = FALSE

INVARIANT
    _inv

CHECK_DEADLOCK
    \* CHECK_DEADLOCK off because of PROPERTY or INVARIANT above.
    FALSE

INIT
    _init

NEXT
    _next

CONSTANT
    _TETrace <- _trace

ALIAS
    _expression
=============================================================================
\* Generated on Thu Oct 01 15:58:07 UTC 2026