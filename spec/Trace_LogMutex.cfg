INIT TInit
NEXT TNext
CONSTANTS
 G = {1, 2, 3, 4}
 MaxOps = 1000000
VIEW View
INVARIANT LogSafe
CHECK_DEADLOCK FALSE
