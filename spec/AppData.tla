---------------------------------- MODULE AppData ----------------------------------
(* Growth X03: appdata.go transcribed.  AppDataDir(goos, appName, roaming) with the     *)
(* environment as explicit inputs: home (the current user's home directory, or $HOME),  *)
(* LOCALAPPDATA and APPDATA; path joining (filepath.Join) is an environment function.   *)
EXTENDS LibBytes, LibEnv

Dot == <<46>>
UpperFirst(s) == <<ToUpperA(s[1])>> \o Drop(s, 1)
LowerFirst(s) == <<ToLowerA(s[1])>> \o Drop(s, 1)
Join(env, parts) == EnvGet(env, "path-join", Concat([k \in 1..Len(parts) |-> parts[k] \o <<0>>]))
S(str) == str   \* strings are ASCII code sequences

AppDataDirSpec(env, goos, appName0, roaming, home, localAppData, appData) ==
  IF appName0 = <<>> \/ appName0 = Dot THEN Dot
  ELSE LET appName == IF appName0[1] = 46 THEN Drop(appName0, 1) ELSE appName0 IN
       IF appName = <<>> THEN <<-2>>                       \* "." prefix only: the code indexes appName[0] (panic)
       ELSE LET up == UpperFirst(appName)  lo == LowerFirst(appName) IN
       CASE goos = "windows" ->
              LET ad == IF roaming \/ localAppData = <<>> THEN appData ELSE localAppData
              IN IF ad # <<>> THEN Join(env, <<ad, up>>) ELSE Dot
         [] goos = "darwin" ->
              IF home # <<>> THEN Join(env, <<home, <<76,105,98,114,97,114,121>>, <<65,112,112,108,105,99,97,116,105,111,110,32,83,117,112,112,111,114,116>>, up>>) ELSE Dot
         [] goos = "plan9" -> IF home # <<>> THEN Join(env, <<home, lo>>) ELSE Dot
         [] OTHER -> IF home # <<>> THEN Join(env, <<home, Dot \o lo>>) ELSE Dot
=============================================================================
