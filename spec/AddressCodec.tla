---------------------------- MODULE AddressCodec ----------------------------
(* C01 / C02 (and the address part of C08): CashAddr, SLP, legacy            *)
(* Base58Check and raw public-key addresses as values, their prescribed       *)
(* strings, and the strict decoder.  Written from the CashAddr specification  *)
(* (version byte = type*8 + size code, 8->5 regrouping with zero padding,    *)
(* 40-bit BCH checksum over lo5(prefix) 0 payload) and Base58Check.           *)
(*                                                                           *)
(* Configuration (st): the six networks with their prefixes / legacy ids and  *)
(* the registered legacy id sets, read from chaincfg by the harness and       *)
(* passed as a Config event -- nothing about networks is hard-coded here.     *)
EXTENDS TextCodecs

\* ---- environment primitives ------------------------------------------------
Sha256(env, b)    == EnvGet(env, "sha256", b)
Ripemd160(env, b) == EnvGet(env, "ripemd160", b)
Hash160(env, b)   == LET s == Sha256(env, b) IN IF s = Missing THEN Missing ELSE Ripemd160(env, s)
Hash256(env, b)   == LET s == Sha256(env, b) IN IF s = Missing THEN Missing ELSE Sha256(env, s)

\* ---- CashAddr ----------------------------------------------------------------
TypeP2PKH == 0
TypeP2SH  == 1
SizeCode(n) == CASE n = 20 -> 0 [] n = 24 -> 1 [] n = 28 -> 2 [] n = 32 -> 3
                 [] n = 40 -> 4 [] n = 48 -> 5 [] n = 56 -> 6 [] n = 64 -> 7 [] OTHER -> -1
VersionByte(type, n) == type * 8 + SizeCode(n)
CashSymbols(type, hash) == RegroupPad(<<VersionByte(type, Len(hash))>> \o hash, 8, 5)
\* the payload string (no prefix) prescribed for (prefix, type, hash)
CashString(prefix, type, hash) ==
  LET p == CashSymbols(type, hash)
      all == p \o CashChecksum(prefix, p)
  IN [k \in 1..Len(all) |-> CharOf32(all[k])]

\* ---- address values ----------------------------------------------------------
\* kind: "P2PKH" "P2SH" "P2SH32" (cash format; slp = TRUE for the SLP-prefixed form),
\*       "LP2PKH" "LP2SH" (legacy), "PK" (raw public key; payload = serialisation)
CashKinds == {"P2PKH", "P2SH", "P2SH32"}
TypeOf(kind) == IF kind = "P2PKH" THEN TypeP2PKH ELSE TypeP2SH
GoType(kind) == CASE kind = "P2PKH" -> "*bchutil.AddressPubKeyHash"
                  [] kind = "P2SH" -> "*bchutil.AddressScriptHash"
                  [] kind = "P2SH32" -> "*bchutil.AddressScriptHash32"
                  [] kind = "LP2PKH" -> "*bchutil.LegacyAddressPubKeyHash"
                  [] kind = "LP2SH" -> "*bchutil.LegacyAddressScriptHash"
                  [] kind = "PK" -> "*bchutil.AddressPubKey"
                  [] OTHER -> "?"

CashAddr(kind, slp, net, hash) == [kind |-> kind, slp |-> slp, pre |-> IF slp THEN net.slp ELSE net.cash, id |-> 0, payload |-> hash]
LegacyAddr(kind, id, hash)     == [kind |-> kind, slp |-> FALSE, pre |-> <<>>, id |-> id, payload |-> hash]
PubKeyAddr(net, ser)           == [kind |-> "PK", slp |-> FALSE, pre |-> <<>>, id |-> net.pkh, payload |-> ser]

\* EncodeAddress()
EncodeOf(env, a) ==
  IF a.kind \in CashKinds THEN CashString(a.pre, TypeOf(a.kind), a.payload)
  ELSE IF a.kind = "PK" THEN CheckEnc(env, a.id, Hash160(env, a.payload))
  ELSE CheckEnc(env, a.id, a.payload)
\* String()
StringOf(env, a) == IF a.kind = "PK" THEN HexStr(a.payload) ELSE EncodeOf(env, a)
\* IsForNet(n): prefix / version-byte equality (SLP forms are not constrained by the property)
ForNet(a, n) ==
  IF a.kind \in CashKinds THEN a.pre = n.cash
  ELSE IF a.kind = "LP2SH" THEN a.id = n.sh
  ELSE a.id = n.pkh

\* ---- public keys ---------------------------------------------------------------
\* valid serialisations: 02/03 X (X on curve), 04 X Y (on curve), 06/07 X Y (on curve, parity matches)
PubKeyValid(env, ser) ==
  IF Len(ser) = 33 /\ ser[1] \in {2, 3}
    THEN LET y == EnvGet(env, "ec-decompress", ser) IN
         IF y = Missing THEN "missing" ELSE IF Len(y) = 32 THEN "ok" ELSE "bad"
  ELSE IF Len(ser) = 65 /\ ser[1] \in {4, 6, 7}
    THEN LET on == EnvGet(env, "ec-oncurve", SubSeq(ser, 2, 65)) IN
         IF on = Missing THEN "missing"
         ELSE IF on # <<1>> THEN "bad"
         ELSE IF ser[1] = 4 THEN "ok"
         ELSE IF ser[65] % 2 = ser[1] % 2 THEN "ok" ELSE "bad"
  ELSE "bad"

\* ---- strict decoder ---------------------------------------------------------------
Fail(why) == [ok |-> FALSE, why |-> why, a |-> [kind |-> "?", slp |-> FALSE, pre |-> <<>>, id |-> 0, payload |-> <<>>]]
Succ(a)   == [ok |-> TRUE, why |-> "", a |-> a]

\* body: lower-case payload characters (no prefix) to be verified under prefix
CashBody(prefix, body, slp, net) ==
  IF Len(body) < 8 THEN Fail("cash-too-short")
  ELSE IF \E k \in 1..Len(body) : Val32(body[k]) < 0 THEN Fail("cash-charset")
  ELSE LET vals == [k \in 1..Len(body) |-> Val32(body[k])] IN
       IF ~CashVerify(prefix, vals) THEN Fail("cash-checksum")
       ELSE LET data == SubSeq(vals, 1, Len(vals) - 8)
                r == Regroup(data, 5, 8)
            IN IF r.rem >= 5 \/ ~TailZero(r) THEN Fail("cash-padding")
               ELSE IF Len(r.out) = 0 THEN Fail("cash-empty")
               ELSE LET ver == r.out[1]  hash == Drop(r.out, 1) IN
                    IF ver = 0 /\ Len(hash) = 20 THEN Succ(CashAddr("P2PKH", slp, net, hash))
                    ELSE IF ver = 8 /\ Len(hash) = 20 THEN Succ(CashAddr("P2SH", slp, net, hash))
                    ELSE IF ver = 11 /\ Len(hash) = 32 THEN Succ(CashAddr("P2SH32", slp, net, hash))
                    ELSE IF ver \in {0, 8, 11} THEN Fail("cash-length")
                    ELSE Fail("cash-version")

HasPrefix(f, p) == Len(p) > 0 /\ Len(f) > Len(p) /\ SubSeq(f, 1, Len(p) + 1) = p \o <<58>>

LegacyDecode(env, cfg, s) ==
  LET d == CheckDec(env, s) IN
  IF ~d.ok THEN Fail(IF d.err = "checksum" THEN "legacy-checksum" ELSE "legacy-format")
  ELSE IF Len(d.payload) # 20 THEN Fail("legacy-length")
  ELSE LET isPKH == d.ver \in cfg.pkhIds  isSH == d.ver \in cfg.shIds IN
       IF isPKH /\ isSH THEN Fail("legacy-collision")
       ELSE IF isPKH THEN Succ(LegacyAddr("LP2PKH", d.ver, d.payload))
       ELSE IF isSH THEN Succ(LegacyAddr("LP2SH", d.ver, d.payload))
       ELSE Fail("legacy-unknown-id")

\* family of the string: decides which normalisation applies
DecodeSpec(env, cfg, s, net) ==
  LET f == LowerStr(s) IN
  IF HasPrefix(f, net.slp) THEN CashBody(net.slp, Drop(f, Len(net.slp) + 1), TRUE, net)
  ELSE IF HasPrefix(f, net.cash) THEN CashBody(net.cash, Drop(f, Len(net.cash) + 1), FALSE, net)
  ELSE LET c == CashBody(net.cash, f, FALSE, net) IN
       IF c.ok THEN c
       ELSE LET sl == IF Len(net.slp) > 0 THEN CashBody(net.slp, f, TRUE, net) ELSE Fail("no-slp") IN
            IF sl.ok THEN sl
            ELSE IF Len(s) \in {66, 130} /\ IsHexStr(s)
                   THEN LET ser == UnHex(s)  v == PubKeyValid(env, ser) IN
                        IF v = "missing" THEN Fail("ENV-MISSING")
                        ELSE IF v = "ok" THEN Succ(PubKeyAddr(net, ser)) ELSE Fail("pubkey-invalid")
            ELSE IF Len(s) \in {66, 130} THEN Fail("hex-invalid")
            ELSE LET l == LegacyDecode(env, cfg, s)
                     past == {"cash-padding", "cash-empty", "cash-length", "cash-version"}  \* failed after the checksum verified
                 IN IF l.ok THEN l
                    ELSE IF c.why \in past THEN c ELSE IF sl.why \in past THEN sl
                    ELSE IF l.why # "legacy-format" THEN l ELSE c

\* DecodeCashAddress(str): the generic CashAddr reader (any prefix) -------------------
CashFail == [ok |-> FALSE, prefix |-> <<>>, data |-> <<>>]
DecodeCashSpec(s) ==
  LET colon == IndexOf(s, 58) IN
  IF \E k \in 1..Len(s) : ~(IsLowerA(s[k]) \/ IsUpperA(s[k]) \/ IsDigitA(s[k]) \/ s[k] = 58) THEN CashFail
  ELSE IF colon < 2 \/ CountOf(s, 58) # 1 THEN CashFail                 \* prefix missing / empty / two separators
  ELSE IF \E k \in 1..(colon - 1) : IsDigitA(s[k]) THEN CashFail       \* digits in the prefix
  ELSE IF (\E k \in 1..Len(s) : IsLowerA(s[k])) /\ (\E k \in 1..Len(s) : IsUpperA(s[k])) THEN CashFail
  ELSE LET f == LowerStr(s)
           prefix == SubSeq(f, 1, colon - 1)
           body == Drop(f, colon)
       IN IF \E k \in 1..Len(body) : Val32(body[k]) < 0 THEN CashFail
          ELSE LET vals == [k \in 1..Len(body) |-> Val32(body[k])] IN
               IF Len(vals) < 8 \/ ~CashVerify(prefix, vals) THEN CashFail
               ELSE [ok |-> TRUE, prefix |-> prefix, data |-> SubSeq(vals, 1, Len(vals) - 8)]

\* TRUE when s mixes upper and lower case letters: ASCII case folding is a documented
\* normalisation, so accepting or rejecting such a rendering are both within the property
MixedCase(s) == (\E k \in 1..Len(s) : IsLowerA(s[k])) /\ (\E k \in 1..Len(s) : IsUpperA(s[k]))
=============================================================================
