--------------------------- MODULE MC_TextCodecs ---------------------------
(* Small-scope proof that the codec DEFINITIONS used as oracles are mutually  *)
(* inverse (encoder and decoder are written independently).  Every case is a  *)
(* TLC state; the invariant is evaluated on each.                             *)
EXTENDS TextCodecs, TLC

VARIABLES kind, x
vars == <<kind, x>>

AlphaSet == {B58Alphabet[j] : j \in 1..58}
Sub5 == {0, 1, 15, 31}
Hrps == {<<97>>, <<98, 99>>, <<116, 98>>, <<63, 49, 126>>}   \* "a" "bc" "tb" "?1~"

\* x grows one element per step, so every string up to the bound is a state and
\* the invariant is evaluated by all workers in parallel.
Init == \/ kind \in {"b58-bytes", "b58-str", "bits85"} /\ x = <<>>
        \/ kind = "bech32" /\ x \in {<<hh, <<>>>> : hh \in Hrps}
Next ==
  /\ UNCHANGED kind
  /\ \/ kind \in {"b58-bytes", "bits85"} /\ Len(x) < 2 /\ \E a \in Byte : x' = Append(x, a)
     \/ kind = "b58-str" /\ Len(x) < 3 /\ \E a \in AlphaSet : x' = Append(x, a)
     \/ kind = "bech32" /\ Len(x[2]) < 3 /\ \E a \in Sub5 : x' = <<x[1], Append(x[2], a)>>

FakeEnv(b) == <<[f |-> "sha256d", i |-> b, o |-> <<Len(b) % 256, 7, 9, 11, 13>>]>>

RoundTrip ==
  CASE kind = "b58-bytes" ->
         /\ B58Dec(B58Enc(x)) = x
         /\ AllIn(B58Enc(x), AlphaSet)
         /\ LeadingCount(B58Enc(x), 49) = LeadingCount(x, 0)
         \* Base58Check over an arbitrary 4-byte "hash": decode returns what was encoded
         /\ Len(x) >= 1 =>
              LET env == FakeEnv(x)
                  d == CheckDec(env, CheckEnc(env, x[1], Drop(x, 1)))
              IN d.ok /\ d.ver = x[1] /\ d.payload = Drop(x, 1)
    [] kind = "b58-str" -> B58Enc(B58Dec(x)) = x
    [] kind = "bits85" ->
         LET five == ConvertBitsSpec(x, 8, 5, TRUE)
             back == ConvertBitsSpec(five.out, 5, 8, FALSE)
         IN five.ok /\ back.ok /\ back.out = x /\ AllIn(five.out, 0..31)
            /\ Len(five.out) = (8 * Len(x) + 4) \div 5
    [] kind = "bech32" ->
         LET e == Bech32Enc(x[1], x[2])
             d == Bech32Dec(e.s)
             u == Bech32Dec(UpperStr(e.s))
         IN /\ e.ok
            /\ d.ok /\ d.hrp = x[1] /\ d.data = x[2]
            /\ u.ok /\ u.data = x[2]
            \* a single substituted data character is always rejected
            /\ \A p \in (Len(x[1]) + 2)..Len(e.s) :
                 ~Bech32Dec([e.s EXCEPT ![p] = IF e.s[p] = 113 THEN 112 ELSE 113]).ok
=============================================================================
