--------------------------- MODULE MC_TextCodecs ---------------------------
(* Small-scope proof that the codec DEFINITIONS used as oracles are mutually  *)
(* inverse (encoder and decoder are written independently).  Every case is a  *)
(* TLC state; the invariant is evaluated on each.                             *)
EXTENDS TextCodecs, TLC

VARIABLES mcKind, mcX
vars == <<mcKind, mcX>>

AlphaSet == {B58Alphabet[j] : j \in 1..58}
Sub5 == {0, 1, 15, 31}
Hrps == {<<97>>, <<98, 99>>, <<116, 98>>, <<63, 49, 126>>}   \* "a" "bc" "tb" "?1~"

\* mcX grows one element per step, so every string up to the bound is a state and
\* the invariant is evaluated by all workers in parallel.
Init == \/ mcKind \in {"b58-bytes", "b58-str", "bits85"} /\ mcX = <<>>
        \/ mcKind = "bech32" /\ mcX \in {<<hh, <<>>>> : hh \in Hrps}
Next ==
  /\ UNCHANGED mcKind
  /\ \/ mcKind \in {"b58-bytes", "bits85"} /\ Len(mcX) < 2 /\ \E a \in Byte : mcX' = Append(mcX, a)
     \/ mcKind = "b58-str" /\ Len(mcX) < 3 /\ \E a \in AlphaSet : mcX' = Append(mcX, a)
     \/ mcKind = "bech32" /\ Len(mcX[2]) < 3 /\ \E a \in Sub5 : mcX' = <<mcX[1], Append(mcX[2], a)>>

FakeEnv(b) == <<[f |-> "sha256d", i |-> b, o |-> <<Len(b) % 256, 7, 9, 11, 13>>]>>

RoundTrip ==
  CASE mcKind = "b58-bytes" ->
         /\ B58Dec(B58Enc(mcX)) = mcX
         /\ AllIn(B58Enc(mcX), AlphaSet)
         /\ LeadingCount(B58Enc(mcX), 49) = LeadingCount(mcX, 0)
         \* Base58Check over an arbitrary 4-byte "hash": decode returns what was encoded
         /\ Len(mcX) >= 1 =>
              LET env == FakeEnv(mcX)
                  d == CheckDec(env, CheckEnc(env, mcX[1], Drop(mcX, 1)))
              IN d.ok /\ d.ver = mcX[1] /\ d.payload = Drop(mcX, 1)
    [] mcKind = "b58-str" -> B58Enc(B58Dec(mcX)) = mcX
    [] mcKind = "bits85" ->
         LET five == ConvertBitsSpec(mcX, 8, 5, TRUE)
             back == ConvertBitsSpec(five.out, 5, 8, FALSE)
         IN five.ok /\ back.ok /\ back.out = mcX /\ AllIn(five.out, 0..31)
            /\ Len(five.out) = (8 * Len(mcX) + 4) \div 5
    [] mcKind = "bech32" ->
         LET e == Bech32Enc(mcX[1], mcX[2])
             d == Bech32Dec(e.s)
             u == Bech32Dec(UpperStr(e.s))
         IN /\ e.ok
            /\ d.ok /\ d.hrp = mcX[1] /\ d.data = mcX[2]
            /\ u.ok /\ u.data = mcX[2]
            \* a single substituted data character is always rejected
            /\ \A p \in (Len(mcX[1]) + 2)..Len(e.s) :
                 ~Bech32Dec([e.s EXCEPT ![p] = IF e.s[p] = 113 THEN 112 ELSE 113]).ok
=============================================================================
