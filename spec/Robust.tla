---------------------------------- MODULE Robust ----------------------------------
(* C08: every entry point that interprets untrusted data is TOTAL and frugal.        *)
(* One action per entry point; all share the same contract:                          *)
(*    outcome \in {"ok", "err"}        (never "panic", "hang", "crash")              *)
(*    cpu_ns  <= CpuBase + CpuQuad * len^2     (minimum of three repetitions)        *)
(*    alloc   <= AllocBase + AllocPerByte * len  (TotalAlloc delta of one call)       *)
(* len is the number of input bytes.  The constants are deliberately generous: the    *)
(* defects this property is about are unbounded (loops, recursion) or proportional    *)
(* to a COUNT CLAIMED INSIDE the input (4 G entries claimed by 13 bytes), not small    *)
(* constant factors.  Times are compared in microseconds, sizes in KiB (TLC ints).    *)
EXTENDS Integers, Sequences

EntryPoints == {"DecodeAddress", "DecodeCashAddress", "DecodeWIF", "Base58Decode", "Base58CheckDecode", "Bech32Decode",
                "NewKeyFromString", "NewBlockFromBytes", "NewTxFromBytes", "BloomLoadAndQuery", "MerkleExtract",
                "GcsFromNBytesAndQuery", "GcsFromBytesAndQuery", "JsonpbUnmarshal", "BlockScan", "NewAddressPubKey"}
CpuBaseUs == 50000          \* 50 ms
CpuQuadNsPerByte2 == 200    \* 200 ns * len^2
AllocBaseKiB == 8192        \* 8 MiB
AllocPerByteKiB == 64       \* 64 KiB per input byte

\* 200 ns * len^2 = len^2 / 5 microseconds, written so that it stays below 2^31 for len <= 100 000
CpuBoundUs(len) == CpuBaseUs + (IF len > 100000 THEN 2000000000 ELSE (len \div (1000 \div CpuQuadNsPerByte2) + 1) * len)
AllocBoundKiB(len) == AllocBaseKiB + (IF len > 1000000 THEN 2000000000 ELSE AllocPerByteKiB * len)

Contract(e) ==
  IF e.outcome \notin {"ok", "err"} THEN <<"not-total", e.outcome>>
  ELSE IF e.cpu_us > CpuBoundUs(e.len) THEN <<"time-bound", CpuBoundUs(e.len)>>
  ELSE IF e.alloc_kib > AllocBoundKiB(e.len) THEN <<"allocation-bound", AllocBoundKiB(e.len)>>
  ELSE <<>>
=============================================================================
