------------------------- MODULE Trace_ChecksumCodes -------------------------
(* C03 trace validation: black-box acceptance events (DecodeCashAddress,      *)
(* DecodeAddress, bech32.Decode on corrupted strings) are judged by the strict *)
(* decoders of AddressCodec / TextCodecs; PolyAffine / PolySparse events tie   *)
(* the implementation's syndrome table (on which TLC re-runs the minimum       *)
(* distance proof, ChecksumCodes with Source = "impl") to the implementation's *)
(* whole remainder map: P(u+v) = P(u)+P(v)+P(0) and P(sum a_k x^p_k) = P(0) +  *)
(* sum T[p_k][a_k].                                                          *)
EXTENDS Trace_AddressCodec

St0CC == [cfg |-> Cfg0, cash |-> <<>>, bech |-> <<>>]
X2(a, b) == <<a[1] ^^ b[1], a[2] ^^ b[2]>>

UpdCC(s, e) ==
  CASE e.op = "Config" -> [s EXCEPT !.cfg = Upd(s.cfg, e)]
    [] e.op = "CashTable" -> [s EXCEPT !.cash = e.t]
    [] e.op = "BechTable" -> [s EXCEPT !.bech = e.t]
    [] OTHER -> s

VerdictCC(p, e, s) ==
  CASE e.op \in {"Config", "CashTable", "BechTable"} -> OK
    [] e.op = "PolyAffine" ->
         IF e.puv = X2(X2(e.pu, e.pv), e.p0) THEN OK ELSE V("remainder-not-affine", X2(X2(e.pu, e.pv), e.p0), e.puv)
    [] e.op = "PolySparse" ->
         LET tab == IF e.code = "cash" THEN p.cash ELSE p.bech
             sum == FoldLeft(LAMBDA acc, t : X2(acc, tab[t[1] + 1][t[2]]), e.p0, e.terms)
         IN IF sum = e.pw THEN OK ELSE V("remainder-not-table-superposition", sum, e.pw)
    [] OTHER -> Verdict(p.cfg, e)

InitCC == TInit(St0CC)
NextCC == TNext(UpdCC)
JudgeCC == Judge(VerdictCC)
=============================================================================
