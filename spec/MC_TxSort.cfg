INIT Init
NEXT Next
INVARIANT NonEmptyIdempotent
CONSTANT MaxLen = 4
CHECK_DEADLOCK FALSE
