--------------------------------- MODULE Amount ---------------------------------
(* C17: amounts, on exact arithmetic.  A finite float is its IEEE-754 decomposition *)
(* logged by the harness: [cls, neg, mant (big-endian bytes of the 53-bit integer     *)
(* significand), exp] with value (-1)^neg * mant * 2^exp; cls in {"fin","nan","inf"}. *)
(* All rounding is done here on limb naturals:                                       *)
(*   RN53      round to nearest, ties to even, to a 53-bit significand (the single     *)
(*             floating-point rounding the statement allows);                         *)
(*   RoundAway round half away from zero to an integer.                               *)
EXTENDS GCS            \* limb helpers NShr / NLow

BitLen15(x) == IF x = 0 THEN 0 ELSE CHOOSE b \in 1..15 : Pow2(b - 1) <= x /\ x < Pow2(b)
NBitLen(a0) == LET a == NNorm(a0) IN IF Len(a) = 0 THEN 0 ELSE 15 * (Len(a) - 1) + BitLen15(a[Len(a)])
NShl(a, k) == NMul(a, NPow2(k))
NIsOdd(a) == NLimb(a, 1) % 2 = 1
NInc(a) == NAdd(a, <<1>>)

\* a dyadic value q * 2^s
Dy(q, s) == [q |-> NNorm(q), s |-> s]
DyEq(x, y) ==
  IF NIsZero(x.q) \/ NIsZero(y.q) THEN NIsZero(x.q) /\ NIsZero(y.q)
  ELSE LET m == Min2(x.s, y.s) IN
       IF x.s - m > 200 \/ y.s - m > 200 THEN FALSE
       ELSE NShl(x.q, x.s - m) = NShl(y.q, y.s - m)

\* round X * 2^s (plus a sticky bit below) to a 53-bit significand
RN53(X, s, sticky) ==
  LET L == NBitLen(X) IN
  IF L <= 53 THEN Dy(X, s)                       \* exact (callers guarantee no sticky in this case)
  ELSE LET d == L - 53
           q == NShr(X, d)
           rem == NLow(X, d)
           c == NCmp(rem, NPow2(d - 1))
           up == c > 0 \/ (c = 0 /\ (sticky \/ NIsOdd(q)))
       IN Dy(IF up THEN NInc(q) ELSE q, s + d)

\* round the non-negative dyadic value x half away from zero to a natural number
RoundAway(x) ==
  IF x.s >= 0 THEN NShl(x.q, x.s)
  ELSE LET t == 0 - x.s IN
       IF t > NBitLen(x.q) + 1 THEN <<>>
       ELSE LET i == NShr(x.q, t)  fr == NLow(x.q, t)
            IN IF NCmp(fr, NPow2(t - 1)) >= 0 THEN NInc(i) ELSE i

E8 == NPow10(8)
\* NewAmount(f): |result| as a limb natural (sign = sign of f)
NewAmountAbs(mant, exp) == RoundAway(RN53(NMul(mant, E8), exp, FALSE))
\* MulF64(a, f): |a| < 2^53 exact
MulAbs(absA, mant, exp) == RoundAway(RN53(NMul(absA, mant), exp, FALSE))

\* correctly rounded |a| / 10^k (k >= 0) and |a| * 10^(-k) (k < 0)
ToUnitAbs(absA, k) ==
  IF NIsZero(absA) THEN Dy(<<>>, 0)
  ELSE IF k <= 0 THEN RN53(NMul(absA, NPow10(0 - k)), 0, FALSE)
  ELSE LET sh == 4 * k + 64                      \* enough bits: the quotient keeps >= 60 significant bits
           st == FoldLeft(LAMBDA acc, j : LET qr == NDivModSmall(acc.x, 10) IN [x |-> qr[1], sticky |-> acc.sticky \/ qr[2] # 0],
                          [x |-> NShl(absA, sh), sticky |-> FALSE], [j \in 1..k |-> j])
       IN RN53(st.x, 0 - sh, st.sticky)

\* ---- decimal text ------------------------------------------------------------------------
\* parse "[-]ddd[.ddd]" (ASCII codes) -> [ok, neg, digits (all digits as a natural), fd (#fraction digits)]
ParseDec(t) ==
  LET neg == Len(t) > 0 /\ t[1] = 45
      body == IF neg THEN Drop(t, 1) ELSE t
      dot == IndexOf(body, 46)
      ip == IF dot = 0 THEN body ELSE SubSeq(body, 1, dot - 1)
      fp == IF dot = 0 THEN <<>> ELSE Drop(body, dot)
      ok == Len(ip) > 0 /\ (\A k \in 1..Len(ip) : IsDigitA(ip[k])) /\ (\A k \in 1..Len(fp) : IsDigitA(fp[k])) /\ (dot = 0 \/ Len(fp) > 0)
  IN [ok |-> ok, neg |-> neg, digits |-> IF ok THEN NFromDec([k \in 1..(Len(ip) + Len(fp)) |-> (ip \o fp)[k] - 48]) ELSE <<>>, fd |-> Len(fp)]
\* does the text denote exactly (-1)^neg * absA * 10^(-k) ?
Denotes(p, neg, absA, k) ==
  /\ p.ok
  /\ (NIsZero(absA) \/ p.neg = neg) /\ (NIsZero(absA) => NIsZero(p.digits))
  /\ IF k >= 0 THEN NMul(p.digits, NPow10(k)) = NNorm(NMul(absA, NPow10(p.fd)))
               ELSE p.digits = NNorm(NMul(absA, NPow10(p.fd - k)))

UnitLabel(u) ==
  CASE u = 6 -> <<77, 66, 67, 72>> [] u = 3 -> <<107, 66, 67, 72>> [] u = 0 -> <<66, 67, 72>>
    [] u = -3 -> <<109, 66, 67, 72>> [] u = -6 -> <<206, 188, 66, 67, 72>> [] u = -8 -> <<83, 97, 116, 111, 115, 104, 105>>
    [] OTHER -> <<49, 101>> \o (IF u < 0 THEN <<45>> ELSE <<>>) \o [j \in 1..Len(NToDec(NFromSmall(IF u < 0 THEN 0 - u ELSE u))) |-> NToDec(NFromSmall(IF u < 0 THEN 0 - u ELSE u))[j] + 48] \o <<32, 66, 67, 72>>
=============================================================================
