INIT InitT
NEXT NextT
INVARIANT JudgeT
CHECK_DEADLOCK FALSE
