-------------------------- MODULE Trace_AddressCodec --------------------------
EXTENDS AddressCodec, TraceBase

V(clause, exp, got) == <<clause, exp, got>>
OK == <<>>

Cfg0 == [nets |-> <<>>, pkhIds |-> {}, shIds |-> {}]
SetOf(s) == {s[k] : k \in 1..Len(s)}

\* facts the prescribed strings of a need
EnvReady(env, a) ==
  IF a.kind \in CashKinds THEN TRUE
  ELSE IF a.kind = "PK"
    THEN LET hh == Hash160(env, a.payload) IN hh # Missing /\ EnvGet(env, "sha256d", <<a.id>> \o hh) # Missing
  ELSE EnvGet(env, "sha256d", <<a.id>> \o a.payload) # Missing

\* compare every observable of the returned address with the abstract value a
CheckAddr(env, cfg, a, e) ==
  IF ~EnvReady(env, a) THEN EnvMissingV("hash")
  ELSE IF e.rtype # GoType(a.kind) THEN V("address-kind", GoType(a.kind), e.rtype)
  ELSE IF e.payload # a.payload THEN V("script-payload", a.payload, e.payload)
  \* Hash160() / Hash256() return the same hash as an array; PubKey() is the same point (its X coordinate is the
  \* one in the serialisation, whatever the format)
  ELSE IF "hashm" \in DOMAIN e /\ e.hashm # a.payload THEN V("hash-accessor", a.payload, e.hashm)
  ELSE IF "pubm" \in DOMAIN e /\ (Len(e.pubm) # 33 \/ SubSeq(e.pubm, 2, 33) # SubSeq(a.payload, 2, 33)) THEN V("pubkey-accessor", SubSeq(a.payload, 2, 33), e.pubm)
  ELSE IF e.enc # EncodeOf(env, a) THEN V("encoded-string", EncodeOf(env, a), e.enc)
  ELSE IF e.str # StringOf(env, a) THEN V("string-form", StringOf(env, a), e.str)
  ELSE IF ~a.slp /\ \E n \in 1..Len(cfg.nets) : e.fornet[n] # ForNet(a, cfg.nets[n])
         THEN V("network-membership", [n \in 1..Len(cfg.nets) |-> ForNet(a, cfg.nets[n])], e.fornet)
  ELSE OK

CtorSpec(env, net, ctor, data) ==
  LET lenOK(n) == Len(data) = n IN
  CASE ctor = "PubKeyHash" -> IF lenOK(20) THEN Succ(CashAddr("P2PKH", FALSE, net, data)) ELSE Fail("length")
    [] ctor = "SlpPubKeyHash" -> IF lenOK(20) THEN Succ(CashAddr("P2PKH", TRUE, net, data)) ELSE Fail("length")
    [] ctor = "ScriptHashFromHash" -> IF lenOK(20) THEN Succ(CashAddr("P2SH", FALSE, net, data)) ELSE Fail("length")
    [] ctor = "SlpScriptHashFromHash" -> IF lenOK(20) THEN Succ(CashAddr("P2SH", TRUE, net, data)) ELSE Fail("length")
    [] ctor = "ScriptHash32FromHash" -> IF lenOK(32) THEN Succ(CashAddr("P2SH32", FALSE, net, data)) ELSE Fail("length")
    [] ctor = "SlpScriptHash32FromHash" -> IF lenOK(32) THEN Succ(CashAddr("P2SH32", TRUE, net, data)) ELSE Fail("length")
    [] ctor = "ScriptHash" -> IF Hash160(env, data) = Missing THEN Fail("ENV-MISSING") ELSE Succ(CashAddr("P2SH", FALSE, net, Hash160(env, data)))
    [] ctor = "ScriptHash32" -> IF Hash256(env, data) = Missing THEN Fail("ENV-MISSING") ELSE Succ(CashAddr("P2SH32", FALSE, net, Hash256(env, data)))
    [] ctor = "LegacyPubKeyHash" -> IF lenOK(20) THEN Succ(LegacyAddr("LP2PKH", net.pkh, data)) ELSE Fail("length")
    [] ctor = "LegacyScriptHashFromHash" -> IF lenOK(20) THEN Succ(LegacyAddr("LP2SH", net.sh, data)) ELSE Fail("length")
    [] ctor = "LegacyScriptHash" -> IF Hash160(env, data) = Missing THEN Fail("ENV-MISSING") ELSE Succ(LegacyAddr("LP2SH", net.sh, Hash160(env, data)))
    [] ctor = "PubKey" -> LET v == PubKeyValid(env, data) IN
                          IF v = "missing" THEN Fail("ENV-MISSING") ELSE IF v = "ok" THEN Succ(PubKeyAddr(net, data)) ELSE Fail("pubkey-invalid")
    [] OTHER -> Fail("unknown-ctor")

IsSlpCtor(c) == c \in {"SlpPubKeyHash", "SlpScriptHashFromHash", "SlpScriptHash32FromHash"}

Verdict(cfg, e) ==
  IF "panic" \in DOMAIN e THEN V("panic", e.op, e.panic)
  \* constructors are pure in their arguments: the bytes passed and the spare capacity behind them are unchanged
  ELSE IF "argmod" \in DOMAIN e /\ e.argmod THEN V("argument-memory-modified", e.ctor, e.data)
  ELSE
  CASE e.op = "NewAddr" ->
         LET net == cfg.nets[e.net]  x == CtorSpec(e.env, net, e.ctor, e.data) IN
         IF IsSlpCtor(e.ctor) /\ Len(net.slp) = 0 THEN OK      \* SLP forms only on nets that define an SLP prefix
         ELSE IF x.why = "ENV-MISSING" THEN EnvMissingV("ctor")
         ELSE IF x.why = "unknown-ctor" THEN V("unknown-op", e.ctor, e.ctor)
         ELSE IF e.ok # x.ok THEN V("constructor-acceptance", x.ok, e.ok)
         ELSE IF ~x.ok THEN OK
         ELSE CheckAddr(e.env, cfg, x.a, e)
    [] e.op = "Decode" ->
         LET net == cfg.nets[e.net]  x == DecodeSpec(e.env, cfg, e.s, net) IN
         IF x.why = "ENV-MISSING" THEN EnvMissingV("decode")
         ELSE IF e.ok THEN
           IF ~x.ok THEN V("accepted-invalid", x.why, e.enc)
           ELSE LET c == CheckAddr(e.env, cfg, x.a, e) IN
                IF c # OK THEN c
                \* canonical form: the accepted string is the re-encoding up to case folding / prefix
                ELSE IF x.a.kind \in CashKinds THEN
                       LET f == LowerStr(e.s)
                           body == IF HasPrefix(f, x.a.pre) THEN Drop(f, Len(x.a.pre) + 1) ELSE f
                       IN IF body = e.enc THEN OK ELSE V("non-canonical", e.enc, body)
                ELSE IF x.a.kind = "PK" THEN IF LowerStr(e.s) = e.str THEN OK ELSE V("non-canonical", e.str, e.s)
                ELSE IF e.s = e.enc THEN OK ELSE V("non-canonical", e.enc, e.s)
         ELSE IF x.ok /\ ~(MixedCase(e.s) /\ x.a.kind \in (CashKinds \cup {"PK"})) THEN V("rejected-valid", x.a.kind, e.errc)
         ELSE OK
    [] e.op = "DecodeCash" ->
         LET x == DecodeCashSpec(e.s)  got == [ok |-> e.ok, prefix |-> e.rprefix, data |-> e.rdata] IN
         IF x = got THEN OK
         ELSE IF e.ok /\ ~x.ok THEN V("cashaddr-accepted-invalid", x, got)
         ELSE IF ~e.ok /\ x.ok THEN V("cashaddr-rejected-valid", x, got)
         ELSE V("cashaddr-decode-result", x, got)
    [] e.op = "Bech32Encode" ->
         LET x == Bech32Enc(e.hrp, e.data)  got == [ok |-> e.ok, s |-> e.ret]
         \* a result longer than 90 characters is not a bech32 string (the property quantifies within that limit):
         \* Encode may produce it or refuse it
         IN IF x = got \/ (x.ok /\ Len(x.s) > 90 /\ ~got.ok) THEN OK ELSE V("bech32-encode", x, got)
    [] e.op = "Bech32Decode" ->
         LET x == Bech32Dec(e.s)  got == [ok |-> e.ok, hrp |-> e.rhrp, data |-> e.rdata]
         IN IF x = got THEN OK
            ELSE IF e.ok /\ ~x.ok THEN V("bech32-accepted-invalid", x, got)
            ELSE V("bech32-decode", x, got)
    [] OTHER -> V("unknown-op", e.op, e.op)

Upd(s, e) == IF e.op = "Config" THEN [nets |-> e.nets, pkhIds |-> SetOf(e.pkhIds), shIds |-> SetOf(e.shIds)] ELSE s
V3(p, e, s) == IF e.op = "Config" THEN OK ELSE Verdict(p, e)
Init == TInit(Cfg0)
Next == TNext(Upd)
JudgeInv == Judge(V3)
=============================================================================
