------------------------------- MODULE Trace_JsonWalk -------------------------------
EXTENDS JsonWalk, TraceBase
V(clause, exp, got) == <<clause, exp, got>>
OK == <<>>

\* the fact the underlying protobuf JSON reader (outside the repository) recorded for tree t
CandOf(cands, t) ==
  LET m == SelectSeq(cands, LAMBDA c : c.i = t) IN IF Len(m) = 0 THEN [found |-> FALSE, o |-> [ok |-> FALSE, bytes |-> <<>>]] ELSE [found |-> TRUE, o |-> m[1].o]

VerdictJW(p, e, s) ==
  IF "panic" \in DOMAIN e THEN V("panic", e.op, e.panic)
  ELSE CASE e.op = "JsonWalk" ->
              LET want == Walk(e.in, e.dir) IN
              IF e.out = want THEN OK
              ELSE V(IF e.dir = "hex" THEN "convert-hex-tree" ELSE "convert-base64-tree", want, e.out)
         [] e.op = "JsonUnmarshal" ->
              \* Unmarshal = the underlying reader applied to ConvertHex(tree)
              LET c == CandOf(e.cands, ConvertHex(e.in)) IN
              IF ~c.found THEN <<"ENV-MISSING", "inner-unmarshal">>
              ELSE IF e.ret # c.o THEN V("unmarshal-result", c.o, e.ret)
              ELSE OK
         [] e.op = "JsonMarshal" ->
              \* Marshal = ConvertBase64 applied to what the underlying writer produced; both entry points agree
              LET want == ConvertBase64(e.inner) IN
              IF e.out # want THEN V("marshal-result", want, e.out)
              ELSE IF ~e.same THEN V("marshal-and-marshal-to-string-differ", TRUE, FALSE)
              ELSE OK
         [] OTHER -> V("unknown-op", e.op, e.op)
InitJW == TInit(0)
NextJW == TNext(Same)
JudgeJW == Judge(VerdictJW)
=============================================================================
