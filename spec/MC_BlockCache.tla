------------------------------- MODULE MC_BlockCache -------------------------------
(* Design-level check and history generator for C16: all call sequences of bounded  *)
(* depth over {Bytes, Hash, Tx(i), TxHash(i), Transactions, TxLoc} with              *)
(* i in -1..n on blocks of n <= MaxTx transactions, executed on the ABSTRACT cache   *)
(* with a fresh-identity allocator.  Invariants: identities never change once        *)
(* handed out, are pairwise distinct, and slots are only ever filled (monotone).     *)
(* With Emit = TRUE every history of exactly Depth calls is written as a case.       *)
EXTENDS BlockCache, TLC, Json, CSV, IOUtils
CONSTANTS MaxTx, Depth, Emit
VARIABLES mbS, mbNext, mbHist
mbvars == <<mbS, mbNext, mbHist>>
D == IF "GEN_DEPTH" \in DOMAIN IOEnv THEN atoi(IOEnv.GEN_DEPTH) ELSE Depth

Init == \E n \in 0..MaxTx : mbS = BC0(n, 0) /\ mbNext = 1 /\ mbHist = <<>>
Call(c) ==
  CASE c.o = "Bytes" -> IF mbS.bytesObj = 0 THEN mbS' = [mbS EXCEPT !.bytesObj = mbNext] /\ mbNext' = mbNext + 1 ELSE UNCHANGED <<mbS, mbNext>>
    [] c.o = "Hash" -> IF mbS.hashObj = 0 THEN mbS' = [mbS EXCEPT !.hashObj = mbNext] /\ mbNext' = mbNext + 1 ELSE UNCHANGED <<mbS, mbNext>>
    [] c.o \in {"Tx", "TxHash"} ->
         IF InRange(mbS, c.i) /\ mbS.slots[c.i + 1] = 0 THEN mbS' = TxNext(mbS, c.i, mbNext) /\ mbNext' = mbNext + 1 ELSE UNCHANGED <<mbS, mbNext>>
    [] c.o = "Transactions" ->
         /\ mbS' = AllNext(mbS, [k \in 1..mbS.n |-> mbNext + k - 1]) /\ mbNext' = mbNext + mbS.n
    [] OTHER -> UNCHANGED <<mbS, mbNext>>
Calls == {[o |-> nm, i |-> 0] : nm \in {"Bytes", "Hash", "Transactions", "TxLoc"}}
           \cup {[o |-> nm, i |-> k] : nm \in {"Tx", "TxHash"}, k \in -1..mbS.n}
Next == /\ Len(mbHist) < D
        /\ \E c \in Calls : Call(c) /\ mbHist' = Append(mbHist, c)
        /\ (Emit /\ Len(mbHist) + 1 = D) => CSVWrite("%1$s", <<ToJson([n |-> mbS.n, calls |-> mbHist'])>>, IOEnv.GEN_OUT)

Distinct == LET ids == <<mbS.hashObj, mbS.bytesObj>> \o mbS.slots  nz == SelectSeq(ids, LAMBDA x : x # 0)
            IN Cardinality({nz[k] : k \in 1..Len(nz)}) = Len(nz)
Stable == [][/\ \A k \in 1..mbS.n : mbS.slots[k] # 0 => mbS'.slots[k] = mbS.slots[k]
             /\ mbS.hashObj # 0 => mbS'.hashObj = mbS.hashObj
             /\ mbS.bytesObj # 0 => mbS'.bytesObj = mbS.bytesObj]_mbvars
Spec == Init /\ [][Next]_mbvars
=============================================================================
