------------------------------- MODULE Trace_Amount -------------------------------
EXTENDS Amount, TraceBase
V(clause, exp, got) == <<clause, exp, got>>
OK == <<>>
\* logged integers: [neg, abs (big-endian bytes)], logged floats: [cls, neg, mant (bytes), exp]
AbsOf(x) == NFromBytesBE(x.abs)
FDy(f) == Dy(NFromBytesBE(f.mant), f.exp)
Show(x) == NToDec(x)
IntEq(x, neg, absN) == NFromBytesBE(x.abs) = NNorm(absN) /\ (NIsZero(absN) \/ x.neg = neg)

\* |x - y| <= max(x, y) * 2^-52 for two non-negative dyadic values: "within about one unit in the last place"
MinI(a, b) == IF a < b THEN a ELSE b
WithinOneUlp(x, y) ==
  LET m == MinI(x.s, y.s)
      X == NShl(x.q, x.s - m)
      Y == NShl(y.q, y.s - m)
      big == IF NCmp(X, Y) >= 0 THEN X ELSE Y
      small == IF NCmp(X, Y) >= 0 THEN Y ELSE X
  IN NCmp(NShl(NSub(big, small), 52), big) <= 0

VerdictA(p, e, s) ==
  IF "panic" \in DOMAIN e THEN V("panic", e.op, e.panic)
  ELSE
  CASE e.op = "NewAmount" ->
         IF e.f.cls # "fin" THEN (IF e.ok THEN V("nan-or-infinity-accepted", "error", e.f.cls) ELSE OK)
         ELSE IF ~e.ok THEN V("finite-float-rejected", "ok", "error")
         ELSE LET x == NewAmountAbs(NFromBytesBE(e.f.mant), e.f.exp) IN
              IF IntEq(e.ret, e.f.neg, x) THEN OK ELSE V("newamount-rounding", [neg |-> e.f.neg, abs |-> Show(x)], [neg |-> e.ret.neg, abs |-> Show(AbsOf(e.ret))])
    [] e.op = "ToUnit" ->
         LET x == ToUnitAbs(AbsOf(e.a), e.u + 8) IN
         IF e.r.cls = "fin" /\ DyEq(FDy(e.r), x) /\ (NIsZero(x.q) \/ e.r.neg = e.a.neg) THEN OK
         \* below Satoshi the code divides by an inexact power of ten (a known finding): that result is the correctly
         \* rounded one or its neighbour, and is reported under its own clause; anything further away is not
         ELSE IF e.u < -8 /\ e.r.cls = "fin" /\ (NIsZero(x.q) \/ e.r.neg = e.a.neg) /\ WithinOneUlp(FDy(e.r), x)
           THEN V("unit-conversion-double-rounded-below-satoshi", [q |-> Show(x.q), s |-> x.s], [q |-> Show(NFromBytesBE(e.r.mant)), s |-> e.r.exp])
         ELSE V("unit-conversion-not-correctly-rounded", [q |-> Show(x.q), s |-> x.s], [q |-> Show(NFromBytesBE(e.r.mant)), s |-> e.r.exp])
    [] e.op = "RoundTrip" ->
         \* NewAmount(a.ToBCH()) = a
         IF ~((e.back.neg = e.a.neg /\ e.back.abs = e.a.abs) \/ (NIsZero(AbsOf(e.a)) /\ NIsZero(AbsOf(e.back))))
           THEN V("bch-round-trip", Show(AbsOf(e.a)), Show(AbsOf(e.back)))
         \* ToBCH() itself is the correctly rounded a / 10^8 (the same value ToUnit(AmountBCH) gives)
         ELSE IF "r" \in DOMAIN e THEN
                LET x == ToUnitAbs(AbsOf(e.a), 8) IN
                IF e.r.cls = "fin" /\ DyEq(FDy(e.r), x) /\ (NIsZero(x.q) \/ e.r.neg = e.a.neg) THEN OK
                ELSE V("to-bch-not-correctly-rounded", [q |-> Show(x.q), s |-> x.s], [q |-> Show(NFromBytesBE(e.r.mant)), s |-> e.r.exp])
         ELSE OK
    [] e.op = "Format" ->
         LET sp == IndexOf(e.text, 32)
             num == IF sp = 0 THEN e.text ELSE SubSeq(e.text, 1, sp - 1)
             lab == IF sp = 0 THEN <<>> ELSE Drop(e.text, sp)
             pd == ParseDec(num)
         IN IF lab # UnitLabel(e.u) THEN V("unit-label", UnitLabel(e.u), lab)
            \* below Satoshi the value a * 10^j (j = -(unit+8)) goes through a float64 (a known finding); a one-ulp error
            \* of that float can only show in the j printed decimals when a * 10^(2j) >= 2^51 -- smaller amounts must
            \* still be printed exactly
            ELSE IF ~Denotes(pd, e.a.neg, AbsOf(e.a), e.u + 8) THEN
                   V(IF e.u < -8 /\ NCmp(NMul(AbsOf(e.a), NPow10(2 * (0 - (e.u + 8)))), NPow2(51)) >= 0
                       THEN "decimal-text-value-beyond-float-precision-below-satoshi" ELSE "decimal-text-value",
                     [abs |-> Show(AbsOf(e.a)), k |-> e.u + 8], Cut(num))
            ELSE OK
    [] e.op = "MulF64" ->
         IF e.f.cls # "fin" THEN OK
         ELSE LET x == MulAbs(AbsOf(e.a), NFromBytesBE(e.f.mant), e.f.exp)
                  neg == (e.a.neg # e.f.neg)
              IN IF IntEq(e.ret, neg, x) THEN OK ELSE V("mulf64-rounding", [neg |-> neg, abs |-> Show(x)], [neg |-> e.ret.neg, abs |-> Show(AbsOf(e.ret))])
    [] OTHER -> V("unknown-op", e.op, e.op)

InitA == TInit(0)
NextA == TNext(Same)
JudgeA == Judge(VerdictA)
=============================================================================
