INIT InitR
NEXT NextR
INVARIANT JudgeR
CHECK_DEADLOCK FALSE
