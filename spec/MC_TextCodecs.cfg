INIT Init
NEXT Next
INVARIANT RoundTrip
CHECK_DEADLOCK FALSE
