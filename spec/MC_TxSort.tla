------------------------------- MODULE MC_TxSort -------------------------------
(* The sorting relation is non-empty, and every admissible sorting is itself     *)
(* sorted and a fixed point (idempotence), for all sequences of up to MaxLen      *)
(* inputs/outputs over a small key alphabet with ties.                           *)
EXTENDS TxSort, TLC, FiniteSets
CONSTANT MaxLen
VARIABLES msIns, msOuts
InAlpha == {[hash |-> <<a>> \o Rep(0, 30) \o <<b>>, idx |-> <<0, c>>, script |-> <<>>, seq |-> <<0, 0>>] : a \in {0, 1}, b \in {0, 1}, c \in {0, 1}}
OutAlpha == {[value |-> Rep(0, 7) \o <<v>>, script |-> sc] : v \in {0, 1}, sc \in {<<>>, <<1>>, <<1, 0>>}}
Init == msIns = <<>> /\ msOuts = <<>>
Next == \/ Len(msIns) < MaxLen /\ Len(msOuts) = 0 /\ (\E x \in InAlpha : msIns' = Append(msIns, x)) /\ UNCHANGED msOuts
        \/ Len(msOuts) < MaxLen /\ Len(msIns) = 0 /\ (\E x \in OutAlpha : msOuts' = Append(msOuts, x)) /\ UNCHANGED msIns
T == [version |-> 1, locktime |-> 0, ins |-> msIns, outs |-> msOuts]
Perms(s) == {[k \in 1..Len(s) |-> s[p[k]]] : p \in {q \in [1..Len(s) -> 1..Len(s)] : \A i, j \in 1..Len(s) : i # j => q[i] # q[j]}}
Sortings == {[version |-> 1, locktime |-> 0, ins |-> i, outs |-> o] : i \in Perms(msIns), o \in Perms(msOuts)}
NonEmptyIdempotent ==
  LET adm == {s \in Sortings : IsSortingOf(s, T)} IN
  /\ adm # {}
  /\ \A s \in adm : SortedPred(s) /\ IsSortingOf(s, s)
  /\ SortedPred(T) <=> T \in adm
=============================================================================
