------------------------------- MODULE Gen_Bloom -------------------------------
(* History enumeration for C09: every sequence of exactly Depth operations over *)
(* the alphabet {Add(x), Matches(x), Reload, ReloadNil, Unload, IsLoaded,        *)
(* GetMsg} with three item identities is one behaviour of this generator; the    *)
(* last step writes the history as a case.  The harness instantiates each        *)
(* abstract history on concrete filter shapes (1..36000 bytes, 0..50 hash        *)
(* functions, boundary tweaks) and item byte strings of every length mod 4.      *)
EXTENDS Integers, Sequences, TLC, Json, CSV, IOUtils

CONSTANT Depth
VARIABLE gbHist

Alphabet == {[o |-> "Add", x |-> k] : k \in 1..3} \cup {[o |-> "Matches", x |-> k] : k \in 1..3}
            \cup {[o |-> nm, x |-> 0] : nm \in {"Reload", "ReloadNil", "Unload", "IsLoaded", "GetMsg"}}
D == IF "GEN_DEPTH" \in DOMAIN IOEnv THEN atoi(IOEnv.GEN_DEPTH) ELSE Depth

Init == gbHist = <<>>
Next == /\ Len(gbHist) < D
        /\ \E a \in Alphabet :
             /\ gbHist' = Append(gbHist, a)
             /\ (Len(gbHist) + 1 = D) => CSVWrite("%1$s", <<ToJson([ops |-> Append(gbHist, a)])>>, IOEnv.GEN_OUT)
=============================================================================
