------------------------------- MODULE MC_JsonWalk -------------------------------
(* Small-scope proof that the codec definitions JsonWalk uses as oracles are mutually  *)
(* inverse and that the two walks are inverse where the package promises it: hex in,     *)
(* hex out.  Every case is a TLC state.                                                  *)
EXTENDS JsonWalk, TLC

VARIABLES mjKind, mjX
vars == <<mjKind, mjX>>

HexDigits == {48, 49, 57, 97, 102}                \* 0 1 9 a f
B64Chars == {65, 66, 81, 103, 47, 61, 10}         \* A B Q g / = \n
ByteSub == {0, 1, 127, 128, 254, 255}

Init == mjKind \in {"bytes", "hex", "b64"} /\ mjX = <<>>
Next ==
  /\ UNCHANGED mjKind
  /\ \/ mjKind = "bytes" /\ Len(mjX) < 4 /\ \E a \in ByteSub : mjX' = Append(mjX, a)
     \/ mjKind = "hex" /\ Len(mjX) < 5 /\ \E a \in HexDigits : mjX' = Append(mjX, a)
     \/ mjKind = "b64" /\ Len(mjX) < 5 /\ \E a \in B64Chars : mjX' = Append(mjX, a)

Obj1(v) == <<"o", << <<<<107>>, v>> >>>>
RoundTrip ==
  CASE mjKind = "bytes" ->
         /\ B64Dec(B64Enc(mjX)) = [ok |-> TRUE, out |-> mjX]
         /\ Len(B64Enc(mjX)) = 4 * ((Len(mjX) + 2) \div 3)
         /\ UnHex(HexStr(mjX)) = mjX /\ IsHexStr(HexStr(mjX))
         \* the marshal direction shows bytes as hex, the unmarshal direction takes the hex back to the same base64
         /\ B64Rule(B64Enc(mjX)) = HexStr(mjX)
         /\ HexRule(HexStr(mjX)) = B64Enc(mjX)
    [] mjKind = "hex" ->
         \* lower-case hex of even length survives Unmarshal-then-Marshal; everything else is left alone by HexRule
         /\ IsHexStr(mjX) => B64Rule(HexRule(mjX)) = mjX
         /\ ~IsHexStr(mjX) => HexRule(mjX) = mjX
         /\ ConvertBase64(ConvertHex(Obj1(Str(mjX)))) = Obj1(Str(IF IsHexStr(mjX) THEN mjX ELSE B64Rule(mjX)))
    [] mjKind = "b64" ->
         LET d == B64Dec(mjX) IN
         \* whatever decodes re-encodes to a canonical string that decodes to the same bytes
         /\ d.ok => B64Dec(B64Enc(d.out)).out = d.out
         /\ d.ok => Len(d.out) = (Len(SelectSeq(mjX, LAMBDA c : c \notin {10, 13, 61})) * 6) \div 8
         /\ ~d.ok => B64Rule(mjX) = mjX
\* the walk never grows a tree and deletes exactly the null members of walked objects
Shrinks == Size(ConvertHex(Obj1(Str(mjX)))) = 2 /\ Size(ConvertHex(<<"o", << <<<<107>>, Null>> >>>>)) = 1
=============================================================================
