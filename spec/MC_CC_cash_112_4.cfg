INIT Init
NEXT Next
VIEW SynView
INVARIANT TableSane
CHECK_DEADLOCK FALSE
CONSTANTS
  Code = "cash"
  W = 112
  MaxW = 4
  Source = "spec"
