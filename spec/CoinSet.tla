---------------------------------- MODULE CoinSet ----------------------------------
(* C19: coin sets and coin selectors.  A coin is [id, value, confs]; its value-age  *)
(* is value * confs.  Selectors are RELATIONS between the offered list and the       *)
(* selection (sequence of coin ids), exactly as the property states them.            *)
EXTENDS Integers, Sequences, FiniteSets, SequencesExt

VA(c) == c.value * c.confs
SumBy(s, F(_)) == FoldLeft(LAMBDA acc, c : acc + F(c), 0, s)
TotalValue(s) == SumBy(s, LAMBDA c : c.value)
TotalValueAge(s) == SumBy(s, VA)
Satisfies(target, minChange, total) == total = target \/ total >= target + minChange

CoinById(offered, id) == offered[id]           \* ids are positions in the offered list
SelCoins(offered, sel) == [k \in 1..Len(sel) |-> offered[sel[k]]]

\* the contract every successful selection obeys
ValidSelection(offered, sel, target, minChange, maxInputs) ==
  /\ \A k \in 1..Len(sel) : sel[k] \in 1..Len(offered)
  /\ Cardinality({sel[k] : k \in 1..Len(sel)}) = Len(sel)                 \* distinct coins
  /\ Len(sel) <= maxInputs
  /\ Satisfies(target, minChange, TotalValue(SelCoins(offered, sel)))

\* shortest qualifying prefix of a fixed order
PrefixLen(order, target, minChange, maxInputs) ==
  LET ks == {k \in 1..Len(order) : k <= maxInputs /\ Satisfies(target, minChange, TotalValue(SubSeq(order, 1, k)))}
  IN IF ks = {} THEN 0 ELSE CHOOSE k \in ks : \A j \in ks : k <= j
MinIndexOK(offered, ok, sel, target, minChange, maxInputs) ==
  LET k == PrefixLen(offered, target, minChange, maxInputs)
  IN IF k = 0 THEN ~ok ELSE ok /\ sel = [j \in 1..k |-> j]

\* shortest qualifying prefix of SOME descending order by Key (ties free).  With Key = value the totals of the
\* top-k do not depend on how ties are broken; with Key = value-age they do (coins of equal value-age and different
\* value, e.g. every unconfirmed coin), so the relation is stated on the selection itself: it is descending, nothing
\* left out ranks above its last coin (= it is a prefix of a descending order), it qualifies and no shorter prefix of
\* it does.  A refusal is judged exactly when the totals are tie-independent, and accepted otherwise if the order we
\* happened to pick has no qualifying prefix or a tie between coins of different value exists.
TieAmbiguous(offered, Key(_)) ==
  \E a, b \in 1..Len(offered) : Key(offered[a]) = Key(offered[b]) /\ offered[a].value # offered[b].value
DescPrefixOK(offered, ok, sel, target, minChange, maxInputs, Key(_)) ==
  LET n == Len(offered)
      desc == SortSeq(offered, LAMBDA a, b : Key(a) > Key(b))
      k0 == PrefixLen(desc, target, minChange, maxInputs)
      k == Len(sel)
      sc == SelCoins(offered, sel)
  IN IF ~ok THEN k0 = 0 \/ TieAmbiguous(offered, Key)
     ELSE /\ k >= 1 /\ k <= maxInputs
          /\ Cardinality({sel[j] : j \in 1..k}) = k /\ \A j \in 1..k : sel[j] \in 1..n
          /\ \A j \in 1..(k - 1) : Key(sc[j]) >= Key(sc[j + 1])                          \* descending
          /\ \A c \in 1..n : c \notin {sel[j] : j \in 1..k} => Key(offered[c]) <= Key(sc[k])  \* a prefix of a descending order
          /\ Satisfies(target, minChange, TotalValue(sc))
          /\ \A j \in 1..(k - 1) : ~Satisfies(target, minChange, TotalValue(SubSeq(sc, 1, j)))  \* the shortest such prefix
          /\ (~TieAmbiguous(offered, Key) => k = k0)

MinPriorityOK(offered, ok, sel, target, minChange, maxInputs, minAvg) ==
  ok => /\ ValidSelection(offered, sel, target, minChange, maxInputs)
        /\ TotalValueAge(SelCoins(offered, sel)) >= minAvg * Len(sel)

\* ---- coin set state machine -------------------------------------------------------------
Push(s, c) == Append(s, c)
Pop(s) == IF Len(s) = 0 THEN s ELSE SubSeq(s, 1, Len(s) - 1)
Shift(s) == IF Len(s) = 0 THEN s ELSE SubSeq(s, 2, Len(s))
=============================================================================
