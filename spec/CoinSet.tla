---------------------------------- MODULE CoinSet ----------------------------------
(* C19: coin sets and coin selectors.  A coin is [id, value, confs]; its value-age  *)
(* is value * confs.  Selectors are RELATIONS between the offered list and the       *)
(* selection (sequence of coin ids), exactly as the property states them.            *)
EXTENDS Integers, Sequences, FiniteSets, SequencesExt

VA(c) == c.value * c.confs
SumBy(s, F(_)) == FoldLeft(LAMBDA acc, c : acc + F(c), 0, s)
TotalValue(s) == SumBy(s, LAMBDA c : c.value)
TotalValueAge(s) == SumBy(s, VA)
Satisfies(target, minChange, total) == total = target \/ total >= target + minChange

CoinById(offered, id) == offered[id]           \* ids are positions in the offered list
SelCoins(offered, sel) == [k \in 1..Len(sel) |-> offered[sel[k]]]

\* the contract every successful selection obeys
ValidSelection(offered, sel, target, minChange, maxInputs) ==
  /\ \A k \in 1..Len(sel) : sel[k] \in 1..Len(offered)
  /\ Cardinality({sel[k] : k \in 1..Len(sel)}) = Len(sel)                 \* distinct coins
  /\ Len(sel) <= maxInputs
  /\ Satisfies(target, minChange, TotalValue(SelCoins(offered, sel)))

\* shortest qualifying prefix of a fixed order
PrefixLen(order, target, minChange, maxInputs) ==
  LET ks == {k \in 1..Len(order) : k <= maxInputs /\ Satisfies(target, minChange, TotalValue(SubSeq(order, 1, k)))}
  IN IF ks = {} THEN 0 ELSE CHOOSE k \in ks : \A j \in ks : k <= j
MinIndexOK(offered, ok, sel, target, minChange, maxInputs) ==
  LET k == PrefixLen(offered, target, minChange, maxInputs)
  IN IF k = 0 THEN ~ok ELSE ok /\ sel = [j \in 1..k |-> j]

\* shortest qualifying prefix of SOME descending order by Key (ties free)
DescPrefixOK(offered, ok, sel, target, minChange, maxInputs, Key(_)) ==
  LET n == Len(offered)
      \* top-k totals do not depend on how ties are broken: take any descending order
      desc == SortSeq(offered, LAMBDA a, b : Key(a) > Key(b))
      k == PrefixLen(desc, target, minChange, maxInputs)
      sc == SelCoins(offered, sel)
  IN IF k = 0 THEN ~ok
     ELSE /\ ok /\ Len(sel) = k
          /\ Cardinality({sel[j] : j \in 1..k}) = k /\ \A j \in 1..k : sel[j] \in 1..n
          /\ \A j \in 1..(k - 1) : Key(sc[j]) >= Key(sc[j + 1])                          \* descending
          /\ \A c \in 1..n : c \notin {sel[j] : j \in 1..k} => Key(offered[c]) <= Key(sc[k])  \* a prefix of a descending order

MinPriorityOK(offered, ok, sel, target, minChange, maxInputs, minAvg) ==
  ok => /\ ValidSelection(offered, sel, target, minChange, maxInputs)
        /\ TotalValueAge(SelCoins(offered, sel)) >= minAvg * Len(sel)

\* ---- coin set state machine -------------------------------------------------------------
Push(s, c) == Append(s, c)
Pop(s) == IF Len(s) = 0 THEN s ELSE SubSeq(s, 1, Len(s) - 1)
Shift(s) == IF Len(s) = 0 THEN s ELSE SubSeq(s, 2, Len(s))
=============================================================================
