------------------------------ MODULE LibNat ------------------------------
(* Arbitrary-precision naturals as little-endian limb sequences, base 2^15  *)
(* (TLC integers are 32-bit; 2^15 * 2^15 + carries stays below 2^31).       *)
(* Canonical form: no most-significant zero limbs; zero is <<>>.            *)
EXTENDS LibBytes

NB == 32768     \* limb base 2^15

NNorm(a) ==
  LET f(acc, i) == IF acc = 0 /\ a[Len(a) + 1 - i] # 0 THEN Len(a) + 1 - i ELSE acc
      top == FoldLeft(f, 0, [i \in 1..Len(a) |-> i])
  IN SubSeq(a, 1, top)

NFromSmall(v) ==   \* 0 <= v < 2^31
  NNorm(<<v % NB, (v \div NB) % NB, v \div (NB * NB)>>)

NIsZero(a) == Len(NNorm(a)) = 0
NLimb(a, i) == IF i <= Len(a) THEN a[i] ELSE 0

NCmp(a0, b0) ==
  LET a == NNorm(a0)  b == NNorm(b0) IN
  IF Len(a) < Len(b) THEN -1 ELSE IF Len(a) > Len(b) THEN 1
  ELSE LexCmp(Rev(a), Rev(b))

NAdd(a, b) ==
  LET n == Max2(Len(a), Len(b))
      f(acc, i) == LET s == NLimb(a, i) + NLimb(b, i) + acc.c
                   IN [d |-> Append(acc.d, s % NB), c |-> s \div NB]
      r == FoldLeft(f, [d |-> <<>>, c |-> 0], [i \in 1..n |-> i])
  IN NNorm(IF r.c > 0 THEN Append(r.d, r.c) ELSE r.d)

\* a - b, requires a >= b
NSub(a, b) ==
  LET f(acc, i) == LET s == NLimb(a, i) - NLimb(b, i) - acc.c
                   IN IF s < 0 THEN [d |-> Append(acc.d, s + NB), c |-> 1]
                               ELSE [d |-> Append(acc.d, s), c |-> 0]
      r == FoldLeft(f, [d |-> <<>>, c |-> 0], [i \in 1..Len(a) |-> i])
  IN NNorm(r.d)

\* a * k + c0, 0 <= k < 2^15, 0 <= c0 < 2^15
NMulSmallAdd(a, k, c0) ==
  LET f(acc, x) == LET s == x * k + acc.c
                   IN [d |-> Append(acc.d, s % NB), c |-> s \div NB]
      r == FoldLeft(f, [d |-> <<>>, c |-> c0], a)
  IN NNorm(IF r.c > 0 THEN Append(r.d, r.c) ELSE r.d)
NMulSmall(a, k) == NMulSmallAdd(a, k, 0)

\* <<quotient, remainder>> of a by small k (0 < k < 2^15)
NDivModSmall(a, k) ==
  LET f(acc, i) == LET cur == acc.r * NB + a[Len(a) + 1 - i]
                   IN [q |-> <<cur \div k>> \o acc.q, r |-> cur % k]
      r == FoldLeft(f, [q |-> <<>>, r |-> 0], [i \in 1..Len(a) |-> i])
  IN <<NNorm(r.q), r.r>>

NShiftLimbs(a, n) == IF NIsZero(a) THEN <<>> ELSE Rep(0, n) \o a

NMul(a, b) ==
  FoldLeft(LAMBDA acc, i : NAdd(acc, NShiftLimbs(NMulSmall(a, b[i]), i - 1)),
           <<>>, [i \in 1..Len(b) |-> i])

\* bytes (big endian) <-> limbs
NFromBytesBE(bs) == FoldLeft(LAMBDA acc, x : NMulSmallAdd(acc, 256, x), <<>>, bs)
NFromBytesLE(bs) == NFromBytesBE(Rev(bs))
\* minimal big-endian byte string of a (empty for zero)
NToBytesBE(a) ==
  LET step(acc, i) == IF NIsZero(acc.n) THEN acc
                      ELSE LET qr == NDivModSmall(acc.n, 256)
                           IN [n |-> qr[1], out |-> <<qr[2]>> \o acc.out]
      bound == 2 * Len(a) + 1
  IN FoldLeft(step, [n |-> NNorm(a), out |-> <<>>], [i \in 1..bound |-> i]).out
\* big-endian, left padded with zeros to exactly w bytes (low w bytes if longer)
NToBytesBEPad(a, w) ==
  LET b == NToBytesBE(a)
  IN IF Len(b) >= w THEN SubSeq(b, Len(b) - w + 1, Len(b)) ELSE Rep(0, w - Len(b)) \o b
NToBytesLEPad(a, w) == Rev(NToBytesBEPad(a, w))

\* floor(a / 2^(15 n))
NDropLimbs(a, n) == NNorm(Drop(a, n))
\* a mod 2^(15 n)
NTakeLimbs(a, n) == NNorm(Take(a, n))

\* a small natural value of a (must be < 2^31)
NToSmall(a) == NLimb(a, 1) + NB * NLimb(a, 2) + NB * NB * NLimb(a, 3)
NFitsSmall(a) == LET x == NNorm(a) IN Len(x) <= 2 \/ (Len(x) = 3 /\ x[3] < 2)

NPow(base, e) == FoldLeft(LAMBDA acc, i : NMul(acc, base), <<1>>, [i \in 1..e |-> i])
NPow10(e) == FoldLeft(LAMBDA acc, i : NMulSmall(acc, 10), <<1>>, [i \in 1..e |-> i])
NPow2(e) == FoldLeft(LAMBDA acc, i : NMulSmall(acc, 2), <<1>>, [i \in 1..e |-> i])

\* decimal digits (most significant first) of a; <<0>> for zero
NToDec(a) ==
  LET step(acc, i) == IF NIsZero(acc.n) THEN acc
                      ELSE LET qr == NDivModSmall(acc.n, 10)
                           IN [n |-> qr[1], out |-> <<qr[2]>> \o acc.out]
      r == FoldLeft(step, [n |-> NNorm(a), out |-> <<>>], [i \in 1..(5 * Len(a) + 1) |-> i]).out
  IN IF Len(r) = 0 THEN <<0>> ELSE r
NFromDec(ds) == FoldLeft(LAMBDA acc, d : NMulSmallAdd(acc, 10, d), <<>>, ds)
=============================================================================
