------------------------------- MODULE Trace_LogMutex -------------------------------
(* Trace validation for X06.  One history = the log lines of ONE named mutex produced by a    *)
(* real program built with -tags mutexlog (k goroutines hammering bchutil.Mutex / RWMutex).   *)
(* The lines do not say which goroutine wrote them: TLC SEARCHES for an assignment of lines   *)
(* to goroutines and for positions of the unlogged acquire / release steps such that the     *)
(* whole log is a behaviour of LogMutex.  A history is accepted when every line is consumed   *)
(* and all goroutines are idle again; then one line is written to VOUT.  The physical         *)
(* evidence of the run (a counter incremented non-atomically inside write sections, readers   *)
(* that saw it change under them) is judged in the same step.                                 *)
EXTENDS LogMutex, TLC, Json, CSV, IOUtils

Trace == ndJsonDeserialize(IOEnv.TRACE)
VARIABLES tlH, tlL
tvars == <<vars, tlH, tlL>>
Ev == Trace[tlH].ev
Cfg == Ev[1]
NLines == Len(Ev) - 2                   \* first event = Config, last = Final
Line == Ev[tlL + 1]

TInit == \E hh \in 1..Len(Trace) : tlH = hh /\ tlL = 1 /\ Init

Is(name) == tlL <= NLines /\ Line.ev = name /\ tlL' = tlL + 1 /\ UNCHANGED tlH
Silent == UNCHANGED <<tlH, tlL>>
\* idle goroutines are interchangeable: a new operation is always started by the smallest idle one
Fresh(g) == lmPc[g] = "idle" /\ \A g2 \in G : lmPc[g2] = "idle" => g <= g2

TNext ==
  \/ \E g \in G :
       \/ Is("Locking") /\ Fresh(g) /\ LogLocking(g)
       \/ Is("Locked") /\ LogLocked(g)
       \/ Is("Unlocking") /\ LogUnlocking(g)
       \/ Is("Unlocked") /\ LogUnlocked(g)
       \/ Is("RLocking") /\ Fresh(g) /\ Cfg.kind = "rw" /\ LogRLocking(g)
       \/ Is("RLocked") /\ LogRLocked(g)
       \/ Is("RUnlocking") /\ LogRUnlocking(g)
       \/ Is("RUnlocked") /\ LogRUnlocked(g)
       \/ Silent /\ (AcquireW(g) \/ ReleaseW(g) \/ AcquireR(g) \/ ReleaseR(g))
  \/ /\ tlL = NLines + 1 /\ \A g \in G : lmPc[g] = "idle"
     /\ LET fin == Ev[Len(Ev)] IN fin.counter = fin.expected /\ fin.torn = 0
     /\ CSVWrite("%1$s", <<ToJson([h |-> Trace[tlH].h, n |-> NLines, ok |-> TRUE])>>, IOEnv.VOUT)
     /\ tlL' = tlL + 1 /\ UNCHANGED <<vars, tlH>>

\* the operation count of a goroutine is irrelevant for the search
View == <<lmPc, lmWriter, lmReaders, lmW, lmR, tlH, tlL>>
=============================================================================
