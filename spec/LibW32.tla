------------------------------- MODULE LibW32 -------------------------------
(* 32-bit words as <<hi16, lo16>> (TLC integers are 32-bit signed, so 32-bit   *)
(* unsigned arithmetic is done on halves), and MurmurHash3 (x86_32) on them.   *)
EXTENDS LibBytes

M16 == 65536
W(hi, lo) == <<hi, lo>>
WFromSmall(v) == <<((v \div M16) % M16), (v % M16)>>      \* 0 <= v < 2^31
WFromBytesLE(b, k) == <<((b[k + 3] * 256) + b[k + 2]), ((b[k + 1] * 256) + b[k])>>   \* bytes k..k+3 (1-based)
WToBytesLE(a) == <<(a[2] % 256), (a[2] \div 256), (a[1] % 256), (a[1] \div 256)>>
WXor(a, b) == <<a[1] ^^ b[1], a[2] ^^ b[2]>>
WAdd(a, b) == LET lo == a[2] + b[2] IN <<((a[1] + b[1] + (lo \div M16)) % M16), (lo % M16)>>

\* 32-bit product of two 16-bit numbers as <<hi, lo>>
Mul16(x, y) ==
  LET y0 == y % 256  y1 == y \div 256
      p0 == x * y0   p1 == x * y1            \* < 2^24
      q == p1 \div 256   r == p1 % 256       \* p1 * 256 = q * 2^16 + r * 256
      low == p0 + r * 256                    \* < 2^25
  IN <<((q + (low \div M16)) % M16), (low % M16)>>
Mul16Lo(x, y) == Mul16(x, y)[2]
\* a * b mod 2^32
WMul(a, b) ==
  LET ll == Mul16(a[2], b[2])
      cross == (Mul16Lo(a[1], b[2]) + Mul16Lo(a[2], b[1])) % M16
  IN <<((ll[1] + cross) % M16), ll[2]>>
\* rotate left by r, 0 < r < 16
WRotl(a, r) ==
  <<((a[1] * Pow2(r)) % M16) + (a[2] \div Pow2(16 - r)),
    ((a[2] * Pow2(r)) % M16) + (a[1] \div Pow2(16 - r))>>
\* logical shift right by k, 0 < k <= 16
WShr(a, k) == IF k = 16 THEN <<0, a[1]>>
              ELSE <<a[1] \div Pow2(k), ((a[1] % Pow2(k)) * Pow2(16 - k)) + (a[2] \div Pow2(k))>>
\* value mod n for 0 < n < 2^23
WMod(a, n) == ((((((a[1] % n) * 256) % n) * 256) % n) + (a[2] % n)) % n

\* MurmurHash3 x86_32 ------------------------------------------------------------
MC1 == <<52382, 11601>>     \* 0xcc9e2d51
MC2 == <<7047, 13715>>      \* 0x1b873593
MN  == <<58964, 27492>>     \* 0xe6546b64
MF1 == <<34283, 51819>>     \* 0x85ebca6b
MF2 == <<49842, 44597>>     \* 0xc2b2ae35
MixK(k) == WMul(WRotl(WMul(k, MC1), 15), MC2)
MBlock(hsh, k) == WAdd(WMul(WRotl(WXor(hsh, MixK(k)), 13), <<0, 5>>), MN)
FMix(h0) ==
  LET h1 == WXor(h0, WShr(h0, 16))
      h2 == WMul(h1, MF1)
      h3 == WXor(h2, WShr(h2, 13))
      h4 == WMul(h3, MF2)
  IN WXor(h4, WShr(h4, 16))
Murmur3(seed, data) ==
  LET n == Len(data)
      nb == n \div 4
      body == FoldLeft(LAMBDA hsh, b : MBlock(hsh, WFromBytesLE(data, 4 * (b - 1) + 1)), seed, [b \in 1..nb |-> b])
      t == 4 * nb
      rem == n % 4
      k == IF rem = 0 THEN <<0, 0>>
           ELSE IF rem = 1 THEN <<0, data[t + 1]>>
           ELSE IF rem = 2 THEN <<0, ((data[t + 2] * 256) + data[t + 1])>>
           ELSE <<data[t + 3], ((data[t + 2] * 256) + data[t + 1])>>
      tail == IF rem = 0 THEN body ELSE WXor(body, MixK(k))
  IN FMix(WXor(tail, WFromSmall(n)))
=============================================================================
