--------------------------------- MODULE Gen_Robust ---------------------------------
(* Adversarial input generation for C08 from the parser specifications.               *)
(* Family "short-cashaddr": strings  <prefix>:<payload>  whose 40-bit checksum          *)
(* VERIFIES although the payload has fewer than the eight checksum symbols.  The         *)
(* remainder map is affine and the last L symbols enter it directly, so for a prefix     *)
(* and a length L < 8 such a payload exists iff the remainder of prefix || 0^L has its    *)
(* top 8-L symbols zero; the payload is then its low L symbols.  TLC enumerates all       *)
(* one-, two- and three-letter prefixes and L = 0..7 and emits every hit.               *)
EXTENDS AddressCodec, TLC, Json, CSV, IOUtils
VARIABLES grPre, grL
Letters == 97..122
Init == grPre \in ({<<a>> : a \in Letters} \cup {<<a, b>> : a \in Letters, b \in Letters}) /\ grL = -1
Hit(pre, L) ==
  LET c == XorLast(PolyRem(GCash, CashPrefixExpand(pre) \o Rep(0, L))) IN
  \A k \in 1..(8 - L) : c[k] = 0
Payload(pre, L) ==
  LET c == XorLast(PolyRem(GCash, CashPrefixExpand(pre) \o Rep(0, L))) IN
  [k \in 1..L |-> CharOf32(c[8 - L + k])]
Next == /\ grL = -1 /\ UNCHANGED grPre
        /\ \E L \in 0..7 :
             /\ grL' = L
             /\ Hit(grPre, L) => CSVWrite("%1$s", <<ToJson([s |-> grPre \o <<58>> \o Payload(grPre, L), family |-> "short-cashaddr"])>>, IOEnv.GEN_OUT)
\* every emitted string really verifies under the specification's checksum and is refused by the strict reader
Sane == (grL >= 0 /\ Hit(grPre, grL)) =>
          LET vals == [k \in 1..grL |-> Val32(Payload(grPre, grL)[k])] IN
          CashVerify(grPre, vals) /\ ~DecodeCashSpec(grPre \o <<58>> \o Payload(grPre, grL)).ok
=============================================================================
