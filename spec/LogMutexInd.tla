---------------------------- MODULE LogMutexInd ----------------------------
(* X06, unbounded: the safety properties of LogMutex as an INDUCTIVE invariant checked     *)
(* symbolically by Apalache -- any number of operations per goroutine (TLC bounds them with  *)
(* MaxOps), four goroutines.  The invariant ties the log-level counters to the program        *)
(* counters: lmW = number of goroutines between "Locked" and "Unlocking", lmR likewise, the     *)
(* holder variables mirror the goroutines inside the lock.                                     *)
(*   apalache-mc check --init=Init    --inv=IndInv --length=0 LogMutexInd.tla                  *)
(*   apalache-mc check --init=IndInit --inv=IndInv --length=1 LogMutexInd.tla                  *)
EXTENDS Integers, FiniteSets

G == {1, 2, 3, 4}
PCs == {"idle", "wantW", "gotW", "heldW", "relW", "doneW", "wantR", "gotR", "heldR", "relR", "doneR"}

VARIABLES
  \* @type: Int -> Str;
  lmPc,
  \* @type: Int;
  lmWriter,
  \* @type: Set(Int);
  lmReaders,
  \* @type: Int;
  lmW,
  \* @type: Int;
  lmR

Init == /\ lmPc = [g \in G |-> "idle"] /\ lmWriter = 0 /\ lmReaders = {} /\ lmW = 0 /\ lmR = 0

\* @type: (Int, Str, Str) => Bool;
Go(g, from, to) == lmPc[g] = from /\ lmPc' = [lmPc EXCEPT ![g] = to]

LogLocking(g)   == Go(g, "idle", "wantW") /\ UNCHANGED <<lmWriter, lmReaders, lmW, lmR>>
AcquireW(g)     == Go(g, "wantW", "gotW") /\ lmWriter = 0 /\ lmReaders = {} /\ lmWriter' = g /\ UNCHANGED <<lmReaders, lmW, lmR>>
LogLocked(g)    == Go(g, "gotW", "heldW") /\ lmW' = lmW + 1 /\ UNCHANGED <<lmWriter, lmReaders, lmR>>
LogUnlocking(g) == Go(g, "heldW", "relW") /\ lmW' = lmW - 1 /\ UNCHANGED <<lmWriter, lmReaders, lmR>>
ReleaseW(g)     == Go(g, "relW", "doneW") /\ lmWriter' = 0 /\ UNCHANGED <<lmReaders, lmW, lmR>>
LogUnlocked(g)  == Go(g, "doneW", "idle") /\ UNCHANGED <<lmWriter, lmReaders, lmW, lmR>>
LogRLocking(g)   == Go(g, "idle", "wantR") /\ UNCHANGED <<lmWriter, lmReaders, lmW, lmR>>
AcquireR(g)      == Go(g, "wantR", "gotR") /\ lmWriter = 0 /\ lmReaders' = lmReaders \cup {g} /\ UNCHANGED <<lmWriter, lmW, lmR>>
LogRLocked(g)    == Go(g, "gotR", "heldR") /\ lmR' = lmR + 1 /\ UNCHANGED <<lmWriter, lmReaders, lmW>>
LogRUnlocking(g) == Go(g, "heldR", "relR") /\ lmR' = lmR - 1 /\ UNCHANGED <<lmWriter, lmReaders, lmW>>
ReleaseR(g)      == Go(g, "relR", "doneR") /\ lmReaders' = lmReaders \ {g} /\ UNCHANGED <<lmWriter, lmW, lmR>>
LogRUnlocked(g)  == Go(g, "doneR", "idle") /\ UNCHANGED <<lmWriter, lmReaders, lmW, lmR>>

Next == \E g \in G : \/ LogLocking(g) \/ AcquireW(g) \/ LogLocked(g) \/ LogUnlocking(g) \/ ReleaseW(g) \/ LogUnlocked(g)
                     \/ LogRLocking(g) \/ AcquireR(g) \/ LogRLocked(g) \/ LogRUnlocking(g) \/ ReleaseR(g) \/ LogRUnlocked(g)

InW(g) == lmPc[g] \in {"gotW", "heldW", "relW"}
InR(g) == lmPc[g] \in {"gotR", "heldR", "relR"}
LogSafe == lmW \in {0, 1} /\ lmR >= 0 /\ ~(lmW = 1 /\ lmR > 0)
MutualExclusion == /\ \A a \in G, b \in G : InW(a) /\ InW(b) => a = b
                   /\ \A a \in G, b \in G : ~(InW(a) /\ InR(b))

IndInv ==
  /\ lmPc \in [G -> PCs]
  /\ lmWriter \in G \cup {0}
  /\ lmReaders \subseteq G
  /\ \A g \in G : (lmWriter = g) <=> InW(g)
  /\ \A g \in G : (g \in lmReaders) <=> InR(g)
  /\ lmWriter # 0 => lmReaders = {}
  /\ lmW = Cardinality({g \in G : lmPc[g] = "heldW"})
  /\ lmR = Cardinality({g \in G : lmPc[g] = "heldR"})
  /\ LogSafe
  /\ MutualExclusion
IndInit == /\ lmPc \in [G -> PCs] /\ lmWriter \in G \cup {0} /\ lmReaders \in SUBSET G /\ lmW \in 0..4 /\ lmR \in 0..4 /\ IndInv
\* negative control: drop the writer test from AcquireR and the invariant is no longer inductive
=============================================================================
