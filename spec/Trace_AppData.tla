------------------------------- MODULE Trace_AppData -------------------------------
EXTENDS AppData, TraceBase
V(clause, exp, got) == <<clause, exp, got>>
OK == <<>>
VerdictAD(p, e, s) ==
  IF e.op # "AppDataDir" THEN V("unknown-op", e.op, e.op)
  \* a non-ASCII first byte is converted as a Latin-1 code point by the code (byte -> rune); not modelled
  ELSE IF Len(e.app) > 0 /\ (e.app[1] >= 128 \/ (e.app[1] = 46 /\ Len(e.app) > 1 /\ e.app[2] >= 128)) THEN OK
  ELSE LET x == AppDataDirSpec(e.env, e.goos, e.app, e.roaming, e.home, e.localappdata, e.appdata) IN
       IF x = Missing THEN EnvMissingV("path-join")
       ELSE IF x = <<-2>> THEN (IF "panic" \in DOMAIN e THEN V("appname-dot-only-panics", "a directory", e.panic) ELSE OK)
       ELSE IF "panic" \in DOMAIN e THEN V("panic", e.op, e.panic)
       ELSE IF e.ret # x THEN V("app-data-dir", Cut(x), Cut(e.ret))
       ELSE OK
InitAD == TInit(0)
NextAD == TNext(Same)
JudgeAD == Judge(VerdictAD)
=============================================================================
