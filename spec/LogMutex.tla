---------------------------------- MODULE LogMutex ----------------------------------
(* Growth X06: logging_mutex.go (build tag mutexlog).  bchutil.Mutex / bchutil.RWMutex wrap  *)
(* the sync primitives and write one log line BEFORE and one AFTER every operation:           *)
(*     Lock:    "Locking"   -> sync Lock()    -> "Locked"                                     *)
(*     Unlock:  "Unlocking" -> sync Unlock()  -> "Unlocked"         (RLock / RUnlock alike)    *)
(* The lines carry the mutex name but not the goroutine.  The specification is the lock with   *)
(* the log as its observable: each operation is three steps of a goroutine (log, the           *)
(* synchronisation step itself, log), so that TLC explores every interleaving of the log       *)
(* writes with the acquisitions and releases.  What the log guarantees -- and what a tool      *)
(* reading such a log may rely on -- is LogSafe: counting only "Locked" / "Unlocking" and      *)
(* "RLocked" / "RUnlocking" lines, at most one writer is ever inside, never together with a    *)
(* reader.  ("Locking" / "Unlocked" lines prove nothing: they are written outside the lock.)   *)
EXTENDS Integers, Sequences, FiniteSets

CONSTANTS G,          \* goroutines
          MaxOps      \* operations per goroutine (bounds the model)
VARIABLES lmPc,       \* goroutine -> program counter
          lmWriter,   \* the goroutine holding the write lock, or 0
          lmReaders,  \* set of goroutines holding a read lock
          lmN,        \* goroutine -> operations completed
          lmW, lmR    \* log-level counters: #Locked - #Unlocking, #RLocked - #RUnlocking
vars == <<lmPc, lmWriter, lmReaders, lmN, lmW, lmR>>

Init == /\ lmPc = [g \in G |-> "idle"] /\ lmWriter = 0 /\ lmReaders = {} /\ lmN = [g \in G |-> 0] /\ lmW = 0 /\ lmR = 0

Go(g, from, to) == lmPc[g] = from /\ lmPc' = [lmPc EXCEPT ![g] = to]

\* ---- write lock ------------------------------------------------------------------------
LogLocking(g)   == Go(g, "idle", "wantW") /\ lmN[g] < MaxOps /\ UNCHANGED <<lmWriter, lmReaders, lmN, lmW, lmR>>
AcquireW(g)     == Go(g, "wantW", "gotW") /\ lmWriter = 0 /\ lmReaders = {} /\ lmWriter' = g /\ UNCHANGED <<lmReaders, lmN, lmW, lmR>>
LogLocked(g)    == Go(g, "gotW", "heldW") /\ lmW' = lmW + 1 /\ UNCHANGED <<lmWriter, lmReaders, lmN, lmR>>
LogUnlocking(g) == Go(g, "heldW", "relW") /\ lmW' = lmW - 1 /\ UNCHANGED <<lmWriter, lmReaders, lmN, lmR>>
ReleaseW(g)     == Go(g, "relW", "doneW") /\ lmWriter' = 0 /\ UNCHANGED <<lmReaders, lmN, lmW, lmR>>
LogUnlocked(g)  == Go(g, "doneW", "idle") /\ lmN' = [lmN EXCEPT ![g] = @ + 1] /\ UNCHANGED <<lmWriter, lmReaders, lmW, lmR>>
\* ---- read lock -------------------------------------------------------------------------
LogRLocking(g)   == Go(g, "idle", "wantR") /\ lmN[g] < MaxOps /\ UNCHANGED <<lmWriter, lmReaders, lmN, lmW, lmR>>
AcquireR(g)      == Go(g, "wantR", "gotR") /\ lmWriter = 0 /\ lmReaders' = lmReaders \cup {g} /\ UNCHANGED <<lmWriter, lmN, lmW, lmR>>
LogRLocked(g)    == Go(g, "gotR", "heldR") /\ lmR' = lmR + 1 /\ UNCHANGED <<lmWriter, lmReaders, lmN, lmW>>
LogRUnlocking(g) == Go(g, "heldR", "relR") /\ lmR' = lmR - 1 /\ UNCHANGED <<lmWriter, lmReaders, lmN, lmW>>
ReleaseR(g)      == Go(g, "relR", "doneR") /\ lmReaders' = lmReaders \ {g} /\ UNCHANGED <<lmWriter, lmN, lmW, lmR>>
LogRUnlocked(g)  == Go(g, "doneR", "idle") /\ lmN' = [lmN EXCEPT ![g] = @ + 1] /\ UNCHANGED <<lmWriter, lmReaders, lmW, lmR>>

Next == \E g \in G : \/ LogLocking(g) \/ AcquireW(g) \/ LogLocked(g) \/ LogUnlocking(g) \/ ReleaseW(g) \/ LogUnlocked(g)
                     \/ LogRLocking(g) \/ AcquireR(g) \/ LogRLocked(g) \/ LogRUnlocking(g) \/ ReleaseR(g) \/ LogRUnlocked(g)
Spec == Init /\ [][Next]_vars /\ \A g \in G : WF_vars(AcquireW(g) \/ ReleaseW(g) \/ AcquireR(g) \/ ReleaseR(g) \/ LogLocked(g) \/ LogUnlocking(g) \/ LogUnlocked(g) \/ LogRLocked(g) \/ LogRUnlocking(g) \/ LogRUnlocked(g))

\* ---- properties --------------------------------------------------------------------------
InW(g) == lmPc[g] \in {"gotW", "heldW", "relW"}
InR(g) == lmPc[g] \in {"gotR", "heldR", "relR"}
MutualExclusion == /\ \A a, b \in G : InW(a) /\ InW(b) => a = b
                   /\ \A a, b \in G : ~(InW(a) /\ InR(b))
                   /\ lmWriter # 0 => lmReaders = {}
\* what the LOG shows (the counters only see "Locked"/"Unlocking"/"RLocked"/"RUnlocking" lines)
LogSafe == lmW \in {0, 1} /\ lmR >= 0 /\ ~(lmW = 1 /\ lmR > 0) /\ lmR <= Cardinality(G)
\* the log counters never run ahead of the real state
LogBehindState == (lmW = 1 => lmWriter # 0) /\ lmR <= Cardinality(lmReaders)
\* a negative control for the model itself: with only "Locking"/"Unlocked" lines nothing could be concluded --
\* two goroutines can both have logged "Locking" (must be reachable: checked with an invariant that must FAIL)
NeverTwoWanting == \A a, b \in G : (lmPc[a] = "wantW" /\ lmPc[b] = "wantW") => a = b
=============================================================================
