INIT Init
NEXT Next
INVARIANT Independent
CONSTANTS
 MaxKeys = 3
 MaxDepth = 5
 NeuterShares = FALSE
 Emit = FALSE
CHECK_DEADLOCK FALSE
