INIT Init
NEXT Next
CONSTANTS
 G = {1, 2, 3}
 MaxOps = 2
INVARIANT MutualExclusion
INVARIANT LogSafe
INVARIANT LogBehindState
CHECK_DEADLOCK FALSE
