INIT InitB
NEXT NextB
INVARIANT JudgeB
CHECK_DEADLOCK FALSE
