-------------------------------- MODULE Trace_GCS --------------------------------
EXTENDS GCS, TraceBase, LibEnv

V(clause, exp, got) == <<clause, exp, got>>
OK == <<>>
First(vs) == LET bad == SelectSeq(vs, LAMBDA v : v # OK) IN IF Len(bad) = 0 THEN OK ELSE bad[1]

\* one filter with its serialisations and a batch of queries
GcsVerdict(e) ==
  LET nm == Modulus(e.n, e.m)
      vals == MkSeq(e.n, LAMBDA k : Reduce(e.sips[e.order[k]], nm))     \* in the proposed order
      vset == {vals[k] : k \in 1..e.n}
      member(sip) == e.n > 0 /\ Reduce(sip, nm) \in vset
      qres(q) == [single |-> [k \in 1..Len(q.sips) |-> member(q.sips[k])],
                  any |-> \E k \in 1..Len(q.sips) : member(q.sips[k])]
      scan == ScanFilter(e.bytes, e.p, vals)
      cs == CompactSize(e.n)
  IN IF ~IsPermutation(e.order, e.n) THEN EnvMissingV("order-permutation")
     ELSE IF e.n > 0 /\ scan # "ok" THEN V("golomb-rice-bytes", scan, Len(e.bytes))
     ELSE IF e.n = 0 /\ Len(e.bytes) # 0 THEN V("golomb-rice-bytes", "empty", Len(e.bytes))
     ELSE IF e.rn # e.n \/ e.rp # e.p THEN V("filter-metadata", <<e.n, e.p>>, <<e.rn, e.rp>>)
     ELSE IF e.nb # cs \o e.bytes THEN V("n-prefixed-serialisation", Cut(cs), Cut(e.nb))
     ELSE IF e.pb # <<e.p>> \o e.bytes THEN V("p-prefixed-serialisation", e.p, Cut(e.pb))
     ELSE IF e.npb # cs \o <<e.p>> \o e.bytes THEN V("np-prefixed-serialisation", Cut(cs), Cut(e.npb))
     ELSE LET bad == {j \in 1..Len(e.queries) :
                        LET q == e.queries[j]  x == qres(q) IN
                        q.single # x.single \/ q.any # x.any \/ q.zip # x.any \/ q.hash # x.any
                        \/ ("hasheach" \in DOMAIN q /\ Len(q.hasheach) > 0 /\ (q.hasheach # x.single \/ q.zipeach # x.single))}
          IN IF bad # {} THEN
               LET j == CHOOSE x \in bad : TRUE  q == e.queries[j]  x == qres(q) IN
               IF q.single # x.single THEN V("single-item-match", x.single, q.single)
               ELSE IF "hasheach" \in DOMAIN q /\ Len(q.hasheach) > 0 /\ (q.hasheach # x.single \/ q.zipeach # x.single)
                 THEN V("strategies-disagree-on-a-single-item", "as Match", "HashMatchAny / ZipMatchAny of that item alone")
               ELSE V("any-of-strategies", [expected |-> x.any], [any |-> q.any, zip |-> q.zip, hash |-> q.hash])
             ELSE LET rb == {j \in 1..Len(e.rebuilt) :
                               LET r == e.rebuilt[j] IN r.n # e.n \/ r.p # e.p \/ r.bytes # e.bytes \/ r.answers # e.answers}
                  IN IF rb # {} THEN V("rebuilt-filter-differs", e.rebuilt[CHOOSE x \in rb : TRUE].via, "n/p/bytes/answers")
                     ELSE OK

\* block filter builder: content, key, parameters, hash and header
BuilderVerdict(e) ==
  LET want == {e.entries[k] : k \in 1..Len(e.entries)}                 \* the entries whose hashes the harness logged
      h1 == EnvGet(e.env, "sha256d", e.nb)
      h2 == IF h1 = Missing THEN Missing ELSE EnvGet(e.env, "sha256d", h1 \o e.prev)
  IN IF h1 = Missing \/ h2 = Missing THEN EnvMissingV("filter-hash")
     ELSE IF e.key # Take(e.blockhash, 16) THEN V("builder-key", Take(e.blockhash, 16), e.key)
     ELSE IF e.p # 19 \/ e.m # <<0, 0, 0, 0, 0, 11, 250, 35>> THEN V("builder-parameters", <<19, 784931>>, <<e.p, e.m>>)
     ELSE IF e.n # Cardinality(want) THEN V("builder-element-count", Cardinality(want), e.n)
     ELSE IF e.fhash # h1 THEN V("filter-hash", Take(h1, 4), Take(e.fhash, 4))
     ELSE IF e.fheader # h2 THEN V("filter-header", Take(h2, 4), Take(e.fheader, 4))
     ELSE OK

\* what the block filter must contain, computed from the block description:
\* the outpoints spent by every input of every transaction but the first (coinbase), and
\* every non-empty output script
BlockEntries(txs) ==
  UNION {(IF t = 1 THEN {} ELSE {txs[t].ins[k] : k \in 1..Len(txs[t].ins)})
         \cup {txs[t].outs[k] : k \in {j \in 1..Len(txs[t].outs) : Len(txs[t].outs[j]) > 0}} : t \in 1..Len(txs)}

VerdictG(p, e, s) ==
  IF "panic" \in DOMAIN e THEN V("panic", e.op, e.panic)
  \* building and querying never write to the caller's items
  ELSE IF "argmod" \in DOMAIN e /\ e.argmod THEN V("argument-memory-modified", "items unchanged", e.op)
  ELSE CASE e.op = "Gcs" -> GcsVerdict(e)
         [] e.op = "GcsBuilder" ->
              LET want == BlockEntries(e.txs) IN
              IF {e.entries[k] : k \in 1..Len(e.entries)} # want \/ Len(e.entries) # Cardinality(want) THEN EnvMissingV("builder-entries-planner")
              ELSE First(<<BuilderVerdict(e), GcsVerdict(e)>>)
         [] e.op = "BuilderHist" ->
              \* error latch: after the first error every setter is a no-op and Build/Key return an error
              LET firstErr == SelectSeq(e.steps, LAMBDA st : st.seterr)
                  latched == Len(firstErr) > 0
              IN IF e.builderr # (latched \/ e.pzero \/ e.mzero) THEN V("builder-error-latch", latched, e.builderr)
                 ELSE IF e.keyerr # latched THEN V("builder-key-error", latched, e.keyerr)
                 \* Key() is the key the builder was given / derived from the hash (first 16 bytes) / drew at random
                 ELSE IF "keyok" \in DOMAIN e /\ ~e.keyok THEN V("builder-key", "the key set last", "another key")
                 ELSE IF "randkeys_differ" \in DOMAIN e /\ ~e.randkeys_differ THEN V("builder-random-key-repeats", "distinct", "equal")
                 ELSE IF ~e.builderr /\ e.n # Cardinality({e.added[k] : k \in 1..Len(e.added)}) THEN V("builder-deduplication", Cardinality({e.added[k] : k \in 1..Len(e.added)}), e.n)
                 \* whatever happened on the way (intermediate Builds, parameters set again afterwards): the result is the
                 \* filter of the builder's final key, P, M and entry set
                 ELSE IF ~e.builderr /\ e.nbytes # e.direct THEN V("builder-filter-bytes", Cut(e.direct), Cut(e.nbytes))
                 ELSE OK
         \* one filter queried from several goroutines at once (a filter is immutable): every goroutine gets the answers a
         \* single caller gets, and the filter's bytes do not change
         [] e.op = "GcsConc" -> IF e.bytesbefore # e.bytesafter THEN V("gcs-filter-mutated-by-queries", 0, 1)
                                ELSE IF \E g \in 1..Len(e.conc) : e.conc[g] # e.seq THEN V("gcs-concurrent-answers-differ", e.seq, "differs")
                                ELSE OK
         [] OTHER -> V("unknown-op", e.op, e.op)

InitG == TInit(0)
NextG == TNext(Same)
JudgeG == Judge(VerdictG)
=============================================================================
