--------------------------- MODULE MC_AddressCodec ---------------------------
(* Design-level check of the address specification on a toy configuration:    *)
(*  (1) every constructible address value survives String -> strict decode in *)
(*      every documented rendering, on its own network, and is refused on a   *)
(*      network with other prefixes (encoder and decoder are independent      *)
(*      definitions);                                                        *)
(*  (2) over ALL 256 version bytes and payload lengths 0..66 the strict reader*)
(*      accepts exactly (0x00,20) (0x08,20) (0x0b,32), and refuses any        *)
(*      non-zero padding bit.                                                *)
EXTENDS AddressCodec, TLC

VARIABLES mcPhase, mcCase
vars == <<mcPhase, mcCase>>

NetA == [name |-> "A", cash |-> <<97, 98>>, slp |-> <<115, 120>>, pkh |-> 0, sh |-> 5]
NetB == [name |-> "B", cash |-> <<99, 100, 101>>, slp |-> <<>>, pkh |-> 111, sh |-> 196]
Cfg  == [nets |-> <<NetA, NetB>>, pkhIds |-> {0, 111}, shIds |-> {5, 196}]

Pat(n, k) == CASE k = 0 -> Rep(0, n) [] k = 1 -> Rep(255, n) [] k = 2 -> [j \in 1..n |-> (j * 37 + 11) % 256]
               [] OTHER -> [j \in 1..n |-> IF j = n THEN k ELSE 0]
Fake(n, b) == [j \in 1..n |-> (Len(b) * 31 + j * 7 + (IF Len(b) > 0 THEN b[1] + b[Len(b)] ELSE 0)) % 256]

\* a fake environment that is a FUNCTION (same input -> same output): enough for round trips
EnvFor(a) ==
  IF a.kind \in CashKinds THEN <<>>
  ELSE IF a.kind = "PK" THEN
    LET s1 == Fake(32, a.payload)  h == Fake(20, s1) IN
    <<[f |-> "sha256", i |-> a.payload, o |-> s1], [f |-> "ripemd160", i |-> s1, o |-> h],
      [f |-> "sha256d", i |-> <<a.id>> \o h, o |-> Fake(32, <<a.id>> \o h)],
      [f |-> "ec-decompress", i |-> a.payload, o |-> Rep(9, 32)],
      [f |-> "ec-oncurve", i |-> Drop(a.payload, 1), o |-> <<1>>]>>
  ELSE <<[f |-> "sha256d", i |-> <<a.id>> \o a.payload, o |-> Fake(32, <<a.id>> \o a.payload)]>>

Addrs(net) ==
  {CashAddr(k, s, net, Pat(IF k = "P2SH32" THEN 32 ELSE 20, p)) :
      k \in CashKinds, s \in (IF Len(net.slp) > 0 THEN {TRUE, FALSE} ELSE {FALSE}), p \in 0..5}
  \cup {LegacyAddr("LP2PKH", net.pkh, Pat(20, p)) : p \in 0..5}
  \cup {LegacyAddr("LP2SH", net.sh, Pat(20, p)) : p \in 0..5}
  \cup {PubKeyAddr(net, <<2>> \o Pat(32, p)) : p \in 0..2}
  \cup {PubKeyAddr(net, <<4>> \o Pat(64, p)) : p \in 0..2}
  \cup {PubKeyAddr(net, <<6 + (Pat(64, p)[64] % 2)>> \o Pat(64, p)) : p \in 0..2}

Init == \/ mcPhase = "roundtrip" /\ mcCase \in {[net |-> n, a |-> a] : n \in {1}, a \in Addrs(NetA)}
                                       \cup {[net |-> n, a |-> a] : n \in {2}, a \in Addrs(NetB)}
        \/ mcPhase = "version" /\ mcCase \in {[ver |-> v, len |-> -1, pad |-> 0] : v \in 0..255}
Next == /\ mcPhase = "version" /\ mcCase.len = -1 /\ UNCHANGED mcPhase
        /\ \E n \in 0..66, pd \in 0..1 : mcCase' = [mcCase EXCEPT !.len = n, !.pad = pd]

Renderings(a, s) ==
  IF a.kind \in CashKinds THEN {s, UpperStr(s), a.pre \o <<58>> \o s, UpperStr(a.pre \o <<58>> \o s)}
  ELSE IF a.kind = "PK" THEN {s, UpperStr(s)} ELSE {s}

RoundTrip ==
  mcPhase = "roundtrip" =>
    LET a == mcCase.a  env == EnvFor(a)  net == Cfg.nets[mcCase.net]  other == Cfg.nets[3 - mcCase.net]
        s == StringOf(env, a)
    IN /\ \A r \in Renderings(a, s) :
             LET d == DecodeSpec(env, Cfg, r, net) IN d.ok /\ d.a = a
       /\ ForNet(a, net) \/ a.slp
       \* cash strings are refused on a network with different prefixes
       /\ a.kind \in CashKinds => ~DecodeSpec(env, Cfg, a.pre \o <<58>> \o s, other).ok
       /\ a.kind \in CashKinds => ~DecodeSpec(env, Cfg, s, other).ok
       \* the string starts with the version symbol the CashAddr spec prescribes
       /\ a.kind = "P2PKH" => s[1] = 113                 \* 'q'
       /\ a.kind = "P2SH" => s[1] = 112                  \* 'p'
       /\ a.kind = "P2SH32" => s[1] = 112 /\ Len(s) = 61 \* 'p', 53 + 8 symbols
       /\ a.kind \in {"P2PKH", "P2SH"} => Len(s) = 42

\* payload symbols for an arbitrary version byte, with chosen padding bits
RawSymbols(ver, hash, pad) ==
  LET r == Regroup(<<ver>> \o hash, 8, 5) IN
  IF r.rem = 0 THEN r.out
  ELSE Append(r.out, ValMSB(r.tail \o Rep(0, 5 - r.rem)) + (IF pad = 1 THEN 1 ELSE 0))
VersionSweep ==
  (mcPhase = "version" /\ mcCase.len >= 0) =>
    LET hash == Pat(mcCase.len, 2)
        syms == RawSymbols(mcCase.ver, hash, mcCase.pad)
        all == syms \o CashChecksum(NetA.cash, syms)
        body == [k \in 1..Len(all) |-> CharOf32(all[k])]
        d == CashBody(NetA.cash, body, FALSE, NetA)
        padded == (8 * (mcCase.len + 1)) % 5 # 0 /\ mcCase.pad = 1
        std == <<mcCase.ver, mcCase.len>> \in {<<0, 20>>, <<8, 20>>, <<11, 32>>}
    IN /\ d.ok <=> (std /\ ~padded)
       /\ d.ok => d.a.payload = hash
       /\ padded => d.why = "cash-padding"
=============================================================================
