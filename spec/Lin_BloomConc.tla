----------------------------- MODULE Lin_BloomConc -----------------------------
(* C20, dynamic part (i): small rounds (<= 4 goroutines x <= 3 calls) that also   *)
(* reload and unload the filter.  TLC SEARCHES for a linearization: a state is    *)
(* (round, set of calls already linearized, abstract filter); a call may be       *)
(* linearized next when every call that returned before it was invoked is already *)
(* linearized and the sequential specification (Bloom, BIP37 indices) allows the  *)
(* logged result.  A round is accepted when all calls are linearized and the      *)
(* final state equals the final filter observed; then one line is written to      *)
(* VOUT.  A round without such a line is not linearizable.                       *)
EXTENDS Bloom, TLC, Json, CSV, IOUtils

Trace == ndJsonDeserialize(IOEnv.TRACE)
RoundEv(hh) == Trace[hh].ev[1]
SetOfSeq(s) == {s[k] : k \in 1..Len(s)}
\* BIP37 bit numbers of every call's item, computed once (constant level, cached)
IdxTab == MkSeq(Len(Trace), LAMBDA hh :
             LET e == RoundEv(hh)  f == Loaded(e.nbytes, e.nhash, e.tweak, e.flags, {})
             IN MkSeq(Len(e.ops), LAMBDA o : IF e.ops[o].k \in {"Add", "Matches"} THEN Bip37Idx(f, e.ops[o].item) ELSE {}))

VARIABLES lnH, lnDone, lnLoaded, lnBits
lnvars == <<lnH, lnDone, lnLoaded, lnBits>>

Init == \E hh \in 1..Len(Trace) :
          lnH = hh /\ lnDone = {} /\ lnLoaded = TRUE /\ lnBits = SetOfSeq(RoundEv(hh).init)

Ops == RoundEv(lnH).ops
CanGo(o) == o \notin lnDone /\ \A o2 \in 1..Len(Ops) : (Ops[o2].rt < Ops[o].inv) => o2 \in lnDone

Lin(o) ==
  /\ CanGo(o)
  /\ LET c == Ops[o]  ix == IdxTab[lnH][o] IN
     CASE c.k = "Add" -> lnBits' = (IF lnLoaded THEN lnBits \cup ix ELSE lnBits) /\ UNCHANGED lnLoaded
       [] c.k = "Matches" -> c.ret = (lnLoaded /\ ix \subseteq lnBits) /\ UNCHANGED <<lnBits, lnLoaded>>
       [] c.k \in {"IsLoaded", "GetMsg"} -> c.ret = lnLoaded /\ UNCHANGED <<lnBits, lnLoaded>>
       [] c.k = "Reload" -> lnLoaded' = TRUE /\ lnBits' = SetOfSeq(c.bits)
       [] c.k = "Unload" -> lnLoaded' = FALSE /\ lnBits' = {}
       [] OTHER -> FALSE
  /\ lnDone' = lnDone \cup {o}
  /\ UNCHANGED lnH

Finish ==
  /\ lnDone = 1..Len(Ops)
  /\ RoundEv(lnH).finalloaded = lnLoaded
  /\ lnLoaded => SetOfSeq(RoundEv(lnH).final) = lnBits
  /\ CSVWrite("%1$s", <<ToJson([h |-> Trace[lnH].h, n |-> 1, lin |-> TRUE])>>, IOEnv.VOUT)
  /\ lnDone' = lnDone \cup {0}
  /\ UNCHANGED <<lnH, lnLoaded, lnBits>>

Next == Finish \/ \E o \in 1..Len(Ops) : Lin(o)
=============================================================================
