INIT Init
NEXT Next
CONSTANTS
 MaxCoins = 3
 Depth = 5
 Emit = TRUE
CHECK_DEADLOCK FALSE
