--------------------------- MODULE MC_PartialMerkle ---------------------------
(* C11 at design level: for every block size n <= MaxN and EVERY subset S of     *)
(* {0..n-1}, the canonical build followed by the independent extractor returns   *)
(* the merkle root term and exactly S in block order, consuming every flag bit   *)
(* (up to byte padding) and every hash.  Hashes are abstract terms.             *)
EXTENDS PartialMerkle, TLC, FiniteSets

CONSTANT MaxN
VARIABLES mpN, mpS
mpvars == <<mpN, mpS>>

LeafT(k) == <<"L", k>>
HT(l, r) == <<"H", l, r>>
RECURSIVE NodeT(_, _, _)
NodeT(n, ht, pos) ==
  IF ht = 0 THEN LeafT(pos)
  ELSE LET l == NodeT(n, ht - 1, 2 * pos) IN
       IF 2 * pos + 1 < Width(n, ht - 1) THEN HT(l, NodeT(n, ht - 1, 2 * pos + 1)) ELSE HT(l, l)

Init == mpN \in 1..MaxN /\ mpS = {}
Next == /\ UNCHANGED mpN
        /\ \E k \in 0..(mpN - 1) : (\A j \in mpS : j < k) /\ mpS' = mpS \cup {k}

RoundTrip ==
  LET b == Build(mpN, mpS)
      M == [n |-> mpN, hashes |-> [k \in 1..Len(b.ids) |-> NodeT(mpN, b.ids[k][1], b.ids[k][2])],
            bits |-> UnpackFlags(PackFlags(b.bits))]
      x == Extract(M, FALSE, HT, <<"Z">>)
      order == SetToSortSeq(mpS, LAMBDA a, c : a < c)
  IN /\ x.ok
     /\ x.root = NodeT(mpN, Height(mpN), 0)
     /\ x.m = [k \in 1..Len(order) |-> <<LeafT(order[k]), order[k]>>]
     /\ Len(b.ids) <= mpN /\ Len(b.bits) >= Len(b.ids)
     \* a proof is never longer than listing all leaves; empty subset = just the root
     /\ (mpS = {}) => (Len(b.ids) = 1 /\ b.bits = <<0>>)
=============================================================================
