--------------------------------- MODULE MC_CoinSet ---------------------------------
(* Design-level checks for C19:                                                       *)
(*  (1) the selector RELATIONS are satisfiable exactly when a qualifying prefix        *)
(*      exists: the canonical selection (shortest prefix of the list sorted            *)
(*      descending, ties by position) is accepted, and a selection that is not a       *)
(*      prefix of a descending order is refused -- over all coin lists of up to        *)
(*      MaxCoins coins, all targets, MaxInputs and MinChange values of a small scope;  *)
(*  (2) coin-set histories: every sequence of push / pop / shift / read of bounded     *)
(*      depth is generated (Emit) for replay on the real CoinSet.                      *)
EXTENDS CoinSet, TLC, Json, CSV, IOUtils
CONSTANTS MaxCoins, Depth, Emit
VARIABLES mcCoins, mcPar, mcHist
D == IF "GEN_DEPTH" \in DOMAIN IOEnv THEN atoi(IOEnv.GEN_DEPTH) ELSE Depth
CoinT(k, v, cf) == [id |-> k, value |-> v, confs |-> cf, index |-> 0]

Init == /\ mcCoins = <<>> /\ mcHist = <<>>
        /\ mcPar \in [target : 0..6, maxin : 1..3, minchange : 0..1]
Next == \/ /\ ~Emit /\ Len(mcCoins) < MaxCoins /\ UNCHANGED <<mcPar, mcHist>>
           /\ \E v \in 0..3, cf \in 0..2 : mcCoins' = Append(mcCoins, CoinT(Len(mcCoins) + 1, v, cf))
        \/ /\ Emit /\ Len(mcHist) < D /\ mcPar = [target |-> 0, maxin |-> 1, minchange |-> 0] /\ UNCHANGED <<mcCoins, mcPar>>
           /\ \E o \in {"push", "pop", "shift", "read"} :
                /\ mcHist' = Append(mcHist, o)
                /\ (Len(mcHist) + 1 = D) => CSVWrite("%1$s", <<ToJson([ops |-> Append(mcHist, o)])>>, IOEnv.GEN_OUT)

\* canonical selection: positions of the coins in the list sorted descending by Key, ties by position
Canon(Key(_)) ==
  LET order == SortSeq([k \in 1..Len(mcCoins) |-> k], LAMBDA a, b : Key(mcCoins[a]) > Key(mcCoins[b]) \/ (Key(mcCoins[a]) = Key(mcCoins[b]) /\ a < b))
      desc == [k \in 1..Len(order) |-> mcCoins[order[k]]]
      n == PrefixLen(desc, mcPar.target, mcPar.minchange, mcPar.maxin)
  IN [ok |-> n > 0, sel |-> SubSeq(order, 1, n)]
RelationsSatisfiable ==
  ~Emit =>
    LET cv == Canon(LAMBDA c : c.value)  ca == Canon(VA)
        ci == PrefixLen(mcCoins, mcPar.target, mcPar.minchange, mcPar.maxin) IN
    /\ DescPrefixOK(mcCoins, cv.ok, cv.sel, mcPar.target, mcPar.minchange, mcPar.maxin, LAMBDA c : c.value)
    /\ DescPrefixOK(mcCoins, ca.ok, ca.sel, mcPar.target, mcPar.minchange, mcPar.maxin, VA)
    /\ MinIndexOK(mcCoins, ci > 0, [j \in 1..ci |-> j], mcPar.target, mcPar.minchange, mcPar.maxin)
    /\ cv.ok => ValidSelection(mcCoins, cv.sel, mcPar.target, mcPar.minchange, mcPar.maxin)
    \* a reversed (ascending) pick of two different values is never accepted
    /\ (Len(cv.sel) >= 2 /\ mcCoins[cv.sel[1]].value # mcCoins[cv.sel[Len(cv.sel)]].value) =>
          ~DescPrefixOK(mcCoins, TRUE, Reverse(cv.sel), mcPar.target, mcPar.minchange, mcPar.maxin, LAMBDA c : c.value)
=============================================================================
