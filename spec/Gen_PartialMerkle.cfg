INIT Init
NEXT Next
CONSTANTS
  MaxN = 4
  Atoms = {1, 2, 3}
  FlagBytes = {0, 1, 2}
INVARIANT Sound
INVARIANT Agree
CHECK_DEADLOCK FALSE
