INIT InitS
NEXT NextS
INVARIANT JudgeS
CHECK_DEADLOCK FALSE
