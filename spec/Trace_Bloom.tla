------------------------------ MODULE Trace_Bloom ------------------------------
(* Trace validation of bloom filter histories (C09).  One history = one Filter  *)
(* object; every event carries the logged post-state projection               *)
(*   post = [loaded, nbytes, nhash, tweak, flags, pop, full, bits | delta,     *)
(*           cleared, bytes]                                                   *)
(* (bits newly set / cleared are computed by the harness from snapshots of the  *)
(* filter's byte array taken through MsgFilterLoad()).  Validation continues    *)
(* from the logged state; the verdict compares it with the specification's      *)
(* action applied to the previous state.                                       *)
EXTENDS Bloom, TraceBase

V(clause, exp, got) == <<clause, exp, got>>
OK == <<>>
SetOfSeq(s) == {s[k] : k \in 1..Len(s)}

UpdB(f, e) ==
  IF "post" \notin DOMAIN e THEN f
  ELSE LET q == e.post IN
       IF ~q.loaded THEN Unloaded
       ELSE Loaded(q.nbytes, q.nhash, q.tweak, q.flags,
                   IF q.full THEN SetOfSeq(q.bits) ELSE (f.bits \cup SetOfSeq(q.delta)) \ SetOfSeq(q.cleared))

\* the logged projection must be self-consistent (popcount, and bytes for small filters)
PostConsistent(e, s) ==
  LET q == e.post IN
  IF ~q.loaded THEN OK
  ELSE IF q.pop # Cardinality(s.bits) THEN V("logged-popcount", Cardinality(s.bits), q.pop)
  ELSE IF Len(q.bytes) > 0 /\ q.bytes # BytesOfBits(s.bits, s.nbytes) THEN V("logged-bytes", Cut(BytesOfBits(s.bits, s.nbytes)), Cut(q.bytes))
  ELSE OK

ItemOf(e) == IF e.op \in {"AddOutPoint", "MatchesOutPoint"} THEN OutPointBytes(e.txid, e.idx) ELSE e.item

Brief(f) == [loaded |-> f.loaded, nbytes |-> f.nbytes, nhash |-> f.nhash, tweak |-> f.tweak, flags |-> f.flags, nbits |-> Cardinality(f.bits)]
Expect(clause, exp, s) ==
  IF s = exp THEN OK
  ELSE IF Brief(s) # Brief(exp) THEN V(clause, Brief(exp), Brief(s))
  ELSE V(clause, [missing |-> exp.bits \ s.bits, extra |-> s.bits \ exp.bits], "bit-sets-differ")

VerdictB(p, e, s) ==
  IF "panic" \in DOMAIN e THEN V("panic", e.op, e.panic)
  ELSE IF e.op = "Skipped" THEN OK
  ELSE IF e.op = "Murmur" THEN
    LET x == Murmur3(e.seed, e.data) IN IF x = e.ret THEN OK ELSE V("murmur3", x, e.ret)
  ELSE LET c == PostConsistent(e, s) IN IF c # OK THEN c ELSE
  CASE e.op = "NewFilter" ->
         IF NewFilterOK(s, e.tweak, e.flags) THEN OK ELSE V("newfilter-limits", [tweak |-> e.tweak, flags |-> e.flags], Brief(s))
    [] e.op \in {"LoadFilter", "Reload"} ->
         Expect("load-state", IF e.nil THEN Unloaded ELSE Loaded(e.nbytes, e.nhash, e.tweak, e.flags, SetOfSeq(e.setbits)), s)
    [] e.op = "Unload" -> Expect("unload-state", Unloaded, s)
    [] e.op = "IsLoaded" ->
         IF e.ret # p.loaded THEN V("isloaded", p.loaded, e.ret) ELSE Expect("query-mutated-filter", p, s)
    [] e.op \in {"Add", "AddHash", "AddOutPoint"} ->
         Expect("bip37-insert", AddNext(p, Bip37Idx(p, ItemOf(e))), s)
    [] e.op \in {"Matches", "MatchesOutPoint"} ->
         LET r == MatchesRes(p, Bip37Idx(p, ItemOf(e))) IN
         IF ~ResOK(r, e.ret) THEN V("bip37-membership", r, e.ret) ELSE Expect("query-mutated-filter", p, s)
    [] e.op = "GetMsg" ->
         IF e.retnil # ~p.loaded THEN V("msgfilterload-nil", ~p.loaded, e.retnil) ELSE Expect("query-mutated-filter", p, s)
    [] OTHER -> V("unknown-op", e.op, e.op)

InitB == TInit(Unloaded)
NextB == TNext(UpdB)
JudgeB == Judge(VerdictB)
=============================================================================
