INIT InitG
NEXT NextG
INVARIANT JudgeG
CHECK_DEADLOCK FALSE
