INIT InitCS
NEXT NextCS
INVARIANT JudgeCS
CHECK_DEADLOCK FALSE
