------------------------------- MODULE Trace_CertGen -------------------------------
EXTENDS CertGen, TraceBase
V(clause, exp, got) == <<clause, exp, got>>
OK == <<>>
First(vs) == LET bad == SelectSeq(vs, LAMBDA v : v # OK) IN IF bad = <<>> THEN OK ELSE bad[1]
VerdictCG(p, e, s) ==
  IF e.op # "CertPair" THEN V("unknown-op", e.op, e.op)
  ELSE IF "panic" \in DOMAIN e THEN V("panic", e.op, e.panic)
  ELSE IF e.err THEN (IF MayFail(e) THEN OK ELSE V("refused-a-future-expiry", "a certificate", e.errmsg))
  ELSE IF MustFail(e) THEN V("issued-an-already-expired-certificate", "error", e.na)
  ELSE First(<<
    IF e.certtype # "CERTIFICATE" \/ e.keytype # "EC PRIVATE KEY" THEN V("pem-block-types", <<"CERTIFICATE", "EC PRIVATE KEY">>, <<e.certtype, e.keytype>>) ELSE OK,
    IF ~e.keymatch THEN V("private-key-does-not-match-certificate", TRUE, FALSE) ELSE OK,
    IF e.curve # "P-256" THEN V("curve", "P-256", e.curve) ELSE OK,
    IF ~e.selfsig THEN V("self-signature-does-not-verify", TRUE, FALSE) ELSE OK,
    IF ~(e.isca /\ e.bcvalid) THEN V("not-a-ca-certificate", TRUE, FALSE) ELSE OK,
    \* x509.KeyUsageDigitalSignature = 1, KeyEncipherment = 4, CertSign = 32
    IF e.ku # 37 THEN V("key-usage", 37, e.ku) ELSE OK,
    IF e.serialbits > 128 THEN V("serial-number-range", 128, e.serialbits) ELSE OK,
    IF e.na # WantNotAfter(e) THEN V("not-after", WantNotAfter(e), e.na) ELSE OK,
    IF ~(TLe(DayBefore(e.now0), e.nb) /\ TLe(e.nb, DayBefore(e.now1))) THEN V("not-before", DayBefore(e.now0), e.nb) ELSE OK,
    IF e.orgs # <<e.org>> THEN V("organization", Cut(e.org), Cut(e.orgs)) ELSE OK,
    IF e.cn # e.hostname THEN V("common-name", Cut(e.hostname), Cut(e.cn)) ELSE OK,
    IF ~NoDup(e.dns) THEN V("duplicate-dns-name", "distinct", Cut(e.dns)) ELSE OK,
    IF Range(e.dns) # WantDNS(e) THEN V("dns-names", Cut(SetToSeq(WantDNS(e))), Cut(e.dns)) ELSE OK,
    IF e.dns[1] # e.hostname THEN V("first-dns-name-is-the-host-name", Cut(e.hostname), Cut(e.dns[1])) ELSE OK,
    IF ~NoDup(e.ips) THEN V("duplicate-ip-address", "distinct", Cut(e.ips)) ELSE OK,
    IF Range(e.ips) # WantIPs(e) THEN V("ip-addresses", Cut(SetToSeq(WantIPs(e))), Cut(e.ips)) ELSE OK >>)
InitCG == TInit(0)
NextCG == TNext(Same)
JudgeCG == Judge(VerdictCG)
=============================================================================
