---------------------------- MODULE ChecksumCodes ----------------------------
(* C03: minimum distance of the two checksum codes, by exhaustive syndrome     *)
(* enumeration in TLC.                                                         *)
(*                                                                            *)
(* Both codes are linear over GF(32): a word v of fixed length is valid iff    *)
(* L(v) = const, L(v) = v(x) mod g.  Two valid words of equal length/prefix    *)
(* differ by e with L(e) = 0.  Let T[p][a] = L(a x^p) (p = distance from the   *)
(* END of the word).  Shifting the lowest error position to 0 (g(0) # 0) and   *)
(* scaling its coefficient to 1 (linearity), a non-zero e of weight <= 5 inside*)
(* a window of W symbols exists iff two DIFFERENT members of                   *)
(*    L = { T01, T01+Tia, T01+Tia+Tjb }   R = { 0, Tkc, Tkc+Tld }              *)
(* (0 < i < j < W, 0 < k < l < W, coefficients 1..31) have the same syndrome.  *)
(* Every member is one TLC state whose VIEW is the syndrome only, so the proof *)
(* obligation is  "distinct states = generated states"  (a collision is merged *)
(* by the fingerprint set).  MaxW = 4 drops the two-term members of R (bech32).*)
(*                                                                            *)
(* The table T is either derived from the generator coefficients (Source =     *)
(* "spec": the design) or read from the table the harness computed with the    *)
(* IMPLEMENTATION's own remainder function through the verif hook (Source =    *)
(* "impl"), so a changed constant in the code changes the code being proved.   *)
EXTENDS LibGF32, TLC, Json, IOUtils

CONSTANTS Code,      \* "cash" | "bech"
          W,         \* window in symbols (positions 0..W-1 from the end)
          MaxW,      \* 5 or 4
          Source     \* "spec" | "impl"

G == IF Code = "cash" THEN GCash ELSE GBech
Deg == Len(G)
Half == IF Code = "cash" THEN 4 ELSE 3      \* symbols per packed half

\* pack a remainder (symbols, x^(deg-1) first) into <<hi, lo>>
PackSyms(s) == <<ValMSB(Concat([k \in 1..Half |-> BitsMSB(s[k], 5)])),
                 ValMSB(Concat([k \in 1..Half |-> BitsMSB(s[Half + k], 5)]))>>
SX(a, b) == <<a[1] ^^ b[1], a[2] ^^ b[2]>>

\* H[p+1] = x^p mod g as symbols; T[p+1][a] = a * H[p+1]
SpecH == LET step(acc, p) == Append(acc, RemStep(G, acc[Len(acc)], 0))
         IN FoldLeft(step, <<IF Deg = 8 THEN <<0,0,0,0,0,0,0,1>> ELSE <<0,0,0,0,0,1>>>>, [p \in 1..(W - 1) |-> p])
ScaleSyms(s, a) == MkSeq(Deg, LAMBDA k : GfMul(a, s[k]))
SpecT == MkSeq(W, LAMBDA p : MkSeq(31, LAMBDA a : PackSyms(ScaleSyms(SpecH[p], a))))

\* implementation table: JSON  {"t": [[ [hi,lo] x31 ] x W]}  (p = 0 first)
ImplT == JsonDeserialize(IOEnv.TABLE).t
Tab == IF Source = "spec" THEN SpecT ELSE ImplT
T(p, a) == Tab[p + 1][a]

VARIABLES ccSyn, ccSide, ccN, ccLast
ccvars == <<ccSyn, ccSide, ccN, ccLast>>
SynView == ccSyn

Init == ccSyn = <<-1, -1>> /\ ccSide = "root" /\ ccN = 0 /\ ccLast = 0
Next ==
  \/ /\ ccSide = "root"
     /\ \/ ccSide' = "L" /\ ccSyn' = T(0, 1) /\ ccN' = 1 /\ ccLast' = 0
        \/ ccSide' = "R" /\ ccSyn' = <<0, 0>> /\ ccN' = 0 /\ ccLast' = 0
  \/ /\ ccSide = "L" /\ ccN < 3 /\ UNCHANGED ccSide
     /\ \E p \in (ccLast + 1)..(W - 1), a \in 1..31 :
          ccSyn' = SX(ccSyn, T(p, a)) /\ ccN' = ccN + 1 /\ ccLast' = p
  \/ /\ ccSide = "R" /\ ccN < MaxW - 3 /\ UNCHANGED ccSide
     /\ \E p \in (ccLast + 1)..(W - 1), a \in 1..31 :
          ccSyn' = SX(ccSyn, T(p, a)) /\ ccN' = ccN + 1 /\ ccLast' = p

\* sanity of the table itself (evaluated once): a single symbol error within the last
\* Deg positions IS its own syndrome
TableSane ==
  ccSide = "root" =>
    /\ Len(Tab) >= W
    /\ \A p \in 0..(Deg - 1), a \in {1, 31} :
         T(p, a) = PackSyms([k \in 1..Deg |-> IF k = Deg - p THEN a ELSE 0])
=============================================================================
