----------------------------- MODULE TextCodecs -----------------------------
(* C07: Base58, Base58Check, bech32 (BIP173) and 8<->5 regrouping as          *)
(* functions on ASCII-code sequences.  Written from the format definitions;   *)
(* MC_TextCodecs proves encoder and decoder mutually inverse on a small scope *)
(* before they are allowed to judge the implementation.                       *)
EXTENDS LibCodec, LibEnv

\* Base58Check ---------------------------------------------------------------
Sha256d4(env, b) == LET hsh == EnvGet(env, "sha256d", b) IN IF hsh = Missing THEN Missing ELSE Take(hsh, 4)
CheckEnc(env, ver, payload) == B58Enc(<<ver>> \o payload \o Sha256d4(env, <<ver>> \o payload))
\* [ok, err, ver, payload]; err in {"", "format", "checksum"}
CheckDec(env, s) ==
  LET d == B58Dec(s) IN
  IF Len(d) < 5 THEN [ok |-> FALSE, err |-> "format", ver |-> 0, payload |-> <<>>]
  ELSE LET body == SubSeq(d, 1, Len(d) - 4)  ck == SubSeq(d, Len(d) - 3, Len(d)) IN
       IF Sha256d4(env, body) # ck
         THEN [ok |-> FALSE, err |-> "checksum", ver |-> 0, payload |-> <<>>]
         ELSE [ok |-> TRUE, err |-> "", ver |-> d[1], payload |-> SubSeq(body, 2, Len(body))]

\* bech32 (BIP173) -------------------------------------------------------------
Bech32Enc(hrp, data) ==
  IF \E k \in 1..Len(data) : data[k] > 31 THEN [ok |-> FALSE, s |-> <<>>]
  ELSE LET all == data \o BechChecksum(hrp, data)     \* hoisted: function constructors are lazy in TLC
       IN [ok |-> TRUE, s |-> hrp \o <<49>> \o [k \in 1..Len(all) |-> CharOf32(all[k])]]

BechFail == [ok |-> FALSE, hrp |-> <<>>, data |-> <<>>]
Bech32Dec(s0) ==
  IF Len(s0) < 8 \/ Len(s0) > 90 THEN BechFail
  ELSE IF \E k \in 1..Len(s0) : s0[k] < 33 \/ s0[k] > 126 THEN BechFail
  ELSE IF s0 # LowerStr(s0) /\ s0 # UpperStr(s0) THEN BechFail
  ELSE LET s == LowerStr(s0)
           one == LastIndexOf(s, 49)          \* 1-based position of the last '1'
       IN IF one < 2 \/ one + 6 > Len(s) THEN BechFail   \* empty hrp / checksum too short
          ELSE LET hrp == SubSeq(s, 1, one - 1)
                   dch == SubSeq(s, one + 1, Len(s))
               IN IF \E k \in 1..Len(dch) : Val32(dch[k]) < 0 THEN BechFail
                  ELSE LET vals == [k \in 1..Len(dch) |-> Val32(dch[k])]
                       IN IF ~BechVerify(hrp, vals) THEN BechFail
                          ELSE [ok |-> TRUE, hrp |-> hrp, data |-> SubSeq(vals, 1, Len(vals) - 6)]

\* ConvertBits: BIP173 rule for 8<->5; for the other (from,to) pairs the       *)
\* property claims nothing beyond the documented "incomplete group of at most  *)
\* 4 zero bits" rule -- named deviation GeneralRegroupRule.                   *)
ConvertBitsSpec(data, from, to, pad) ==
  IF from < 1 \/ from > 8 \/ to < 1 \/ to > 8 THEN [ok |-> FALSE, out |-> <<>>]
  ELSE LET r == Regroup(data, from, to) IN
       IF pad THEN [ok |-> TRUE, out |-> RegroupPad(data, from, to)]
       ELSE IF r.rem > 0 /\ (r.rem > 4 \/ ~TailZero(r)) THEN [ok |-> FALSE, out |-> <<>>]
       ELSE [ok |-> TRUE, out |-> r.out]
=============================================================================
