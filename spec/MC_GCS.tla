---------------------------------- MODULE MC_GCS ----------------------------------
(* Small-scope cross-check of the two independent definitions used for C13/C14:    *)
(* an ENCODER (delta, unary quotient, P-bit remainder MSB first, zero padding) and  *)
(* the verifying SCANNER of module GCS.  For every sorted multiset of up to MaxN     *)
(* values below MaxV and every P <= MaxP: the scanner accepts the encoder's bytes,   *)
(* rejects them after any single bit flip and after appending a byte, and the        *)
(* decoded membership equals set membership.                                       *)
EXTENDS GCS, TLC

CONSTANTS MaxN, MaxV, MaxP
VARIABLES mgVals, mgP
mgvars == <<mgVals, mgP>>

Init == mgVals = <<>> /\ mgP \in 0..MaxP
Next == /\ Len(mgVals) < MaxN /\ UNCHANGED mgP
        /\ \E v \in 0..(MaxV - 1) : (IF Len(mgVals) = 0 THEN TRUE ELSE v >= mgVals[Len(mgVals)]) /\ mgVals' = Append(mgVals, v)

EncodeBits(vals, p) ==
  LET step(acc, v) ==
        LET d == v - acc.last  q == d \div Pow2(p)  r == d % Pow2(p)
        IN [bits |-> acc.bits \o Rep(1, q) \o <<0>> \o BitsMSB(r, p), last |-> v]
  IN FoldLeft(step, [bits |-> <<>>, last |-> 0], vals).bits
PackMSB(bits) ==
  [b \in 1..((Len(bits) + 7) \div 8) |-> ValMSB([j \in 1..8 |-> IF 8 * (b - 1) + j <= Len(bits) THEN bits[8 * (b - 1) + j] ELSE 0])]
Flip(bytes, pos) == [bytes EXCEPT ![(pos \div 8) + 1] = IF BitAt(bytes, pos) = 1 THEN @ - Pow2(7 - (pos % 8)) ELSE @ + Pow2(7 - (pos % 8))]

Agree ==
  LET bytes == PackMSB(EncodeBits(mgVals, mgP))
      lv == [k \in 1..Len(mgVals) |-> NFromSmall(mgVals[k])]
  IN /\ (Len(mgVals) > 0) => ScanFilter(bytes, mgP, lv) = "ok"
     /\ \A pos \in 0..(8 * Len(bytes) - 1) : ScanFilter(Flip(bytes, pos), mgP, lv) # "ok"
     /\ (Len(mgVals) > 0) => ScanFilter(bytes \o <<0>>, mgP, lv) = "trailing-bytes"
     \* limb helpers against plain integer arithmetic
     /\ \A k \in 1..Len(mgVals) : NToSmall(NShr(lv[k], mgP)) = mgVals[k] \div Pow2(mgP)
     /\ \A k \in 1..Len(mgVals) : NToSmall(NLow(lv[k], mgP)) = mgVals[k] % Pow2(mgP)
=============================================================================
