INIT Init
NEXT Next
INVARIANT RoundTrip
INVARIANT VersionSweep
CHECK_DEADLOCK FALSE
