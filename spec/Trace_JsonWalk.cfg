INIT InitJW
NEXT NextJW
INVARIANT JudgeJW
CHECK_DEADLOCK FALSE
