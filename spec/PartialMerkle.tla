----------------------------- MODULE PartialMerkle -----------------------------
(* C11 / C12: BIP37 partial merkle trees.                                      *)
(*   Build(n, matched)    canonical depth-first flags and node ids for a block  *)
(*                        of n transactions and a set of matched indices;       *)
(*   Extract(M, HC(_,_))  independent evaluation of a (possibly malicious)      *)
(*                        message M = [n, hashes, bits]; the hash-combine       *)
(*                        operator is a parameter: abstract terms <<"H",l,r>>   *)
(*                        in the model check, logged double-SHA256 facts in the *)
(*                        trace validator.                                     *)
EXTENDS LibBytes, LibEnv

Width(n, ht) == (n + Pow2(ht) - 1) \div Pow2(ht)
\* least ht with Width = 1 (n >= 1); n < 2^31
Height(n) == CHOOSE ht \in 0..31 : Width(n, ht) = 1 /\ \A g \in 0..(ht - 1) : Width(n, g) > 1

\* ---- C11: canonical build ------------------------------------------------------
\* does the subtree rooted at node (ht, pos) contain a matched leaf?
IsParent(matched, ht, pos) == \E m \in matched : m \div Pow2(ht) = pos
RECURSIVE BuildRec(_, _, _, _)
\* returns [bits, ids]: flag bits and node ids <<ht, pos>> in depth-first order
BuildRec(n, matched, ht, pos) ==
  LET par == IsParent(matched, ht, pos) IN
  IF ht = 0 \/ ~par THEN [bits |-> <<IF par THEN 1 ELSE 0>>, ids |-> <<<<ht, pos>>>>]
  ELSE LET l == BuildRec(n, matched, ht - 1, 2 * pos) IN
       IF 2 * pos + 1 < Width(n, ht - 1)
         THEN LET r == BuildRec(n, matched, ht - 1, 2 * pos + 1)
              IN [bits |-> <<1>> \o l.bits \o r.bits, ids |-> l.ids \o r.ids]
         ELSE [bits |-> <<1>> \o l.bits, ids |-> l.ids]
Build(n, matched) == BuildRec(n, matched, Height(n), 0)
\* flag bytes: bit k (0-based) of the flag sequence is bit (k % 8) of byte k \div 8, zero padded
PackFlags(bits) ==
  [b \in 1..((Len(bits) + 7) \div 8) |->
     FoldLeft(LAMBDA acc, j : acc + (IF 8 * (b - 1) + j + 1 <= Len(bits) /\ bits[8 * (b - 1) + j + 1] = 1 THEN Pow2(j) ELSE 0),
              0, <<0, 1, 2, 3, 4, 5, 6, 7>>)]
UnpackFlags(bytes) == [k \in 1..(8 * Len(bytes)) |-> (bytes[((k - 1) \div 8) + 1] \div Pow2((k - 1) % 8)) % 2]

\* the merkle tree logged by the harness: tree[ht+1][pos+1] = node value, pairs[ht+1][pos+1] =
\* the 64 bytes that were double-SHA256'd to obtain it (ht >= 1).  The duplication rule for a
\* missing right sibling is checked HERE, the harness only hashes.
TreeOK(n, tree, pairs) ==
  /\ Len(tree) = Height(n) + 1
  /\ \A ht \in 0..Height(n) : Len(tree[ht + 1]) = Width(n, ht)
  /\ \A ht \in 1..Height(n) : \A pos \in 0..(Width(n, ht) - 1) :
       pairs[ht + 1][pos + 1] =
         tree[ht][2 * pos + 1] \o tree[ht][(IF 2 * pos + 1 < Width(n, ht - 1) THEN 2 * pos + 1 ELSE 2 * pos) + 1]
NodeVal(tree, id) == tree[id[1] + 1][id[2] + 1]

\* ---- C12: extraction -------------------------------------------------------------
\* cursor: [bu, hu, bad, m]  (bits used, hashes used, latch, matches as <<hash, pos>>)
Cur0 == [bu |-> 0, hu |-> 0, bad |-> FALSE, m |-> <<>>]
RECURSIVE ExtRec(_, _, _, _, _, _)
\* returns [c, val]
ExtRec(M, HC(_, _), Zero, ht, pos, c) ==
  IF c.bad THEN [c |-> c, val |-> Zero]
  ELSE IF c.bu >= Len(M.bits) THEN [c |-> [c EXCEPT !.bad = TRUE], val |-> Zero]
  ELSE LET par == M.bits[c.bu + 1]
           c1 == [c EXCEPT !.bu = @ + 1]
       IN IF ht = 0 \/ par = 0 THEN
            IF c1.hu >= Len(M.hashes) THEN [c |-> [c1 EXCEPT !.bad = TRUE], val |-> Zero]
            ELSE LET hsh == M.hashes[c1.hu + 1] IN
                 [c |-> [c1 EXCEPT !.hu = @ + 1, !.m = IF ht = 0 /\ par = 1 THEN Append(@, <<hsh, pos>>) ELSE @],
                  val |-> hsh]
          ELSE LET l == ExtRec(M, HC, Zero, ht - 1, 2 * pos, c1) IN
               IF l.c.bad THEN l
               ELSE IF 2 * pos + 1 < Width(M.n, ht - 1) THEN
                      LET r == ExtRec(M, HC, Zero, ht - 1, 2 * pos + 1, l.c) IN
                      IF r.c.bad THEN r
                      ELSE IF r.val = l.val THEN [c |-> [r.c EXCEPT !.bad = TRUE], val |-> Zero]   \* CVE-2012-2459
                      ELSE [c |-> r.c, val |-> HC(l.val, r.val)]
                    ELSE [c |-> l.c, val |-> HC(l.val, l.val)]

\* Growth X02: a PartialBlock can be asked again.  Until fix 8a (see known_findings.json, C12-second-extraction)
\* ExtractMatches did not reset its cursors, so a second call continued where the first had stopped (after a success
\* it failed; after a refusal for an unused hash it could SUCCEED with that hash as the root -- a C12 violation).
\* Every call now starts from the beginning of the message: the second answer is the first answer.
SecondExtract(M, first) == [defined |-> TRUE, ok |-> first.ok, bad |-> first.bad]

ExtFail(why) == [ok |-> FALSE, why |-> why, root |-> <<>>, m |-> <<>>]
\* M = [n, hashes, bits]; toomany = the declared count exceeds the limit
Extract(M, toomany, HC(_, _), Zero) ==
  IF M.n = 0 THEN ExtFail("zero-transactions")
  ELSE IF toomany THEN ExtFail("too-many-transactions")
  ELSE IF Len(M.hashes) > M.n THEN ExtFail("more-hashes-than-transactions")
  ELSE IF Len(M.bits) < Len(M.hashes) THEN ExtFail("fewer-bits-than-hashes")
  ELSE LET r == ExtRec(M, HC, Zero, Height(M.n), 0, Cur0) IN
       IF r.c.bad THEN ExtFail("bad-tree")
       ELSE IF (r.c.bu + 7) \div 8 # (Len(M.bits) + 7) \div 8 THEN ExtFail("unused-flag-byte")
       ELSE IF r.c.hu # Len(M.hashes) THEN ExtFail("unused-hash")
       ELSE [ok |-> TRUE, why |-> "", root |-> r.val, m |-> r.c.m]
=============================================================================
