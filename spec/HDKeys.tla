-------------------------------- MODULE HDKeys --------------------------------
(* C04 / C05 / C06 / C15: BIP32 extended keys and WIF strings as values.         *)
(* Environment primitives (logged facts): "hmac512" (i = keylen byte || key ||    *)
(* data, o = 64 bytes), "ec-base" (32-byte scalar -> 33-byte compressed k*G, or    *)
(* <<>> for infinity), "ec-add" (P33 || Q33 -> compressed sum, <<>> for infinity   *)
(* or invalid), "ec-uncompress" (P33 -> 65 bytes), "ec-decompress" (33 bytes ->     *)
(* 32-byte Y or <<>>), "sha256", "ripemd160", "sha256d".  Everything else --       *)
(* layouts, ranges, padding, modular addition, fingerprints, error cases -- is     *)
(* specified here.                                                               *)
EXTENDS AddressCodec

\* secp256k1 group order n, big endian bytes
CurveNBytes == <<255,255,255,255,255,255,255,255,255,255,255,255,255,255,255,254,
                 186,174,220,230,175,72,160,59,191,210,94,140,208,54,65,65>>
CurveN == NFromBytesBE(CurveNBytes)
MasterHmacKey == <<66,105,116,99,111,105,110,32,115,101,101,100>>     \* "Bitcoin seed"

Hmac512(env, key, data) == EnvGet(env, "hmac512", <<Len(key)>> \o key \o data)
EcBase(env, k32) == EnvGet(env, "ec-base", k32)
EcAdd(env, p, q) == EnvGet(env, "ec-add", p \o q)

BE32(w) == <<w[1] \div 256, w[1] % 256, w[2] \div 256, w[2] % 256>>       \* w = <<hi16, lo16>>
W32OfBE(b) == <<b[1] * 256 + b[2], b[3] * 256 + b[4]>>
Hardened(w) == w[1] >= 32768

\* an extended key value
XKey(ver, depth, fp, cn, cc, key, priv) ==
  [ver |-> ver, depth |-> depth, fp |-> fp, cn |-> cn, cc |-> cc, key |-> key, priv |-> priv]
ZeroedKey == [ver |-> <<>>, depth |-> 0, fp |-> <<0, 0, 0, 0>>, cn |-> <<0, 0>>, cc |-> Rep(0, 32), key |-> <<>>, priv |-> FALSE]
IsZeroed(k) == k.key = <<>>

\* serialized public key of k
SerP(env, k) == IF k.priv THEN EcBase(env, k.key) ELSE k.key

Payload78(k) ==
  k.ver \o <<k.depth>> \o k.fp \o BE32(k.cn) \o k.cc \o (IF k.priv THEN <<0>> \o k.key ELSE k.key)
XKeyString(env, k) == LET p == Payload78(k) IN B58Enc(p \o Sha256d4(env, p))
\* fields of a 78-byte payload (no validation)
XKeyOfPayload(p) ==
  XKey(SubSeq(p, 1, 4), p[5], SubSeq(p, 6, 9), W32OfBE(SubSeq(p, 10, 13)), SubSeq(p, 14, 45),
       IF p[46] = 0 THEN SubSeq(p, 47, 78) ELSE SubSeq(p, 46, 78), p[46] = 0)

ScalarOK(b32) == LET v == NFromBytesBE(b32) IN ~NIsZero(v) /\ NCmp(v, CurveN) < 0

XOk(k) == [ok |-> TRUE, err |-> "", k |-> k]
XErr(err) == [ok |-> FALSE, err |-> err, k |-> ZeroedKey]

\* NewMaster(seed, net)
MasterSpec(env, seed, hdpriv) ==
  IF Len(seed) < 16 \/ Len(seed) > 64 THEN XErr("seed-length")
  ELSE LET I == Hmac512(env, MasterHmacKey, seed) IN
       IF I = Missing THEN XErr("ENV-MISSING")
       ELSE LET il == SubSeq(I, 1, 32)  ir == SubSeq(I, 33, 64) IN
            IF ~ScalarOK(il) THEN XErr("unusable-seed")
            ELSE XOk(XKey(hdpriv, 0, <<0, 0, 0, 0>>, <<0, 0>>, ir, il, TRUE))

\* Child(k, i): BIP32 CKDpriv / CKDpub
ChildSpec(env, k, i) ==
  IF k.depth = 255 THEN XErr("max-depth")
  ELSE IF Hardened(i) /\ ~k.priv THEN XErr("hardened-from-public")
  ELSE LET pk == SerP(env, k)
           data == (IF Hardened(i) THEN <<0>> \o k.key ELSE pk) \o BE32(i)
           I == Hmac512(env, k.cc, data)
       IN IF pk = Missing \/ I = Missing THEN XErr("ENV-MISSING")
          ELSE LET il == SubSeq(I, 1, 32)  ir == SubSeq(I, 33, 64)
                   h160 == Hash160(env, pk)
               IN IF h160 = Missing THEN XErr("ENV-MISSING")
                  ELSE IF ~ScalarOK(il) THEN XErr("invalid-child")
                  ELSE IF k.priv THEN
                         LET sum == NAdd(NFromBytesBE(il), NFromBytesBE(k.key))
                             red == IF NCmp(sum, CurveN) >= 0 THEN NSub(sum, CurveN) ELSE sum
                         IN XOk(XKey(k.ver, k.depth + 1, Take(h160, 4), i, ir, NToBytesBEPad(red, 32), TRUE))
                  ELSE LET ilG == EcBase(env, il)
                           ck == IF ilG = Missing THEN Missing ELSE EcAdd(env, ilG, k.key)
                       IN IF ck = Missing THEN XErr("ENV-MISSING")
                          ELSE IF Len(ck) # 33 THEN XErr("invalid-child")
                          ELSE XOk(XKey(k.ver, k.depth + 1, Take(h160, 4), i, ir, ck, FALSE))

\* Neuter(k): hdmap = sequence of <<privVersion, pubVersion>> pairs of the registered networks
PubVersion(hdmap, ver) ==
  LET m == SelectSeq(hdmap, LAMBDA pr : pr[1] = ver) IN IF Len(m) = 0 THEN <<>> ELSE m[1][2]
NeuterSpec(env, hdmap, k) ==
  IF ~k.priv THEN XOk(k)
  ELSE IF PubVersion(hdmap, k.ver) = <<>> THEN XErr("unknown-hd-version")
  ELSE IF SerP(env, k) = Missing THEN XErr("ENV-MISSING")
  ELSE XOk([k EXCEPT !.ver = PubVersion(hdmap, k.ver), !.key = SerP(env, k), !.priv = FALSE])

\* NewKeyFromString(s)
ParseSpec(env, s) ==
  LET d == B58Dec(s) IN
  IF Len(d) # 82 THEN XErr("length")
  ELSE LET p == SubSeq(d, 1, 78)  ck == SubSeq(d, 79, 82) IN
       IF Sha256d4(env, p) = Missing THEN XErr("ENV-MISSING")
       ELSE IF Sha256d4(env, p) # ck THEN XErr("checksum")
       ELSE LET k == XKeyOfPayload(p) IN
            IF k.priv THEN (IF ScalarOK(k.key) THEN XOk(k) ELSE XErr("scalar-out-of-range"))
            ELSE LET v == PubKeyValid(env, k.key) IN
                 IF v = "missing" THEN XErr("ENV-MISSING") ELSE IF v = "ok" THEN XOk(k) ELSE XErr("bad-public-key")

\* ---- WIF (C06) -------------------------------------------------------------------------
WifString(env, netid, key32, compressed) ==
  LET body == <<netid>> \o key32 \o (IF compressed THEN <<1>> ELSE <<>>) IN B58Enc(body \o Sha256d4(env, body))
WifFail(why) == [ok |-> FALSE, why |-> why, netid |-> 0, key |-> <<>>, compressed |-> FALSE]
WifDecode(env, s) ==
  LET d == B58Dec(s) IN
  IF Len(d) = 38 /\ d[34] # 1 THEN WifFail("malformed")
  ELSE IF Len(d) \notin {37, 38} THEN WifFail("malformed")
  ELSE LET body == SubSeq(d, 1, Len(d) - 4) IN
       IF Sha256d4(env, body) = Missing THEN WifFail("ENV-MISSING")
       ELSE IF Sha256d4(env, body) # SubSeq(d, Len(d) - 3, Len(d)) THEN WifFail("checksum")
       ELSE [ok |-> TRUE, why |-> "", netid |-> d[1], key |-> SubSeq(d, 2, 33), compressed |-> Len(d) = 38]
=============================================================================
