-------------------------- MODULE Trace_PartialMerkle --------------------------
(* Trace validation for C11 (Proof events: the three proof builders and the      *)
(* extractor on a real block) and C12 (ExtractMsg events: the extractor on        *)
(* arbitrary messages).                                                         *)
EXTENDS PartialMerkle, TraceBase, FiniteSets

V(clause, exp, got) == <<clause, exp, got>>
OK == <<>>
Zero32 == Rep(0, 32)
SetOfSeq(s) == {s[k] : k \in 1..Len(s)}
\* ascending sequence of a finite set of naturals
SortedSeq(S) == SetToSortSeq(S, LAMBDA a, b : a < b)

HCenv(env) == [dummy |-> 0]
Brief32(hs) == [k \in 1..Len(hs) |-> Take(hs[k], 4)]

\* ---- C12 ----------------------------------------------------------------------------
ExtractVerdict(e) ==
  LET n == e.ntx[1] * 65536 + e.ntx[2]                  \* only used when e.ntx[1] < 16384
      big == e.ntx[1] >= 16384
      M == [n |-> IF big THEN 1 ELSE n, hashes |-> e.hashes, bits |-> UnpackFlags(e.flags)]
      toomany == big \/ n > e.maxtxn
      HC(l, r) == IF l = Missing \/ r = Missing THEN Missing ELSE EnvGet(e.env, "sha256d", l \o r)
      x == Extract(M, toomany, HC, Zero32)
  IN IF x.ok /\ x.root = Missing THEN EnvMissingV("sha256d-pair")
     ELSE IF e.ok # x.ok THEN
            (IF e.ok THEN V("extraction-accepted-invalid", x.why, Take(e.root, 4)) ELSE V("extraction-rejected-valid", "ok", e.bad))
     ELSE IF ~x.ok THEN OK
     ELSE IF e.root # x.root THEN V("extraction-root", Take(x.root, 4), Take(e.root, 4))
     ELSE IF e.matches # [k \in 1..Len(x.m) |-> x.m[k][1]] THEN V("extraction-matches", Brief32([k \in 1..Len(x.m) |-> x.m[k][1]]), Brief32(e.matches))
     ELSE IF e.items # [k \in 1..Len(x.m) |-> x.m[k][2]] THEN V("extraction-positions", [k \in 1..Len(x.m) |-> x.m[k][2]], e.items)
     ELSE OK

\* ---- C11 ----------------------------------------------------------------------------
\* msg = [ntx, hashes, flags, indices, hdr] must be the canonical proof of subset S
MsgIs(e, msg, S) ==
  LET b == Build(e.n, S)
      hs == [k \in 1..Len(b.ids) |-> NodeVal(e.tree, b.ids[k])]
  IN IF msg.ntx # e.n THEN V("proof-transaction-count", e.n, msg.ntx)
     ELSE IF msg.hdr # e.blockhdr THEN V("proof-header", Cut(e.blockhdr), Cut(msg.hdr))
     ELSE IF msg.flags # PackFlags(b.bits) THEN V("proof-flags", PackFlags(b.bits), msg.flags)
     ELSE IF msg.hashes # hs THEN V("proof-hashes", Cut(Brief32(hs)), Cut(Brief32(msg.hashes)))
     ELSE IF msg.indices # SortedSeq(S) THEN V("proof-index-list", Cut(SortedSeq(S)), Cut(msg.indices))
     ELSE OK

First(vs) == LET bad == SelectSeq(vs, LAMBDA v : v # OK) IN IF Len(bad) = 0 THEN OK ELSE bad[1]

ProofVerdict(e) ==
  IF ~TreeOK(e.n, e.tree, e.pairs) THEN EnvMissingV("merkle-tree")
  ELSE
  LET S == {m \in SetOfSeq(e.matched) : m >= 0 /\ m < e.n}
      Sf == SetOfSeq(e.withfilter.indices)
      root == e.tree[Height(e.n) + 1][1]
      x == e.extract
      leaves == [k \in 1..Cardinality(S) |-> e.tree[1][SortedSeq(S)[k] + 1]]
  IN First(<<
       \* TxInSet(hash of transaction i, chosen set) <=> i was chosen
       IF "inset" \in DOMAIN e /\ \E i \in 1..Len(e.inset) : e.inset[i] # ((i - 1) \in S) THEN V("tx-in-set", S, e.inset) ELSE OK,
       MsgIs(e, e.txnset, S),
       \* filter-induced subsets: no chosen transaction is missed; both builders agree exactly
       IF ~(S \subseteq Sf) THEN V("filter-proof-misses-transaction", S \ Sf, "missing") ELSE OK,
       MsgIs(e, e.withfilter, Sf),
       IF e.bloom # e.withfilter THEN V("proof-builders-disagree", Cut(e.withfilter.indices), Cut(e.bloom.indices)) ELSE OK,
       \* extracting the proof returns the block's merkle root and exactly the chosen leaves, in block order
       IF ~x.ok THEN V("honest-proof-rejected", "ok", "nil")
       ELSE IF x.root # root THEN V("extracted-root", Take(root, 4), Take(x.root, 4))
       ELSE IF x.items # SortedSeq(S) THEN V("extracted-positions", Cut(SortedSeq(S)), Cut(x.items))
       ELSE IF x.matches # leaves THEN V("extracted-hashes", Cut(Brief32(leaves)), Cut(Brief32(x.matches)))
       \* asked again, the object gives the same answer (fix 4e80cbb: every extraction starts from the beginning)
       \* (the property does not promise that a second call succeeds: it may refuse, with the first call's lists or none)
       ELSE IF "extract2" \in DOMAIN e /\ e.extract2 # x
               /\ ~(~e.extract2.ok /\ ((e.extract2.matches = x.matches /\ e.extract2.items = x.items) \/ (Len(e.extract2.matches) = 0 /\ Len(e.extract2.items) = 0)))
         THEN V("second-extraction-differs", "the first answer, or a refusal", [ok |-> e.extract2.ok, items |-> Cut(e.extract2.items)])
       ELSE OK >>)

\* growth: the same object asked twice
TwiceVerdict(e) ==
  LET v1 == ExtractVerdict(e) IN
  IF v1 # OK THEN v1
  ELSE LET n == e.ntx[1] * 65536 + e.ntx[2]
           M == [n |-> n, hashes |-> e.hashes, bits |-> UnpackFlags(e.flags)]
           x2 == SecondExtract(M, [ok |-> e.ok, bad |-> e.bad])
       IN IF ~x2.defined THEN OK
          ELSE IF e.second.ok # x2.ok THEN V("second-extraction-result", x2.ok, e.second.ok)
          ELSE IF e.second.root # e.root THEN V("second-extraction-root", Take(e.root, 4), Take(e.second.root, 4))
          ELSE IF e.second.bad # x2.bad THEN V("second-extraction-bad-flag", x2.bad, e.second.bad)
          ELSE IF e.second.matches # e.matches \/ e.second.items # e.items THEN V("second-extraction-changed-matches", Len(e.matches), Len(e.second.matches))
          ELSE OK

\* C12 on a second call on the same object: soundness is per answer.  After a successful first extraction the second
\* call either fails (the match lists are then the first call's, or empty) or returns the SAME root, matches and
\* positions; after a failed first extraction it fails again.
AgainVerdict(e) ==
  LET v1 == ExtractVerdict(e) IN
  IF v1 # OK THEN v1
  ELSE IF ~e.ok THEN (IF e.second.ok THEN V("second-extraction-accepts-what-the-first-refused", FALSE, TRUE) ELSE OK)
  ELSE IF e.second.ok THEN
         IF e.second.root # e.root THEN V("second-extraction-root", Take(e.root, 4), Take(e.second.root, 4))
         ELSE IF e.second.matches # e.matches \/ e.second.items # e.items THEN V("second-extraction-changed-matches", Len(e.matches), Len(e.second.matches))
         ELSE OK
  ELSE IF ~((e.second.matches = e.matches /\ e.second.items = e.items) \/ (Len(e.second.matches) = 0 /\ Len(e.second.items) = 0))
         THEN V("second-extraction-changed-matches", Len(e.matches), Len(e.second.matches))
  ELSE OK

VerdictPM(p, e, s) ==
  IF "panic" \in DOMAIN e THEN V("panic", e.op, e.panic)
  ELSE CASE e.op = "ExtractMsg" -> ExtractVerdict(e)
         [] e.op = "Proof" -> ProofVerdict(e)
         [] e.op = "ExtractTwice" -> TwiceVerdict(e)
         [] e.op = "ExtractAgain" -> AgainVerdict(e)
         [] OTHER -> V("unknown-op", e.op, e.op)

InitPM == TInit(0)
NextPM == TNext(Same)
JudgePM == Judge(VerdictPM)
=============================================================================
