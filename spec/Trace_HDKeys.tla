------------------------------ MODULE Trace_HDKeys ------------------------------
(* Trace validation for C04 (derivation), C05 (string parsing), C06 (WIF) and    *)
(* C15 (independence and zeroing).  A history works on a pool of extended keys   *)
(* identified by small integers.  After EVERY call the harness observes EVERY     *)
(* live key (payload of its string, flags, and the string of one derived child   *)
(* as a probe of its derivation behaviour); that snapshot is the logged state.   *)
(* The verdict has two parts: the call's own postcondition (HDKeys), and the      *)
(* frame condition: every key other than the call's target is unchanged.         *)
EXTENDS HDKeys, TraceBase

V(clause, exp, got) == <<clause, exp, got>>
OK == <<>>
St0HD == [cfg |-> [nets |-> <<>>, hdmap |-> <<>>], keys |-> <<>>]
ZeroedStr == <<122,101,114,111,101,100,32,101,120,116,101,110,100,101,100,32,107,101,121>>   \* "zeroed extended key"

\* keys: function from ids to [k, probe]
KeysOf(all) == [id \in {all[j].id : j \in 1..Len(all)} |->
                  LET r == CHOOSE x \in {all[j] : j \in 1..Len(all)} : x.id = id
                  \* a key the harness holds as live but whose String() is no longer a 78-byte payload (it was
                  \* erased through another reference) is logged as the zeroed key: the frame condition reports it
                  IN [k |-> IF Len(r.ser) = 78 THEN XKeyOfPayload(r.ser) ELSE ZeroedKey, probe |-> r.probe]]
UpdHD(s, e) ==
  IF e.op = "HDConfig" THEN [s EXCEPT !.cfg = [nets |-> e.nets, hdmap |-> e.hdmap]]
  ELSE IF "all" \in DOMAIN e THEN [s EXCEPT !.keys = KeysOf(e.all)]
  ELSE s

Brief(k) == [ver |-> k.ver, depth |-> k.depth, fp |-> k.fp, cn |-> k.cn, priv |-> k.priv, key4 |-> Take(k.key, 4), cc4 |-> Take(k.cc, 4)]

\* every observable of a returned key agrees with the abstract value
CheckObs(env, cfg, k, o) ==
  LET pk == SerP(env, k)
      h160 == IF pk = Missing THEN Missing ELSE Hash160(env, pk)
  IN IF pk = Missing \/ h160 = Missing \/ Sha256d4(env, Payload78(k)) = Missing THEN EnvMissingV("key-observation")
     ELSE IF o.str # XKeyString(env, k) THEN V("key-string", Cut(XKeyString(env, k)), Cut(o.str))
     ELSE IF o.priv # k.priv THEN V("key-private-flag", k.priv, o.priv)
     ELSE IF o.depth # k.depth THEN V("key-depth", k.depth, o.depth)
     ELSE IF o.fp # k.fp THEN V("key-parent-fingerprint", k.fp, o.fp)
     ELSE IF o.pub # pk THEN V("key-public-key", pk, o.pub)
     ELSE IF k.priv /\ o.prv # k.key THEN V("key-private-key", "32-byte scalar", Len(o.prv))
     ELSE IF ~k.priv /\ o.prverr # "not-private" THEN V("public-key-yields-private-key", "not-private", o.prverr)
     ELSE IF o.addr # CashString(cfg.nets[o.anet].cash, TypeP2PKH, h160) THEN V("key-address", Cut(CashString(cfg.nets[o.anet].cash, TypeP2PKH, h160)), Cut(o.addr))
     ELSE IF "addrs" \in DOMAIN o /\ Len(o.addrs) = Len(cfg.nets) /\ \E j \in 1..Len(o.addrs) : o.addrs[j] # CashString(cfg.nets[j].cash, TypeP2PKH, h160)
       THEN V("key-address", "the P2PKH address of the key on every network", [net |-> CHOOSE j \in 1..Len(o.addrs) : o.addrs[j] # CashString(cfg.nets[j].cash, TypeP2PKH, h160)])
     ELSE OK

\* frame condition (C15): keys that are not the target keep value and derivation behaviour
Frame(p, s, targets) ==
  LET bad == {id \in DOMAIN p.keys : id \notin targets /\ (id \notin DOMAIN s.keys \/ s.keys[id] # p.keys[id])}
  IN IF bad = {} THEN OK
     ELSE LET id == CHOOSE x \in bad : TRUE IN
          V("other-key-changed", [id |-> id, was |-> Brief(p.keys[id].k)],
            IF id \in DOMAIN s.keys THEN Brief(s.keys[id].k) ELSE "gone")

Result(env, cfg, x, e, s) ==
  IF x.err = "ENV-MISSING" THEN EnvMissingV(e.op)
  ELSE IF e.ok # x.ok THEN V("acceptance", [ok |-> x.ok, err |-> x.err], [ok |-> e.ok, err |-> e.err])
  ELSE IF ~x.ok THEN
     (IF x.err \in {"seed-length", "unusable-seed", "max-depth", "hardened-from-public"} /\ e.err # x.err
        THEN V("documented-error", x.err, e.err) ELSE OK)
  ELSE IF e.dst \notin DOMAIN s.keys THEN V("result-key-missing", e.dst, "none")
  ELSE IF s.keys[e.dst].k # x.k THEN V("result-key-value", Brief(x.k), Brief(s.keys[e.dst].k))
  ELSE CheckObs(env, cfg, x.k, e.obs)

First2(a, b) == IF a # OK THEN a ELSE b

VerdictHD(p, e, s) ==
  IF "panic" \in DOMAIN e THEN V("panic", e.op, e.panic)
  ELSE
  CASE e.op = "HDConfig" -> OK
    [] e.op = "HDSkipped" -> Frame(p, s, {})
    [] e.op = "NewMaster" ->
         First2(Result(e.env, p.cfg, MasterSpec(e.env, e.seed, p.cfg.nets[e.net].hdpriv), e, s), Frame(p, s, {e.dst}))
    [] e.op = "Child" ->
         First2(Result(e.env, p.cfg, ChildSpec(e.env, p.keys[e.src].k, e.idx), e, s), Frame(p, s, {e.dst}))
    [] e.op = "Neuter" ->
         LET x == NeuterSpec(e.env, p.cfg.hdmap, p.keys[e.src].k) IN
         \* which OBJECT Neuter returns for an already-public key is not judged: the property excuses the aliasing of
         \* the documented behaviour (same key returned) and equally allows an independent copy
         First2(Result(e.env, p.cfg, x, e, s),
                Frame(p, s, {e.dst}))
    [] e.op = "Parse" ->
         LET x == ParseSpec(e.env, e.s) IN
         First2(First2(Result(e.env, p.cfg, x, e, s),
                       IF x.ok /\ e.ok /\ e.obs.str # e.s THEN V("accepted-string-not-canonical", Cut(e.s), Cut(e.obs.str)) ELSE OK),
                Frame(p, s, {e.dst}))
    [] e.op = "NewExt" ->
         First2(Result(e.env, p.cfg, XOk(XKey(e.ver, e.depth, e.fp, e.cn, e.cc, e.key, e.priv)), e, s), Frame(p, s, {e.dst}))
    [] e.op = "SetNet" ->
         LET k == p.keys[e.src].k
             k2 == [k EXCEPT !.ver = IF k.priv THEN p.cfg.nets[e.net].hdpriv ELSE p.cfg.nets[e.net].hdpub]
         IN First2(IF e.src \notin DOMAIN s.keys THEN V("result-key-missing", e.src, "none")
                   ELSE IF s.keys[e.src].k # k2 THEN V("setnet-key-value", Brief(k2), Brief(s.keys[e.src].k))
                   ELSE CheckObs(e.env, p.cfg, k2, e.obs),
                   Frame(p, s, {e.src}))
    [] e.op = "Zero" ->
         First2(IF e.z.str # ZeroedStr THEN V("zeroed-key-string", "zeroed extended key", Cut(e.z.str))
                ELSE IF e.z.priv THEN V("zeroed-key-still-private", FALSE, TRUE)
                ELSE IF e.z.prverr # "not-private" THEN V("zeroed-key-yields-private-key", "not-private", e.z.prverr)
                ELSE IF ~e.z.bufzero THEN V("zeroed-key-buffers-not-erased", "all zero", e.z.nonzero)
                \* a zeroed key stays zeroed whatever is done to it afterwards (here: SetNet, Neuter, Child)
                ELSE IF "after" \in DOMAIN e.z /\ e.z.after.str # ZeroedStr THEN V("zeroed-key-revived", "zeroed extended key", Cut(e.z.after.str))
                ELSE IF "after" \in DOMAIN e.z /\ e.z.after.prverr # "not-private" THEN V("zeroed-key-yields-private-key", "not-private", e.z.after.prverr)
                ELSE IF e.src \in DOMAIN s.keys THEN V("zeroed-key-still-live", "gone", e.src)
                ELSE OK,
                Frame(p, s, {e.src}))
    [] e.op = "Wif" ->
         \* C06: encode from (key, net, flag), decode back, public key serialisation
         LET exp == WifString(e.env, e.netid, e.key, e.compressed)
             pk == IF e.compressed THEN EcBase(e.env, e.key) ELSE EnvGet(e.env, "ec-uncompress", EcBase(e.env, e.key))
         IN IF Sha256d4(e.env, <<e.netid>> \o e.key \o (IF e.compressed THEN <<1>> ELSE <<>>)) = Missing \/ pk = Missing THEN EnvMissingV("wif")
            ELSE IF e.str # exp THEN V("wif-string", Cut(exp), Cut(e.str))
            ELSE IF e.pub # pk THEN V("wif-public-key", Cut(pk), Cut(e.pub))
            ELSE IF \E n \in 1..Len(p.cfg.nets) : e.fornet[n] # (p.cfg.nets[n].wif = e.netid) THEN V("wif-network", e.netid, e.fornet)
            ELSE OK
    [] e.op = "GenerateSeed" ->
         \* a seed of exactly the requested length for 16..64 bytes (two draws differ, it is not all zero, NewMaster takes
         \* it), the documented error otherwise
         LET legal == e.n >= 16 /\ e.n <= 64 IN
         IF e.ok # legal THEN V("seed-length-contract", legal, e.ok)
         ELSE IF ~e.ok THEN (IF e.err # "seed-length" THEN V("documented-error", "seed-length", e.err) ELSE OK)
         ELSE IF e.len # e.n THEN V("seed-length", e.n, e.len)
         ELSE IF ~e.distinct \/ e.allzero THEN V("seed-not-random", "two different draws", "equal or zero")
         ELSE IF ~e.master THEN V("seed-refused-by-newmaster", TRUE, FALSE)
         ELSE OK
    [] e.op = "HDPathStr" -> OK      \* replay-only op (TraceBase.ConcurrentReplayVerdict compares its repetitions)
    [] e.op = "ShortKeyString" ->
         \* a short scalar is padded on the left to 32 bytes in the 82-byte payload, and the string parses back to itself
         LET want == Rep(0, 32 - Len(e.key)) \o e.key IN
         IF e.plen # 82 THEN V("short-scalar-payload-length", 82, e.plen)
         ELSE IF e.marker # 0 \/ e.scalar # want THEN V("short-scalar-padding", Cut(want), Cut(e.scalar))
         ELSE IF ScalarOK(want) /\ (~e.reparse \/ e.restr # e.str) THEN V("short-scalar-string-not-parsable", "round trip", e.reparse)
         ELSE OK
    [] e.op = "PartsPurity" ->
         \* C15: a key built from caller-owned slices never writes to them (nor behind them)
         IF e.argmod THEN V("argument-memory-modified", "unchanged", e.which) ELSE OK
    [] e.op = "WifMutate" ->
         \* the value is a plain struct: after the flag is flipped the text and the public key follow the new flag
         LET exp1 == WifString(e.env, e.netid, e.key, e.compressed)
             exp2 == WifString(e.env, e.netid, e.key, ~e.compressed)
             pk == IF ~e.compressed THEN EcBase(e.env, e.key) ELSE EnvGet(e.env, "ec-uncompress", EcBase(e.env, e.key))
         IN IF Sha256d4(e.env, <<e.netid>> \o e.key) = Missing \/ Sha256d4(e.env, <<e.netid>> \o e.key \o <<1>>) = Missing \/ pk = Missing THEN EnvMissingV("wif")
            ELSE IF e.str1 # exp1 THEN V("wif-string", Cut(exp1), Cut(e.str1))
            ELSE IF e.str2 # exp2 THEN V("wif-string-after-flag-change", Cut(exp2), Cut(e.str2))
            ELSE IF e.pub2 # pk THEN V("wif-public-key-after-flag-change", Cut(pk), Cut(e.pub2))
            ELSE OK
    [] e.op = "WifDecode" ->
         LET x == WifDecode(e.env, e.s) IN
         IF x.why = "ENV-MISSING" THEN EnvMissingV("wif-decode")
         ELSE IF e.ok # x.ok THEN V(IF e.ok THEN "wif-accepted-invalid" ELSE "wif-rejected-valid", x.why, e.err)
         ELSE IF ~x.ok THEN OK
         ELSE IF e.key # x.key \/ e.compressed # x.compressed \/ e.netid # x.netid THEN V("wif-decoded-value", [netid |-> x.netid, compressed |-> x.compressed], [netid |-> e.netid, compressed |-> e.compressed])
         ELSE IF e.str # e.s THEN V("wif-not-canonical", Cut(e.s), Cut(e.str))
         ELSE OK
    [] OTHER -> V("unknown-op", e.op, e.op)

InitHD == TInit(St0HD)
NextHD == TNext(UpdHD)
JudgeHD == Judge(VerdictHD)
=============================================================================
