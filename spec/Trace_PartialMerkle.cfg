INIT InitPM
NEXT NextPM
INVARIANT JudgePM
CHECK_DEADLOCK FALSE
