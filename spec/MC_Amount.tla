--------------------------------- MODULE MC_Amount ---------------------------------
(* Small-scope cross-check of the exact-arithmetic definitions used for C17 against *)
(* plain integer arithmetic: for every significand m < MaxM and exponent in a small  *)
(* range, NewAmountAbs-style rounding (RoundAway of a dyadic) is odd-symmetric by     *)
(* construction, monotone, and rounds ties away from zero; ToUnitAbs on small         *)
(* amounts equals the exact quotient when it is representable; ParseDec/Denotes       *)
(* accept exactly the canonical decimal text.                                        *)
EXTENDS Amount, TLC
CONSTANTS MaxM
VARIABLES maM, maE
Init == maM \in 0..MaxM /\ maE \in -6..3
Next == UNCHANGED <<maM, maE>>
\* exact round-half-away of m * 2^e on integers (m small)
RefRound(m, e) == IF e >= 0 THEN m * Pow2(e) ELSE (m + Pow2(0 - e - 1)) \div Pow2(0 - e)
Agree ==
  /\ NToSmall(RoundAway(Dy(NFromSmall(maM), maE))) = RefRound(maM, maE)
  /\ (maM < MaxM) => NCmp(RoundAway(Dy(NFromSmall(maM), maE)), RoundAway(Dy(NFromSmall(maM + 1), maE))) <= 0      \* monotone
  /\ NBitLen(NFromSmall(maM)) = (IF maM = 0 THEN 0 ELSE CHOOSE b \in 1..31 : Pow2(b - 1) <= maM /\ maM < Pow2(b))
  \* RN53 is the identity below 2^53 and ties-to-even above (checked on a 5-bit analogue through the same code path)
  /\ DyEq(RN53(NFromSmall(maM), maE, FALSE), Dy(NFromSmall(maM), maE))
  \* exact quotients: (m * 10^2) / 10^2 = m
  /\ DyEq(ToUnitAbs(NFromSmall(maM * 100), 2), Dy(NFromSmall(maM), 0))
  \* decimal text: "m.50" denotes (100 m + 50) * 10^-2 and nothing else nearby
  /\ LET txt == [j \in 1..Len(NToDec(NFromSmall(maM))) |-> NToDec(NFromSmall(maM))[j] + 48] \o <<46, 53, 48>>
     IN /\ Denotes(ParseDec(txt), FALSE, NFromSmall(maM * 100 + 50), 2)
        /\ ~Denotes(ParseDec(txt), FALSE, NFromSmall(maM * 100 + 51), 2)
        /\ Denotes(ParseDec(<<45>> \o txt), TRUE, NFromSmall(maM * 100 + 50), 2)
=============================================================================
