-------------------------------- MODULE Bloom --------------------------------
(* C09 (and the sequential semantics used by C10 / C20): the BIP37 bloom       *)
(* filter as a state machine.                                                  *)
(*                                                                            *)
(* Abstract state: [loaded, nbytes, nhash, tweak, flags, bits] where bits is   *)
(* the SET of set bit numbers (bit b lives in byte b \div 8 at mask 2^(b % 8)).*)
(* The bit-index function is a parameter of the operators (idx = the set of    *)
(* bit numbers an item hashes to), so the same transition operators are used   *)
(* with an arbitrary hash by MC_Bloom and with the BIP37 definition            *)
(*    bit(i, item) = Murmur3(i * 0xFBA4C795 + tweak, item) mod (8 * nbytes)    *)
(* by the trace validator.                                                     *)
EXTENDS LibW32, FiniteSetsExt

MaxFilterBytes == 36000
MaxHashFuncs == 50
SeedMul == <<64420, 51093>>        \* 0xFBA4C795

Unloaded == [loaded |-> FALSE, nbytes |-> 0, nhash |-> 0, tweak |-> <<0, 0>>, flags |-> 0, bits |-> {}]
Loaded(nbytes, nhash, tweak, flags, bits) ==
  [loaded |-> TRUE, nbytes |-> nbytes, nhash |-> nhash, tweak |-> tweak, flags |-> flags, bits |-> bits]

\* BIP37 bit numbers of an item for filter f (empty set for an empty bit array)
Bip37Idx(f, item) ==
  IF f.nbytes = 0 THEN {}
  ELSE {WMod(Murmur3(WAdd(WMul(<<0, k>>, SeedMul), f.tweak), item), 8 * f.nbytes) : k \in 0..(f.nhash - 1)}
OutPointBytes(txid, idx) == txid \o WToBytesLE(idx)

\* ---- transitions (idx = bit numbers of the item under the filter's hash functions) ----
\* an unloaded filter ignores insertions; an empty bit array stays empty
AddNext(f, idx) == IF f.loaded /\ f.nbytes > 0 THEN [f EXCEPT !.bits = @ \cup idx] ELSE f
\* membership answer; "any" = unconstrained (empty bit array: only totality is demanded, C08)
MatchesRes(f, idx) ==
  IF ~f.loaded THEN "false"
  ELSE IF f.nbytes = 0 THEN "any"
  ELSE IF idx \subseteq f.bits THEN "true" ELSE "false"
ResOK(res, b) == res = "any" \/ (res = "true" /\ b) \/ (res = "false" /\ ~b)

\* bytes <-> bit set
BitsOfBytes(bs) == {b \in 0..(8 * Len(bs) - 1) : BitLSB(bs, b) = 1}
BytesOfBits(bits, n) == [k \in 1..n |-> FoldLeft(LAMBDA acc, j : acc + (IF (8 * (k - 1) + j) \in bits THEN Pow2(j) ELSE 0), 0, <<0, 1, 2, 3, 4, 5, 6, 7>>)]

\* NewFilter(elements, tweak, fprate, flags) is a RELATION: the sizing formula uses a natural
\* logarithm that is not modelled; the property only demands the wire limits
NewFilterOK(f, tweak, flags) ==
  f.loaded /\ f.nbytes <= MaxFilterBytes /\ f.nhash <= MaxHashFuncs /\ f.bits = {} /\ f.tweak = tweak /\ f.flags = flags

\* ---- properties of the design (checked by MC_Bloom) ---------------------------------
NoFalseNegative(f, inserted, IdxOf(_)) ==
  (f.loaded /\ f.nbytes > 0) => \A x \in inserted : ResOK(MatchesRes(f, IdxOf(x)), TRUE)
=============================================================================
