---------------------------------- MODULE CertGen ----------------------------------
(* Growth X04: certgen.go (NewTLSCertPair) as a specification of the certificate it   *)
(* must produce.  Inputs: organisation, requested expiry, extra hosts.  Environment:  *)
(* the clock (bracketed by the harness: now0 <= time.Now() inside the call <= now1),   *)
(* the host name, the interface addresses, and for each extra host its split          *)
(* ("host:port" -> host) and its parse as an IP literal (16-byte form or empty).       *)
(* Times are <<day, second-of-day>> since the Unix epoch (TLC integers are 32 bit).    *)
EXTENDS LibBytes, FiniteSets

TLe(a, b) == a[1] < b[1] \/ (a[1] = b[1] /\ a[2] <= b[2])
TLt(a, b) == a[1] < b[1] \/ (a[1] = b[1] /\ a[2] < b[2])
EndOfTime == <<29219, 86399>>                    \* 2049-12-31 23:59:59 UTC, the end of ASN.1 UTCTime
DayBefore(t) == <<t[1] - 1, t[2]>>
Localhost == <<108, 111, 99, 97, 108, 104, 111, 115, 116>>
Lo4 == <<0, 0, 0, 0, 0, 0, 0, 0, 0, 0, 255, 255, 127, 0, 0, 1>>
Lo6 == <<0, 0, 0, 0, 0, 0, 0, 0, 0, 0, 0, 0, 0, 0, 0, 1>>
NoDup(s) == Cardinality(Range(s)) = Len(s)

\* must the call fail / may it fail (the clock is only known up to the bracket)
MustFail(e) == TLt(e.vu, e.now0)
MayFail(e) == TLe(e.vu, e.now1)

WantDNS(e) == {e.hostname, Localhost} \cup {e.extra[k].host : k \in {j \in 1..Len(e.extra) : e.extra[j].ip = <<>>}}
WantIPs(e) == {Lo4, Lo6} \cup Range(e.ifips) \cup {e.extra[k].ip : k \in {j \in 1..Len(e.extra) : e.extra[j].ip # <<>>}}
WantNotAfter(e) == IF TLt(EndOfTime, e.vu) THEN EndOfTime ELSE e.vu
=============================================================================
