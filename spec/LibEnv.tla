------------------------------- MODULE LibEnv -------------------------------
(* Environment facts: values of primitives that live OUTSIDE the repository   *)
(* (SHA-256, RIPEMD-160, HMAC-SHA512, secp256k1, SipHash, txscript, wire).    *)
(* The harness evaluates them with the standard library / bchd and logs       *)
(* [f |-> name, i |-> input, o |-> output]; the specification decides WHICH   *)
(* input it needs (layouts, offsets) and looks it up.  A missing fact is an   *)
(* infrastructure error (exit 2), never a verdict.                           *)
EXTENDS Integers, Sequences

Missing == <<-1>>
EnvGet(env, f, in) ==
  LET m == SelectSeq(env, LAMBDA r : r.f = f /\ r.i = in)
  IN IF Len(m) = 0 THEN Missing ELSE m[1].o
EnvMissingV(f) == <<"ENV-MISSING", f>>
=============================================================================
