----------------------------- MODULE Trace_TxFilter -----------------------------
EXTENDS TxFilter, TraceBase

V(clause, exp, got) == <<clause, exp, got>>
OK == <<>>
SetOfSeq(s) == {s[k] : k \in 1..Len(s)}

FilterOf(q) == IF ~q.loaded THEN Unloaded ELSE Loaded(q.nbytes, q.nhash, q.tweak, q.flags, SetOfSeq(q.bits))

\* same logged-state convention as Trace_Bloom
UpdT(f, e) ==
  IF "post" \notin DOMAIN e THEN f
  ELSE LET q == e.post IN
       IF ~q.loaded THEN Unloaded
       ELSE Loaded(q.nbytes, q.nhash, q.tweak, q.flags,
                   IF q.full THEN SetOfSeq(q.bits) ELSE (f.bits \cup SetOfSeq(q.delta)) \ SetOfSeq(q.cleared))

Brief(f) == [loaded |-> f.loaded, nbytes |-> f.nbytes, nhash |-> f.nhash, flags |-> f.flags, nbits |-> Cardinality(f.bits)]

VerdictT(p, e, s) ==
  IF "panic" \in DOMAIN e THEN V("panic", e.op, e.panic)
  ELSE
  CASE e.op \in {"LoadFilter", "Reload", "Add", "AddOutPoint", "Skipped"} -> OK        \* judged by C09
    [] e.op = "Matches" ->
         LET r == MatchesRes(p, Bip37Idx(p, e.item)) IN
         IF ~ResOK(r, e.ret) THEN V("bip37-membership", r, e.ret) ELSE OK
    [] e.op = "MatchTx" ->
         IF s.loaded /\ e.post.pop # Cardinality(s.bits) THEN V("logged-popcount", Cardinality(s.bits), e.post.pop)
         ELSE IF \E var \in Variants : LET x == MatchTxSpec(p, e.tx, var) IN x.ret = e.ret /\ x.f = s THEN OK
         ELSE LET x == MatchTxSpec(p, e.tx, <<"none", "test">>) IN
              IF x.ret # e.ret THEN V("tx-relevance", x.ret, e.ret)
              ELSE V("tx-filter-update", [missing |-> x.f.bits \ s.bits, extra |-> s.bits \ x.f.bits], Brief(s))
    [] e.op = "ScanBlock" ->
         LET lower == LowerSet(e.txs, SetOfSeq(e.items), e.flags)
             rep == {k + 1 : k \in SetOfSeq(e.reported)}
             upper == UpperSet(e.txs, FilterOf(e.final))
         IN IF e.reported2 # e.reported \/ e.reported3 # e.reported
              THEN V("scan-apis-disagree", e.reported, <<e.reported2, e.reported3>>)
            ELSE IF ~(lower \subseteq rep) THEN V("scan-misses-relevant-transaction", lower \ rep, rep)
            ELSE IF ~(rep \subseteq upper) THEN V("scan-reports-unmatched-transaction", rep \ upper, upper)
            ELSE IF \E k \in 1..(Len(e.reported) - 1) : e.reported[k] >= e.reported[k + 1] THEN V("scan-index-order", "ascending", e.reported)
            ELSE OK
    [] OTHER -> V("unknown-op", e.op, e.op)

InitT == TInit(Unloaded)
NextT == TNext(UpdT)
JudgeT == Judge(VerdictT)
=============================================================================
