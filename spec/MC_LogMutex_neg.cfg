INIT Init
NEXT Next
CONSTANTS
 G = {1, 2}
 MaxOps = 1
INVARIANT NeverTwoWanting
CHECK_DEADLOCK FALSE
