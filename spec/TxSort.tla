--------------------------------- MODULE TxSort ---------------------------------
(* C18: BIP69 as a RELATION between a transaction and its sorted copy.            *)
(* inputs  [hash (32 bytes as stored), idx <<hi,lo>>, script, seq <<hi,lo>>]       *)
(* outputs [value (8 bytes big endian), script]                                    *)
(* Order: inputs by (previous txid read as a big-endian number = the stored bytes  *)
(* reversed, then output index); outputs by (amount, then script bytes             *)
(* lexicographically).  Elements with equal keys may come in any order (the        *)
(* library's sort is not stable), so the sorted copy is not a function of the      *)
(* input -- any ordered permutation of the whole elements is accepted.             *)
EXTENDS LibBytes

InLE(a, b) ==      \* key(a) <= key(b)
  LET c == LexCmp(Rev(a.hash), Rev(b.hash)) IN
  IF c # 0 THEN c < 0 ELSE LexCmp(a.idx, b.idx) <= 0
\* the amount is a SIGNED 64-bit number logged as its 8 big-endian bytes: flipping the sign bit makes the unsigned
\* lexicographic order of the bytes the numeric order (negative amounts first)
SignedKey(v) == IF Len(v) = 8 THEN <<(v[1] + 128) % 256>> \o SubSeq(v, 2, 8) ELSE v
OutLE(a, b) ==
  LET c == LexCmp(SignedKey(a.value), SignedKey(b.value)) IN
  IF c # 0 THEN c < 0 ELSE LexCmp(a.script, b.script) <= 0
Ordered(s, LE(_, _)) == \A k \in 1..(Len(s) - 1) : LE(s[k], s[k + 1])

Count(s, x) == FoldLeft(LAMBDA acc, e : IF e = x THEN acc + 1 ELSE acc, 0, s)
SameMultiset(a, b) == Len(a) = Len(b) /\ \A k \in 1..Len(a) : Count(a, a[k]) = Count(b, a[k])

\* s is an admissible BIP69 sorting of t
IsSortingOf(s, t) ==
  /\ s.version = t.version /\ s.locktime = t.locktime
  /\ SameMultiset(s.ins, t.ins) /\ SameMultiset(s.outs, t.outs)
  /\ Ordered(s.ins, InLE) /\ Ordered(s.outs, OutLE)
SortedPred(t) == Ordered(t.ins, InLE) /\ Ordered(t.outs, OutLE)
=============================================================================
