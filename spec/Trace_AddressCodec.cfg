INIT Init
NEXT Next
INVARIANT JudgeInv
CHECK_DEADLOCK FALSE
