INIT Init
NEXT Next
INVARIANT RelationsSatisfiable
CONSTANTS
 MaxCoins = 3
 Depth = 5
 Emit = FALSE
CHECK_DEADLOCK FALSE
