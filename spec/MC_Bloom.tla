------------------------------- MODULE MC_Bloom -------------------------------
(* Design-level model check of the bloom filter state machine with an ARBITRARY *)
(* hash function chosen in Init: 3 items, a 1-byte filter restricted to NBits   *)
(* bit numbers, up to 2 hash functions.  All histories over Add / Matches /     *)
(* Reload / Unload are explored (the state space is finite).                   *)
EXTENDS Bloom, TLC

CONSTANTS NBits, Items, MaxHash

VARIABLES mbF,        \* the filter
          mbHash,     \* the hash function: [k \in 0..MaxHash-1, item] -> bit number
          mbIns       \* ghost: items inserted since the last (re)load
mbvars == <<mbF, mbHash, mbIns>>

IdxOf(x) == {mbHash[<<k, x>>] : k \in 0..(mbF.nhash - 1)}

Init == /\ mbHash \in [((0..(MaxHash - 1)) \X Items) -> 0..(NBits - 1)]
        /\ mbF = Unloaded /\ mbIns = {}

Load == \E nh \in 0..MaxHash, bits \in SUBSET (0..(NBits - 1)) :
          /\ mbF' = Loaded(1, nh, <<0, 0>>, 0, bits) /\ mbIns' = {} /\ UNCHANGED mbHash
Unload == mbF' = Unloaded /\ mbIns' = {} /\ UNCHANGED mbHash
Add == \E x \in Items :
          /\ mbF' = AddNext(mbF, IdxOf(x))
          /\ mbIns' = IF mbF.loaded THEN mbIns \cup {x} ELSE mbIns
          /\ UNCHANGED mbHash
Next == Load \/ Unload \/ Add

NoFalseNeg == NoFalseNegative(mbF, mbIns, IdxOf)
UnloadedInert == ~mbF.loaded => \A x \in Items : MatchesRes(mbF, IdxOf(x)) = "false"
\* bits only grow except at Load/Unload; an unloaded filter ignores insertions
Monotone == [][(mbF.loaded /\ mbF'.loaded /\ mbIns' # {}) => mbF.bits \subseteq mbF'.bits]_mbvars
UnloadedIgnores == [][(~mbF.loaded /\ ~mbF'.loaded) => mbF' = mbF]_mbvars
Spec == Init /\ [][Next]_mbvars
=============================================================================
