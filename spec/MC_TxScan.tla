---------------------------------- MODULE MC_TxScan ----------------------------------
(* C10 at design level: the block-scan ALGORITHM (process the transactions in block     *)
(* order; keep an index parent -> in-block spenders seen so far; when a transaction       *)
(* matches, re-check its registered spenders recursively) transcribed under exact-set      *)
(* semantics (the filter "contains" exactly a set of elements, no false positives), and    *)
(* compared with the least fixpoint of relevance for EVERY block order.                   *)
(* Scope: 3 transactions created in the order 1,2,3 (a transaction may spend outputs of    *)
(* earlier ones), 1..2 outputs each whose script pushes the watched item or nothing and    *)
(* is pay-to-pubkey or not, every spend relation, every initial filter content over        *)
(* {item, txid 1, txid 3}, the three update flags, and all 6 permutations as block order.  *)
EXTENDS Integers, Sequences, FiniteSets, SequencesExt, TLC, Json, CSV, IOUtils

CONSTANT Emit         \* TRUE = write a deterministic sample of the explored configurations as cases for replay
CONSTANT Recheck      \* TRUE = the algorithm as implemented; FALSE drops the recursive re-check (negative control)
CONSTANT SkipMatched  \* TRUE = as implemented since the repair of the exponential re-check: a transaction that already matched
                      \* is not visited again; FALSE = the original algorithm (same result, exponentially many visits)
VARIABLES scFlags, scI0, scOuts, scSp, scStage
scvars == <<scFlags, scI0, scOuts, scSp, scStage>>
N == 3
ItemA == <<"item">>
TxEl(t) == <<"tx", t>>
OpEl(t, k) == <<"op", t, k>>
OutKinds == {[push |-> FALSE, pk |-> FALSE], [push |-> TRUE, pk |-> TRUE], [push |-> TRUE, pk |-> FALSE]}
OutSeqs == {<<a>> : a \in OutKinds} \cup {<<a, b>> : a \in OutKinds, b \in OutKinds}

\* a deterministic 1-in-SampleMod sample of the configurations (offset by the seed)
SampleMod == IF "GEN_MOD" \in DOMAIN IOEnv THEN atoi(IOEnv.GEN_MOD) ELSE 400
SeedOff == IF "VERIF_SEED" \in DOMAIN IOEnv THEN atoi(IOEnv.VERIF_SEED) % SampleMod ELSE 0
Code(o) == (IF o.push THEN 1 ELSE 0) + (IF o.pk THEN 2 ELSE 0)
Sample(s2, s3) ==
  LET h == FoldLeft(LAMBDA acc, t : FoldLeft(LAMBDA a2, o : (a2 * 7 + Code(o) + 1) % 1000003, (acc * 31 + Len(scOuts[t])) % 1000003, scOuts[t]), 17, <<1, 2, 3>>)
      g == (h * 13 + Cardinality(s2) * 5 + Cardinality(s3) * 3 + Cardinality(scI0) * 11 + scFlags
            + (IF <<1, 1>> \in s3 THEN 101 ELSE 0) + (IF <<2, 1>> \in s3 THEN 211 ELSE 0) + (IF <<1, 2>> \in s2 THEN 307 ELSE 0)) % 1000003
  IN g % SampleMod = SeedOff

Init == /\ scFlags \in 0..2 /\ scI0 \in SUBSET {ItemA, TxEl(1), TxEl(3)}
        /\ scOuts = <<>> /\ scSp = <<>> /\ scStage = 0
Next ==
  \/ /\ scStage = 0 /\ scStage' = 1 /\ UNCHANGED <<scFlags, scI0, scSp>>
     /\ \E o1 \in OutSeqs, o2 \in OutSeqs, o3 \in OutSeqs : scOuts' = <<o1, o2, o3>>
  \/ /\ scStage = 1 /\ scStage' = 2 /\ UNCHANGED <<scFlags, scI0, scOuts>>
     /\ \E s2 \in SUBSET {<<1, k>> : k \in 1..Len(scOuts[1])},
           s3 \in SUBSET ({<<1, k>> : k \in 1..Len(scOuts[1])} \cup {<<2, k>> : k \in 1..Len(scOuts[2])}) :
          /\ scSp' = <<{}, s2, s3>>
          /\ (Emit /\ Sample(s2, s3)) =>
                CSVWrite("%1$s", <<ToJson([flags |-> scFlags, i0 |-> SetToSeq(scI0), outs |-> scOuts,
                                          sp |-> <<<<>>, SetToSeq(s2), SetToSeq(s3)>>])>>, IOEnv.GEN_OUT)

Updates(pk) == scFlags = 1 \/ (scFlags = 2 /\ pk)

\* MatchTxAndUpdate under exact-set semantics: [I, m]
MatchUpd(I, t) ==
  LET step(acc, k) ==
        IF scOuts[t][k].push /\ ItemA \in acc.I
          THEN [I |-> IF Updates(scOuts[t][k].pk) THEN acc.I \cup {OpEl(t, k)} ELSE acc.I, m |-> TRUE]
          ELSE acc
      o == FoldLeft(step, [I |-> I, m |-> TxEl(t) \in I], [k \in 1..Len(scOuts[t]) |-> k])
  IN IF o.m THEN o ELSE [I |-> I, m |-> \E sp \in scSp[t] : OpEl(sp[1], sp[2]) \in I]

\* the algorithm: st = [I, matched, deps]  (deps[p] = sequence of spenders of p registered so far)
RECURSIVE CheckTx(_, _, _)
CheckTx(st, t, fuel) ==
  IF fuel = 0 \/ (SkipMatched /\ t \in st.matched) THEN st
  ELSE LET r == MatchUpd(st.I, t) IN
       IF ~r.m THEN st
       ELSE FoldLeft(LAMBDA acc, d : CheckTx(acc, d, fuel - 1),
                     [st EXCEPT !.I = r.I, !.matched = @ \cup {t}], IF Recheck THEN st.deps[t] ELSE <<>>)
Scan(order) ==
  LET visit(st, t) ==
        LET parents == {sp[1] : sp \in scSp[t]}
            \* one registration per input (the code appends once per input, duplicates are harmless)
            reg == [st EXCEPT !.deps = [p \in 1..N |-> IF p \in parents THEN Append(st.deps[p], t) ELSE st.deps[p]]]
        IN CheckTx(reg, t, N + 1)
  IN FoldLeft(visit, [I |-> scI0, matched |-> {}, deps |-> [p \in 1..N |-> <<>>]], order).matched

\* least fixpoint of relevance
Relevant(I, t) ==
  \/ TxEl(t) \in I
  \/ \E k \in 1..Len(scOuts[t]) : scOuts[t][k].push /\ ItemA \in I
  \/ \E sp \in scSp[t] : OpEl(sp[1], sp[2]) \in I
Grow(I) == I \cup {OpEl(t, k) : <<t, k>> \in {<<t, k>> \in (1..N) \X (1..2) :
                     k <= Len(scOuts[t]) /\ scOuts[t][k].push /\ ItemA \in I /\ Updates(scOuts[t][k].pk)}}
Lfp == Grow(Grow(Grow(Grow(scI0))))
Expected == {t \in 1..N : Relevant(Lfp, t)}

Orders == {<<1,2,3>>, <<1,3,2>>, <<2,1,3>>, <<2,3,1>>, <<3,1,2>>, <<3,2,1>>}
OrderIndependent == scStage = 2 => \A o \in Orders : Scan(o) = Expected
=============================================================================
