---------------------------- MODULE Trace_BloomConc ----------------------------
(* C20, dynamic part (ii): k goroutines (k up to 32) issue insertions and queries *)
(* on ONE shared filter during one load epoch.  Every call is logged with an      *)
(* invocation ticket and a return ticket drawn from one atomic counter.          *)
(* Consequences of "equivalent to some sequential order" that are decidable       *)
(* without search:                                                              *)
(*   no insertion is lost / nothing spurious: the final bit array is exactly the  *)
(*     BIP37 union of the initial bits and the bits of every inserted item;      *)
(*   a membership test that starts after an insertion of the same item returned  *)
(*     answers true;                                                            *)
(*   a true answer is explained by the initial bits and the insertions that       *)
(*     started before the test returned; the filter stays loaded.                *)
(* A report of the Go race detector is an event no action accepts.               *)
EXTENDS Bloom, TraceBase

V(clause, exp, got) == <<clause, exp, got>>
OK == <<>>
SetOfSeq(s) == {s[k] : k \in 1..Len(s)}

IsInsert(o) == o.k \in {"Add", "AddHash", "AddOutPoint"}
IsQuery(o) == o.k \in {"Matches", "MatchesOutPoint"}
ItemOfOp(o) == IF o.k \in {"AddOutPoint", "MatchesOutPoint"} THEN OutPointBytes(o.txid, o.idx) ELSE o.item

ConcVerdict(e) ==
  LET f0 == Loaded(e.nbytes, e.nhash, e.tweak, e.flags, SetOfSeq(e.init))
      n == Len(e.ops)
      idx == MkSeq(n, LAMBDA k : IF IsInsert(e.ops[k]) \/ IsQuery(e.ops[k]) THEN Bip37Idx(f0, ItemOfOp(e.ops[k])) ELSE {})
      union == f0.bits \cup UNION {idx[k] : k \in {j \in 1..n : IsInsert(e.ops[j])}}
      badFalse == {q \in 1..n : IsQuery(e.ops[q]) /\ ~e.ops[q].ret /\
                     \E a \in 1..n : IsInsert(e.ops[a]) /\ ItemOfOp(e.ops[a]) = ItemOfOp(e.ops[q]) /\ e.ops[a].rt < e.ops[q].inv}
      badTrue == {q \in 1..n : IsQuery(e.ops[q]) /\ e.ops[q].ret /\
                     ~(idx[q] \subseteq (f0.bits \cup UNION {idx[a] : a \in {j \in 1..n : IsInsert(e.ops[j]) /\ e.ops[j].inv < e.ops[q].rt}}))}
      badLoaded == {q \in 1..n : e.ops[q].k \in {"IsLoaded", "GetMsg"} /\ ~e.ops[q].ret}
  IN IF ~e.finalloaded THEN V("filter-unloaded-without-unload", TRUE, FALSE)
     ELSE IF SetOfSeq(e.final) # union THEN V("lost-or-spurious-insertion", [missing |-> union \ SetOfSeq(e.final), extra |-> SetOfSeq(e.final) \ union], n)
     ELSE IF badFalse # {} THEN V("membership-false-after-completed-insertion", badFalse, n)
     ELSE IF badTrue # {} THEN V("membership-true-unexplained", badTrue, n)
     ELSE IF badLoaded # {} THEN V("loaded-filter-reported-unloaded", badLoaded, n)
     ELSE OK

VerdictC(p, e, s) ==
  IF "panic" \in DOMAIN e THEN V("panic", e.op, e.panic)
  ELSE CASE e.op = "ConcRound" -> ConcVerdict(e)
         [] e.op = "AtomRound" ->
              LET fl(t) == Loaded(e.nbytes, e.nhash, IF t = 0 THEN e.t0 ELSE e.t1, 0, {})
                  d0 == Bip37Idx(fl(0), e.item)
                  d1 == Bip37Idx(fl(1), e.item)
                  wrong == {k \in 1..Len(e.touched) : SetOfSeq(e.touched[k].bits) # (IF e.touched[k].t = 0 THEN d0 ELSE d1)}
              IN IF Len(e.touched) = 0 THEN
                      \* none of the caller's message objects was written to.  Either the insertion is lost -- or the
                      \* implementation copies messages on load, and the insertion went into a private copy that a later
                      \* reload replaced (legitimate) or that is the final state (then with exactly that message's bits)
                      IF "fin" \in DOMAIN e /\ e.fin.loaded /\ ((e.fin.bits = <<>> /\ e.nmsgs > 1) \/ SetOfSeq(e.fin.bits) = (IF e.fin.t = 0 THEN d0 ELSE d1))
                        THEN OK ELSE V("insertion-lost-under-concurrent-reload", 1, 0)
                 ELSE IF wrong # {} THEN V("insertion-bits-do-not-belong-to-the-loaded-message", [t |-> e.touched[CHOOSE k \in wrong : TRUE].t, d0 |-> d0, d1 |-> d1], e.touched[CHOOSE k \in wrong : TRUE].bits)
                 ELSE IF Len(e.touched) > 1 THEN V("insertion-applied-to-several-messages", 1, Len(e.touched))
                 ELSE OK
         [] e.op = "TxRound" ->
              LET f0 == Loaded(e.nbytes, e.nhash, e.tweak, e.flags, SetOfSeq(e.init))
                  ops == UNION {Bip37Idx(f0, OutPointBytes(e.txids[g], <<0, 0>>)) : g \in 1..Len(e.txids)}
                  want == IF e.flags = 0 THEN f0.bits ELSE f0.bits \cup ops
              IN IF Bip37Idx(f0, e.item) \subseteq f0.bits /\ \E g \in 1..Len(e.rets) : ~e.rets[g] THEN V("concurrent-match-missed", "all true", e.rets)
                 ELSE IF SetOfSeq(e.final) # want THEN V("lost-or-spurious-outpoint-update", [missing |-> want \ SetOfSeq(e.final), extra |-> SetOfSeq(e.final) \ want], Len(e.txids))
                 ELSE OK
         [] e.op = "TxReloadRound" ->
              \* an empty message matches nothing in any sequential order: it is never written to; a matching message
              \* only gains the bits of the transaction's outpoint 0 under its own tweak
              LET fa == Loaded(e.nbytes, e.nhash, e.ta, 1, SetOfSeq(e.init))
                  op0 == Bip37Idx(fa, OutPointBytes(e.txid, <<0, IF "oidx" \in DOMAIN e THEN e.oidx ELSE 0>>))
              IN IF Len(e.bdirty) > 0 /\ "flagsmode" \in DOMAIN e /\ e.flagsmode THEN V("outpoint-inserted-into-a-message-that-forbids-updates", {}, e.bdirty)
                 ELSE IF Len(e.bdirty) > 0 THEN V("update-applied-to-a-message-that-never-matched", {}, e.bdirty)
                 ELSE IF ~(SetOfSeq(e.aextra) \subseteq op0) THEN V("lost-or-spurious-outpoint-update", op0, e.aextra)
                 ELSE OK
         [] e.op = "LoadedRound" ->
              IF e.mismatches = 0 THEN OK ELSE V("isloaded-disagrees-with-loaded-message-at-quiescence", 0, [mismatches |-> e.mismatches, first_round |-> e.first])
         [] e.op = "UnloadedRound" ->
              IF e.loaded_true > 0 THEN V("unloaded-filter-reported-loaded", 0, e.loaded_true)
              ELSE IF e.msg_nonnil > 0 THEN V("unloaded-filter-returned-a-message", 0, e.msg_nonnil)
              ELSE IF e.match_true > 0 THEN V("unloaded-filter-matched", 0, e.match_true)
              ELSE OK
         [] e.op = "RaceDetector" -> IF e.reports = 0 THEN OK ELSE V("data-race", 0, e.first)
         [] e.op = "GcsConc" -> IF e.bytesbefore # e.bytesafter THEN V("gcs-filter-mutated-by-queries", 0, 1)
                                ELSE IF \E g \in 1..Len(e.conc) : e.conc[g] # e.seq THEN V("gcs-concurrent-answers-differ", e.seq, "differs")
                                ELSE OK
         [] OTHER -> V("unknown-op", e.op, e.op)

InitC == TInit(0)
NextC == TNext(Same)
JudgeC == Judge(VerdictC)
=============================================================================
