INIT Init
NEXT Next
CONSTANTS
 Recheck = TRUE
 Emit = TRUE
CHECK_DEADLOCK FALSE
