INIT Init
NEXT Next
CONSTANTS
 SkipMatched = TRUE
 Recheck = TRUE
 Emit = TRUE
CHECK_DEADLOCK FALSE
