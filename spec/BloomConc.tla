------------------------------- MODULE BloomConc -------------------------------
(* C20, static part: the lock discipline of bloom.Filter, on a model EXTRACTED   *)
(* from the current source (harness/extract: every control-flow path of every     *)
(* exported method as a sequence of LOCK / UNLOCK / RLOCK / RUNLOCK / RDP / WRP /  *)
(* RDM / WRM / CALL:<m> atoms, helpers inlined, defers at exits).                 *)
(* K threads each run one path of a method documented "safe for concurrent        *)
(* access"; TLC explores every interleaving of the atoms.                        *)
(*  I1  every read of the shared pointer / message happens while the thread holds *)
(*      the mutex (exclusively or shared), every write while it holds it          *)
(*      exclusively  -- hence no two conflicting accesses are ever simultaneously  *)
(*      enabled (data-race freedom), and each method body is atomic;             *)
(*  I2  only the holder unlocks, and a path never ends holding the mutex;        *)
(*  I3  no thread locks a mutex it already holds (directly or by calling another  *)
(*      locking method): self-deadlock.                                         *)
EXTENDS Integers, Sequences, FiniteSets, TLC, Json, IOUtils

CONSTANT K
Model == JsonDeserialize(IOEnv.MODEL)
Methods == Model.methods
SafeIdx == {m \in 1..Len(Methods) : Methods[m].exported /\ Methods[m].safe}
Choices == {<<m, p>> : m \in SafeIdx, p \in 1..20} 
Threads == 1..K

VARIABLES bcSel, bcPc, bcHolder, bcReaders
bcvars == <<bcSel, bcPc, bcHolder, bcReaders>>

PathOf(t) == Methods[bcSel[t][1]].paths[bcSel[t][2]]
AtEnd(t) == bcPc[t] > Len(PathOf(t))
Atom(t) == PathOf(t)[bcPc[t]]

Init ==
  /\ bcSel \in [Threads -> {c \in Choices : c[2] <= Len(Methods[c[1]].paths)}]
  /\ bcPc = [t \in Threads |-> 1]
  /\ bcHolder = 0 /\ bcReaders = {}

Step(t) ==
  /\ ~AtEnd(t)
  /\ LET a == Atom(t) IN
     CASE a = "LOCK" -> bcHolder = 0 /\ bcReaders = {} /\ bcHolder' = t /\ UNCHANGED bcReaders
       [] a = "UNLOCK" -> bcHolder' = 0 /\ UNCHANGED bcReaders
       [] a = "RLOCK" -> bcHolder = 0 /\ bcReaders' = bcReaders \cup {t} /\ UNCHANGED bcHolder
       [] a = "RUNLOCK" -> bcReaders' = bcReaders \ {t} /\ UNCHANGED bcHolder
       [] OTHER -> UNCHANGED <<bcHolder, bcReaders>>
  /\ bcPc' = [bcPc EXCEPT ![t] = @ + 1]
  /\ UNCHANGED bcSel
Next == \E t \in Threads : Step(t)

IsCall(a) == a \notin {"LOCK", "UNLOCK", "RLOCK", "RUNLOCK", "RDP", "WRP", "RDM", "WRM"}

I1_AccessUnderLock ==
  \A t \in Threads : ~AtEnd(t) =>
     /\ Atom(t) \in {"RDP", "RDM"} => (bcHolder = t \/ t \in bcReaders)
     /\ Atom(t) \in {"WRP", "WRM"} => bcHolder = t
I2_UnlockByHolderAndReleased ==
  \A t \in Threads :
     /\ (~AtEnd(t) /\ Atom(t) = "UNLOCK") => bcHolder = t
     /\ (~AtEnd(t) /\ Atom(t) = "RUNLOCK") => t \in bcReaders
     /\ AtEnd(t) => (bcHolder # t /\ t \notin bcReaders)
I3_NoSelfDeadlock ==
  \A t \in Threads : ~AtEnd(t) =>
     /\ Atom(t) \in {"LOCK", "RLOCK"} => (bcHolder # t /\ t \notin bcReaders)
     /\ IsCall(Atom(t)) => (bcHolder # t /\ t \notin bcReaders)
\* every claimed-safe method exists with at least one path (non-vacuity of the model)
ModelSane == Cardinality(SafeIdx) >= 1 /\ \A m \in SafeIdx : Len(Methods[m].paths) >= 1 /\ Len(Methods[m].paths) <= 20
=============================================================================
