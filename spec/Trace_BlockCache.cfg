INIT InitBC
NEXT NextBC
INVARIANT JudgeBC
CHECK_DEADLOCK FALSE
