----------------------------- MODULE TraceBase -----------------------------
(* Generic trace validator.  The trace file is ndjson, one HISTORY per line:  *)
(*   {"h": <id>, "ev": [ <event>, ... ]}                                    *)
(* Every history is an independent behaviour of the subsystem specification;  *)
(* TLC takes one initial state per history (so all workers validate in        *)
(* parallel) and one step per recorded event.                                 *)
(*                                                                           *)
(*   Upd(st, e)        the abstract state after event e.  It must be cheap: it *)
(*                     is the state the implementation LOGGED (or a trivial    *)
(*                     update), so validation always continues from what the   *)
(*                     code really did and the rest of the trace is examined.  *)
(*   Verdict(p, e, s)  <<>> when the specification's action for e allows the   *)
(*                     step from abstract state p to the logged state s with   *)
(*                     the logged result; otherwise <<clause, expected, got>>. *)
(*                                                                           *)
(* Verdict is evaluated as a state INVARIANT (Judge) on the state reached by  *)
(* consuming e -- measured: TLC caches operator arguments when it evaluates   *)
(* invariants but re-evaluates them on every use inside actions, which made   *)
(* action-level validation 100x slower.  Judge never fails; a rejected event  *)
(* appends one line [h, i, v] to VOUT.  When a history is exhausted one line  *)
(* [h, n] is appended; the driver requires one such line per history with     *)
(* n = number of recorded events (a missing line is infrastructure, exit 2).  *)
(*                                                                           *)
(* NOTE the variable names: TLC resolves identifiers by NAME when it decides  *)
(* whether a definition is constant-level; a spec variable called i made      *)
(* every library definition binding i (lookup tables!) non-constant, hence    *)
(* uncached and re-evaluated on every use (measured 8 ms per table lookup).   *)
EXTENDS Integers, Sequences, TLC, Json, CSV, IOUtils

Trace == ndJsonDeserialize(IOEnv.TRACE)

VARIABLES trH, trI, trS, trP
tvars == <<trH, trI, trS, trP>>

TInit(St0) == \E hh \in 1..Len(Trace) : trH = hh /\ trI = 1 /\ trS = St0 /\ trP = St0

Consume(Upd(_, _)) ==
  /\ trI <= Len(Trace[trH].ev)
  /\ trP' = trS
  \* a call that panicked carries no result fields: the abstract state is kept, the verdict is "panic"
  /\ trS' = IF "panic" \in DOMAIN Trace[trH].ev[trI] \/ Trace[trH].ev[trI].op = "ConcurrentReplay" THEN trS ELSE Upd(trS, Trace[trH].ev[trI])
  /\ trI' = trI + 1
  /\ UNCHANGED trH

Finish ==
  /\ trI = Len(Trace[trH].ev) + 1
  /\ CSVWrite("%1$s", <<ToJson([h |-> Trace[trH].h, n |-> trI - 1])>>, IOEnv.VOUT)
  /\ trI' = trI + 1
  /\ UNCHANGED <<trH, trS, trP>>

TNext(Upd(_, _)) == Consume(Upd) \/ Finish

\* Stateless (pure) calls are executed a second time from several goroutines at once; the harness compares each
\* result with the one recorded sequentially and reports the count.  A pure function of its arguments gives the
\* same answer whatever else runs at the same time and whatever ran before (hidden shared scratch state, "last
\* value" hints and pooled buffers do not): the calls are replayed (a) sequentially in other orders (workers = 1)
\* and (b) from 8 goroutines at once.  (c) workers = 0: byte slices the library RETURNED are the caller's; they are read
\* again at the end of the run and must still hold what they held when they were returned.  (d) workers = -1: a history
\* of calls on objects is executed again WITHOUT reading any object on the way; the final observation equals the one
\* of the observed run (what the library computes lazily on first read does not depend on when that is).
ConcurrentReplayVerdict(e) ==
  IF e.mismatches = 0 THEN <<>>
  ELSE <<IF e.workers = -1 THEN "result-depends-on-when-it-is-observed"
         ELSE IF e.workers = 0 THEN "returned-memory-changed-by-later-call"
         ELSE IF e.workers = 1 THEN "result-depends-on-earlier-calls" ELSE "result-differs-under-concurrent-use", e.first.sequential, e.first.concurrent>>

\* the event consumed by the step that led to the current state
Judge(Verdict(_, _, _)) ==
  (trI > 1 /\ trI <= Len(Trace[trH].ev) + 1) =>
     LET v == IF Trace[trH].ev[trI - 1].op = "ConcurrentReplay" THEN ConcurrentReplayVerdict(Trace[trH].ev[trI - 1])
              \* no call may write into the spare capacity behind a byte slice it was given (every argument slice sits in
              \* a larger array holding a pattern; the harness reports the first argument whose pattern changed)
              ELSE IF "sparemod" \in DOMAIN Trace[trH].ev[trI - 1]
                   THEN <<"argument-memory-modified", "spare capacity untouched", Trace[trH].ev[trI - 1].sparemod>>
              ELSE Verdict(trP, Trace[trH].ev[trI - 1], trS)
     IN v = <<>> \/ CSVWrite("%1$s", <<ToJson([h |-> Trace[trH].h, i |-> trI - 1, v |-> v])>>, IOEnv.VOUT)

Same(s, e) == s
=============================================================================
