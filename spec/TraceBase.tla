----------------------------- MODULE TraceBase -----------------------------
(* Generic trace validator.  The trace file is ndjson, one HISTORY per line:  *)
(*   {"h": <id>, "ev": [ <event>, ... ]}                                    *)
(* Every history is an independent behaviour of the subsystem specification;  *)
(* TLC takes one initial state per history (so 16 workers validate in         *)
(* parallel) and one step per recorded event.  Step(st, e) is supplied by the *)
(* subsystem trace module and re-uses the subsystem's operators; it returns   *)
(* [st |-> next abstract state, v |-> verdict] where v = <<>> means "the      *)
(* specification allows the recorded result" and anything else names the      *)
(* violated clause.  A rejected event does not stop validation: the verdict is *)
(* recorded and validation continues (the subsystem decides how to resync).   *)
(* When a history is exhausted one line is appended to VOUT; the driver       *)
(* requires one line per history with n = number of recorded events           *)
(* (that is the acceptance condition; a missing line is infrastructure).      *)
EXTENDS Integers, Sequences, TLC, Json, CSV, IOUtils

Trace == ndJsonDeserialize(IOEnv.TRACE)

VARIABLES h, i, st, bad
tvars == <<h, i, st, bad>>

TInit(St0) == \E hh \in 1..Len(Trace) : h = hh /\ i = 1 /\ st = St0 /\ bad = <<>>

Consume(Step(_, _)) ==
  /\ i <= Len(Trace[h].ev)
  /\ LET r == Step(st, Trace[h].ev[i]) IN
       /\ st' = r.st
       /\ bad' = IF r.v = <<>> THEN bad ELSE Append(bad, [i |-> i, v |-> r.v])
  /\ i' = i + 1
  /\ UNCHANGED h

Finish ==
  /\ i = Len(Trace[h].ev) + 1
  /\ CSVWrite("%1$s", <<ToJson([h |-> Trace[h].h, n |-> i - 1, bad |-> bad])>>, IOEnv.VOUT)
  /\ i' = i + 1
  /\ UNCHANGED <<h, st, bad>>

TNext(Step(_, _)) == Consume(Step) \/ Finish
=============================================================================
