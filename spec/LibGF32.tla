------------------------------ MODULE LibGF32 ------------------------------
(* GF(32) = GF(2)[a]/(a^5 + a^3 + 1) and the two BCH checksums built on it  *)
(* (CashAddr: degree-8 generator, bech32/BIP173: degree-6 generator),       *)
(* defined as polynomial remainders from the generator COEFFICIENTS, not     *)
(* from the implementation's packed hex constants.                          *)
EXTENDS LibBytes

GfDouble(a) == LET b == a * 2 IN IF b >= 32 THEN (b - 32) ^^ 9 ELSE b
GfMulDef(a, b) ==
  LET f(acc, k) == [p |-> IF (b \div Pow2(k)) % 2 = 1 THEN acc.p ^^ acc.x ELSE acc.p,
                    x |-> GfDouble(acc.x)]
  IN FoldLeft(f, [p |-> 0, x |-> a], <<0, 1, 2, 3, 4>>).p
GfMulT == MkSeq(32, LAMBDA a : MkSeq(32, LAMBDA b : GfMulDef(a - 1, b - 1)))
GfMul(a, b) == GfMulT[a + 1][b + 1]

\* generator low coefficients, x^(deg-1) .. x^0 (monic)
GCash == <<19, 3, 25, 11, 25, 3, 19, 1>>
GBech == <<29, 22, 20, 21, 29, 18>>

\* one remainder step: c(x) := c(x) * x + d  (mod g).  Written with explicit tuples:
\* TLC evaluates function constructors lazily and would re-evaluate the chain.
RemStep(G, c, d) ==
  LET t == c[1] IN
  IF Len(G) = 8
    THEN <<c[2] ^^ GfMul(t, G[1]), c[3] ^^ GfMul(t, G[2]), c[4] ^^ GfMul(t, G[3]), c[5] ^^ GfMul(t, G[4]),
           c[6] ^^ GfMul(t, G[5]), c[7] ^^ GfMul(t, G[6]), c[8] ^^ GfMul(t, G[7]), d ^^ GfMul(t, G[8])>>
    ELSE <<c[2] ^^ GfMul(t, G[1]), c[3] ^^ GfMul(t, G[2]), c[4] ^^ GfMul(t, G[3]), c[5] ^^ GfMul(t, G[4]),
           c[6] ^^ GfMul(t, G[5]), d ^^ GfMul(t, G[6])>>
UnitPoly(n) == IF n = 8 THEN <<0, 0, 0, 0, 0, 0, 0, 1>> ELSE <<0, 0, 0, 0, 0, 1>>
\* remainder of (x^len(v) + v(x)) modulo g, as symbols x^(deg-1)..x^0
PolyRem(G, v) == FoldLeft(LAMBDA c, d : RemStep(G, c, d), UnitPoly(Len(G)), v)
XorLast(c) == [c EXCEPT ![Len(c)] = c[Len(c)] ^^ 1]

\* CashAddr -------------------------------------------------------------------
CashPrefixExpand(prefix) == [i \in 1..Len(prefix) |-> prefix[i] % 32] \o <<0>>
\* the 8 checksum symbols for payload symbols under prefix (ASCII codes, lower case)
CashChecksum(prefix, payload) ==
  XorLast(PolyRem(GCash, CashPrefixExpand(prefix) \o payload \o Rep(0, 8)))
CashVerify(prefix, values) ==
  XorLast(PolyRem(GCash, CashPrefixExpand(prefix) \o values)) = Rep(0, 8)

\* bech32 -----------------------------------------------------------------------
BechHrpExpand(hrp) ==
  [i \in 1..Len(hrp) |-> hrp[i] \div 32] \o <<0>> \o [i \in 1..Len(hrp) |-> hrp[i] % 32]
BechChecksum(hrp, data) ==
  XorLast(PolyRem(GBech, BechHrpExpand(hrp) \o data \o Rep(0, 6)))
BechVerify(hrp, values) ==
  PolyRem(GBech, BechHrpExpand(hrp) \o values) = UnitPoly(6)

\* the shared 32-symbol alphabet "qpzry9x8gf2tvdw0s3jn54khce6mua7l" as ASCII codes
Charset32 == <<113,112,122,114,121,57,120,56,103,102,50,116,118,100,119,48,
               115,51,106,110,53,52,107,104,99,101,54,109,117,97,55,108>>
CharOf32(v) == Charset32[v + 1]
\* value of an ASCII code in the alphabet, -1 if foreign (lower case only)
Val32T == MkSeq(256, LAMBDA c : IndexOf(Charset32, c - 1) - 1)
Val32(c) == IF c \in 0..255 THEN Val32T[c + 1] ELSE -1
=============================================================================
