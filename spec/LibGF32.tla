------------------------------ MODULE LibGF32 ------------------------------
(* GF(32) = GF(2)[a]/(a^5 + a^3 + 1) and the two BCH checksums built on it  *)
(* (CashAddr: degree-8 generator, bech32/BIP173: degree-6 generator),       *)
(* defined as polynomial remainders from the generator COEFFICIENTS, not     *)
(* from the implementation's packed hex constants.                          *)
EXTENDS LibBytes

GfDouble(a) == LET b == a * 2 IN IF b >= 32 THEN (b - 32) ^^ 9 ELSE b
GfMulDef(a, b) ==
  LET f(acc, k) == [p |-> IF (b \div Pow2(k)) % 2 = 1 THEN acc.p ^^ acc.x ELSE acc.p,
                    x |-> GfDouble(acc.x)]
  IN FoldLeft(f, [p |-> 0, x |-> a], <<0, 1, 2, 3, 4>>).p
GfMulT == [a \in 0..31 |-> [b \in 0..31 |-> GfMulDef(a, b)]]
GfMul(a, b) == GfMulT[a][b]

\* generator low coefficients, x^(deg-1) .. x^0 (monic)
GCash == <<19, 3, 25, 11, 25, 3, 19, 1>>
GBech == <<29, 22, 20, 21, 29, 18>>

\* one remainder step: c(x) := c(x) * x + d  (mod g)
RemStep(G, c, d) ==
  LET n == Len(G) IN
  [i \in 1..n |-> (IF i < n THEN c[i + 1] ELSE d) ^^ GfMul(c[1], G[i])]
UnitPoly(n) == [i \in 1..n |-> IF i = n THEN 1 ELSE 0]
\* remainder of (x^len(v) + v(x)) modulo g, as symbols x^(deg-1)..x^0
PolyRem(G, v) == FoldLeft(LAMBDA c, d : RemStep(G, c, d), UnitPoly(Len(G)), v)
XorLast(c) == [c EXCEPT ![Len(c)] = c[Len(c)] ^^ 1]

\* CashAddr -------------------------------------------------------------------
CashPrefixExpand(prefix) == [i \in 1..Len(prefix) |-> prefix[i] % 32] \o <<0>>
\* the 8 checksum symbols for payload symbols under prefix (ASCII codes, lower case)
CashChecksum(prefix, payload) ==
  XorLast(PolyRem(GCash, CashPrefixExpand(prefix) \o payload \o Rep(0, 8)))
CashVerify(prefix, values) ==
  XorLast(PolyRem(GCash, CashPrefixExpand(prefix) \o values)) = Rep(0, 8)

\* bech32 -----------------------------------------------------------------------
BechHrpExpand(hrp) ==
  [i \in 1..Len(hrp) |-> hrp[i] \div 32] \o <<0>> \o [i \in 1..Len(hrp) |-> hrp[i] % 32]
BechChecksum(hrp, data) ==
  XorLast(PolyRem(GBech, BechHrpExpand(hrp) \o data \o Rep(0, 6)))
BechVerify(hrp, values) ==
  PolyRem(GBech, BechHrpExpand(hrp) \o values) = UnitPoly(6)

\* the shared 32-symbol alphabet "qpzry9x8gf2tvdw0s3jn54khce6mua7l" as ASCII codes
Charset32 == <<113,112,122,114,121,57,120,56,103,102,50,116,118,100,119,48,
               115,51,106,110,53,52,107,104,99,101,54,109,117,97,55,108>>
CharOf32(v) == Charset32[v + 1]
\* value of an ASCII code in the alphabet, -1 if foreign (lower case only)
Val32T == [c \in 0..255 |-> LET k == IndexOf(Charset32, c) IN k - 1]
Val32(c) == IF c \in 0..255 THEN Val32T[c] ELSE -1
=============================================================================
