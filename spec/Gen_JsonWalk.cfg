INIT Init
NEXT Next
INVARIANT Sane
CHECK_DEADLOCK FALSE
