----------------------------- MODULE Trace_BlockCache -----------------------------
EXTENDS BlockCache, TraceBase
V(clause, exp, got) == <<clause, exp, got>>
OK == <<>>
StB0 == [blk |-> BC0(0, 0), fresh |-> [hash |-> <<>>, bytes |-> <<>>, txhash |-> <<>>, txbytes |-> <<>>]]

UpdBC(s, e) ==
  CASE e.op = "BlockNew" -> [blk |-> BC0(e.n, e.bytesobj), fresh |-> e.fresh]
    [] e.op = "Bytes" -> IF e.ok /\ s.blk.bytesObj = 0 THEN [s EXCEPT !.blk.bytesObj = e.obj] ELSE s
    [] e.op = "Hash" -> IF s.blk.hashObj = 0 THEN [s EXCEPT !.blk.hashObj = e.obj] ELSE s
    [] e.op \in {"Tx", "TxHash"} -> IF e.ok THEN [s EXCEPT !.blk = TxNext(s.blk, e.i, e.obj)] ELSE s
    [] e.op = "Transactions" -> IF Len(e.objs) = s.blk.n THEN [s EXCEPT !.blk = AllNext(s.blk, e.objs)] ELSE s
    [] e.op = "SetHeight" -> [s EXCEPT !.blk.height = e.h]
    [] OTHER -> s

TxView(p, k, t) ==      \* wrapped transaction t observed at position k (1-based)
  IF t.index # k - 1 THEN V("wrapped-transaction-index", k - 1, t.index)
  ELSE IF t.hash # p.fresh.txhash[k] THEN V("wrapped-transaction-hash", Take(p.fresh.txhash[k], 4), Take(t.hash, 4))
  ELSE IF ~t.samemsg THEN V("wrapped-transaction-message", "the block's own MsgTx", "another object")
  ELSE OK

VerdictBC(p, e, s) ==
  IF "panic" \in DOMAIN e THEN V("panic", e.op, e.panic)
  ELSE
  LET b == p.blk  used == UsedIds(b) IN
  CASE e.op = "BlockNew" ->
         \* constructors: a block built from bytes must describe the same block as the message
         IF e.reparse_hash # e.fresh.hash THEN V("reparsed-block-differs", Take(e.fresh.hash, 4), Take(e.reparse_hash, 4)) ELSE OK
    [] e.op = "Bytes" ->
         IF ~e.ok THEN V("bytes-error", "ok", "error")
         ELSE IF e.ret # p.fresh.bytes THEN V("serialized-bytes", Len(p.fresh.bytes), Len(e.ret))
         ELSE IF ~IdOK(b.bytesObj, e.obj, used) THEN V("bytes-identity", b.bytesObj, e.obj)
         ELSE OK
    [] e.op = "Hash" ->
         IF e.ret # p.fresh.hash THEN V("block-hash", Take(p.fresh.hash, 4), Take(e.ret, 4))
         ELSE IF ~IdOK(b.hashObj, e.obj, used) THEN V("hash-identity", b.hashObj, e.obj)
         ELSE OK
    [] e.op \in {"Tx", "TxHash"} ->
         IF e.ok # InRange(b, e.i) THEN V("index-range", InRange(b, e.i), e.ok)
         ELSE IF ~e.ok THEN (IF e.outofrange THEN OK ELSE V("out-of-range-error-type", "OutOfRangeError", e.err))
         ELSE IF e.op = "Tx" /\ TxView(p, e.i + 1, e.tx) # OK THEN TxView(p, e.i + 1, e.tx)
         ELSE IF e.op = "TxHash" /\ e.ret # p.fresh.txhash[e.i + 1] THEN V("transaction-hash", Take(p.fresh.txhash[e.i + 1], 4), Take(e.ret, 4))
         ELSE IF ~IdOK(b.slots[e.i + 1], e.obj, used) THEN V("transaction-identity", b.slots[e.i + 1], e.obj)
         ELSE OK
    [] e.op = "Transactions" ->
         IF Len(e.objs) # b.n THEN V("transactions-length", b.n, Len(e.objs))
         ELSE LET bad == {k \in 1..b.n : TxView(p, k, e.txs[k]) # OK} IN
              IF bad # {} THEN TxView(p, CHOOSE k \in bad : TRUE, e.txs[CHOOSE k \in bad : TRUE])
              ELSE IF \E k \in 1..b.n : b.slots[k] # 0 /\ e.objs[k] # b.slots[k] THEN V("transaction-identity", b.slots, e.objs)
              ELSE IF Cardinality({e.objs[k] : k \in 1..b.n}) # b.n \/ \E k \in 1..b.n : b.slots[k] = 0 /\ (e.objs[k] = 0 \/ e.objs[k] \in used)
                     THEN V("transaction-identity-not-fresh", b.slots, e.objs)
              ELSE OK
    [] e.op = "TxLoc" ->
         LET lens == [k \in 1..b.n |-> Len(p.fresh.txbytes[k])]  x == TxLocSpec(b.n, lens) IN
         IF ~e.ok THEN V("txloc-error", "ok", "error")
         ELSE IF e.ret # x THEN V("transaction-locations", Cut(x), Cut(e.ret))
         ELSE IF \E k \in 1..b.n : SubSeq(p.fresh.bytes, x[k][1] + 1, x[k][1] + x[k][2]) # p.fresh.txbytes[k]
                THEN V("transaction-locations-do-not-delimit-serialisation", "fresh", "differs")
         ELSE OK
    [] e.op = "Height" -> IF e.ret # b.height THEN V("height", b.height, e.ret) ELSE OK
    [] e.op = "SetHeight" -> OK
    [] e.op = "TxWrap" ->
         \* stand-alone Tx wrapper: hash = fresh, index unknown until set, repeated Hash() same object
         IF e.hash # e.fresh THEN V("tx-hash", Take(e.fresh, 4), Take(e.hash, 4))
         ELSE IF e.index0 # -1 THEN V("tx-index-unknown", -1, e.index0)
         ELSE IF e.index1 # e.setindex THEN V("tx-setindex", e.setindex, e.index1)
         ELSE IF ~e.samehashobj THEN V("tx-hash-identity", "same", "different")
         ELSE IF e.frombytes_hash # e.fresh THEN V("tx-from-bytes-hash", Take(e.fresh, 4), Take(e.frombytes_hash, 4))
         ELSE IF "frombytes_index" \in DOMAIN e /\ (e.frombytes_index # -1 \/ e.fromreader_index # -1) THEN V("tx-index-unknown", -1, <<e.frombytes_index, e.fromreader_index>>)
         ELSE OK
    [] e.op = "TwoBlocks" ->
         \* each block's Bytes() is the serialisation of ITS message, before and after another block was serialised
         IF e.a1 # e.sera THEN V("serialized-bytes", Len(e.sera), Len(e.a1))
         ELSE IF e.b1 # e.serb THEN V("serialized-bytes", Len(e.serb), Len(e.b1))
         ELSE IF e.a2 # e.sera THEN V("serialized-bytes-changed-by-another-block", Take(e.sera, 8), Take(e.a2, 8))
         ELSE IF ~e.reparse THEN V("reparse-hash", TRUE, FALSE)
         ELSE OK
    [] OTHER -> V("unknown-op", e.op, e.op)

InitBC == TInit(StB0)
NextBC == TNext(UpdBC)
JudgeBC == Judge(VerdictBC)
=============================================================================
