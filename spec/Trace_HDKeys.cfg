INIT InitHD
NEXT NextHD
INVARIANT JudgeHD
CHECK_DEADLOCK FALSE
