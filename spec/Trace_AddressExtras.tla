--------------------------- MODULE Trace_AddressExtras ---------------------------
EXTENDS AddressExtras, TraceBase
V(clause, exp, got) == <<clause, exp, got>>
OK == <<>>
Cfg0 == [nets |-> <<>>, pkhIds |-> {}, shIds |-> {}]
SetOf(s) == {s[k] : k \in 1..Len(s)}
UpdX(s, e) == IF e.op = "Config" THEN [nets |-> e.nets, pkhIds |-> SetOf(e.pkhIds), shIds |-> SetOf(e.shIds)] ELSE s
First(vs) == LET bad == SelectSeq(vs, LAMBDA v : v # OK) IN IF Len(bad) = 0 THEN OK ELSE bad[1]

\* the source address of a Convert event, as the specification's constructor makes it
SrcOf(cfg, e) ==
  LET net == cfg.nets[e.net] IN
  CASE e.ctor = "PubKeyHash" -> CashAddr("P2PKH", FALSE, net, e.data)
    [] e.ctor = "SlpPubKeyHash" -> CashAddr("P2PKH", TRUE, net, e.data)
    [] e.ctor = "ScriptHashFromHash" -> CashAddr("P2SH", FALSE, net, e.data)
    [] e.ctor = "SlpScriptHashFromHash" -> CashAddr("P2SH", TRUE, net, e.data)
    [] e.ctor = "ScriptHash32FromHash" -> CashAddr("P2SH32", FALSE, net, e.data)
    [] e.ctor = "LegacyPubKeyHash" -> LegacyAddr("LP2PKH", net.pkh, e.data)
    [] OTHER -> LegacyAddr("LP2SH", net.sh, e.data)

VerdictX(p, e, s) ==
  IF "panic" \in DOMAIN e THEN V("panic", e.op, e.panic)
  ELSE
  CASE e.op = "Config" -> OK
    [] e.op = "Convert" ->
         LET x == ConvertSpec(SrcOf(p, e), p.nets[e.tonet], e.toslp) IN
         IF e.ok # x.ok THEN V("convert-acceptance", x.ok, e.ok)
         ELSE IF ~x.ok THEN OK
         ELSE IF e.rtype # GoType(x.a.kind) THEN V("convert-kind", GoType(x.a.kind), e.rtype)
         ELSE IF e.payload # x.a.payload THEN V("convert-payload", x.a.payload, e.payload)
         ELSE IF e.enc # EncodeOf(<<>>, x.a) THEN V("convert-string", EncodeOf(<<>>, x.a), e.enc)
         ELSE OK
    [] e.op = "PubKeyOps" ->
         LET pt == PointOf(e.env, e.data)
             net == p.nets[e.net]
             one(f) ==      \* f = one observation [fmt, ser, str, enc, pkhenc]
               LET ser == SerialiseAs(f.fmt, pt)
                   h160 == Hash160(e.env, ser)
                   ck == IF h160 = Missing THEN Missing ELSE EnvGet(e.env, "sha256d", <<net.pkh>> \o h160)
               IN IF h160 = Missing \/ ck = Missing THEN EnvMissingV("pubkey-format")
                  \* SetFormat(x) makes x the format (Format() reports it and every rendering follows it)
                  ELSE IF "want" \in DOMAIN f /\ f.fmt # f.want THEN V("pubkey-format-not-set", f.want, f.fmt)
                  ELSE IF f.ser # ser THEN V("pubkey-serialisation", Cut(ser), Cut(f.ser))
                  ELSE IF f.str # HexStr(ser) THEN V("pubkey-string", Cut(HexStr(ser)), Cut(f.str))
                  ELSE IF f.enc # CheckEnc(e.env, net.pkh, h160) THEN V("pubkey-p2pkh-string", Cut(CheckEnc(e.env, net.pkh, h160)), Cut(f.enc))
                  ELSE IF f.pkhenc # CashString(NetForId(p, net.pkh).cash, TypeP2PKH, h160) THEN V("pubkey-hash-address", Cut(CashString(NetForId(p, net.pkh).cash, TypeP2PKH, h160)), Cut(f.pkhenc))
                  ELSE OK
         IN IF pt[2] = Missing THEN EnvMissingV("ec-decompress")
            ELSE IF e.fmt0 # FormatOf(e.data) THEN V("pubkey-initial-format", FormatOf(e.data), e.fmt0)
            ELSE First([k \in 1..Len(e.forms) |-> one(e.forms[k])])
    [] e.op = "HashFn" ->
         LET h1 == Hash160(e.env, e.data)  h2 == Hash256(e.env, e.data) IN
         IF h1 = Missing \/ h2 = Missing THEN EnvMissingV("hash")
         ELSE IF e.h160 # h1 THEN V("hash160", Take(h1, 4), Take(e.h160, 4))
         ELSE IF e.h256 # h2 THEN V("hash256", Take(h2, 4), Take(e.h256, 4))
         ELSE OK
    [] OTHER -> V("unknown-op", e.op, e.op)

InitX == TInit(Cfg0)
NextX == TNext(UpdX)
JudgeX == Judge(VerdictX)
=============================================================================
