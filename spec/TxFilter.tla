------------------------------- MODULE TxFilter -------------------------------
(* C10: BIP37 transaction relevance (IsRelevantAndUpdate) on top of the Bloom    *)
(* state machine, and the block scan contract.                                   *)
(*                                                                              *)
(* A transaction is [txid, outs, ins] with                                       *)
(*   outs[k] = [pushes, perr, prefix, class]   ins[k] = [ptxid, pidx, pushes,    *)
(*   perr, prefix]                                                               *)
(* pushes / perr / class are environment facts (bchd txscript.PushedData and      *)
(* GetScriptClass); prefix = the pushes before the parse error of an unparsable   *)
(* script.  Named deviation (the property is silent):                            *)
(*   PartialPushes  an unparsable script contributes nothing ("none") or the      *)
(*                  pushes before the error ("prefix").                          *)
(* An EMPTY push is a data push like any other (the property quantifies over      *)
(* empty pushes and says "exactly when the filter contains ... a data push"):      *)
(* it is tested.  (Until round 6 skipping it, as Bitcoin Core does, was accepted   *)
(* as a second deviation; seeded change C10-N showed that this hid a real miss.)   *)
EXTENDS Bloom

UpdateNone == 0
UpdateAll == 1
UpdateP2PubkeyOnly == 2

Variants == {<<pm, "test">> : pm \in {"none", "prefix"}}
PushesOf(sc, var) ==
  LET base == IF sc.perr THEN (IF var[1] = "prefix" THEN sc.prefix ELSE <<>>) ELSE sc.pushes
  IN IF var[2] = "skip" THEN SelectSeq(base, LAMBDA d : Len(d) > 0) ELSE base

\* exact membership of the bit pattern (filter loaded, non-empty bit array)
MatchesB(f, item) == f.loaded /\ f.nbytes > 0 /\ Bip37Idx(f, item) \subseteq f.bits
AnyMatchB(f, pushes) == \E k \in 1..Len(pushes) : MatchesB(f, pushes[k])
AddB(f, item) == AddNext(f, Bip37Idx(f, item))
MaybeAddOutpoint(f, class, txid, k) ==
  IF f.flags = UpdateAll \/ (f.flags = UpdateP2PubkeyOnly /\ class \in {"pubkey", "multisig"})
    THEN AddB(f, OutPointBytes(txid, <<0, k>>))      \* output numbers stay below 2^16 here
    ELSE f

\* MatchTxAndUpdate: result and post-state are exact
MatchTxSpec(f, tx, var) ==
  LET step(acc, k) ==
        IF AnyMatchB(acc.f, PushesOf(tx.outs[k], var))
          THEN [f |-> MaybeAddOutpoint(acc.f, tx.outs[k].class, tx.txid, k - 1), m |-> TRUE]
          ELSE acc
      o == FoldLeft(step, [f |-> f, m |-> MatchesB(f, tx.txid)], [k \in 1..Len(tx.outs) |-> k])
  IN IF o.m THEN [f |-> o.f, ret |-> TRUE]
     ELSE [f |-> f,
           ret |-> \E k \in 1..Len(tx.ins) :
                     \/ MatchesB(f, OutPointBytes(tx.ins[k].ptxid, tx.ins[k].pidx))
                     \/ AnyMatchB(f, PushesOf(tx.ins[k], var))]

\* ---- block scan contract ----------------------------------------------------------
\* exact-set semantics: I = the byte strings the filter "contains"
RelevantX(tx, I, var) ==
  \/ tx.txid \in I
  \/ \E k \in 1..Len(tx.outs) : \E j \in 1..Len(PushesOf(tx.outs[k], var)) : PushesOf(tx.outs[k], var)[j] \in I
  \/ \E k \in 1..Len(tx.ins) :
       \/ OutPointBytes(tx.ins[k].ptxid, tx.ins[k].pidx) \in I
       \/ \E j \in 1..Len(PushesOf(tx.ins[k], var)) : PushesOf(tx.ins[k], var)[j] \in I
GrowX(txs, I, flags, var) ==
  I \cup {OutPointBytes(txs[t].txid, <<0, k - 1>>) :
            <<t, k>> \in {<<t, k>> \in (1..Len(txs)) \X (1..8) :
                           /\ k <= Len(txs[t].outs)
                           /\ \E j \in 1..Len(PushesOf(txs[t].outs[k], var)) : PushesOf(txs[t].outs[k], var)[j] \in I
                           /\ (flags = UpdateAll \/ (flags = UpdateP2PubkeyOnly /\ txs[t].outs[k].class \in {"pubkey", "multisig"}))}}
\* least fixpoint (at most one new outpoint per output, so #outputs + 1 rounds suffice; we
\* iterate Len(txs) + 1 times: a chain of dependencies is at most that long)
LfpX(txs, I0, flags, var) ==
  FoldLeft(LAMBDA I, r : GrowX(txs, I, flags, var), I0, [r \in 1..(Len(txs) + 1) |-> r])
\* must-report set: minimal reading of the deviations
LowerSet(txs, items, flags) ==
  LET I == LfpX(txs, items, flags, <<"none", "test">>)
  IN {t \in 1..Len(txs) : RelevantX(txs[t], I, <<"none", "test">>)}
\* may-report set: what the FINAL filter bits match (maximal reading of the deviations)
MatchesFinal(f, tx) ==
  \/ MatchesB(f, tx.txid)
  \/ \E k \in 1..Len(tx.outs) : AnyMatchB(f, PushesOf(tx.outs[k], <<"prefix", "test">>))
  \/ \E k \in 1..Len(tx.ins) :
       \/ MatchesB(f, OutPointBytes(tx.ins[k].ptxid, tx.ins[k].pidx))
       \/ AnyMatchB(f, PushesOf(tx.ins[k], <<"prefix", "test">>))
UpperSet(txs, ffinal) == {t \in 1..Len(txs) : MatchesFinal(ffinal, txs[t])}
=============================================================================
