-------------------------------- MODULE Trace_Robust --------------------------------
EXTENDS Robust, TraceBase
V(clause, exp, got) == <<clause, exp, got>>
OK == <<>>
VerdictR(p, e, s) ==
  IF e.op # "Robust" THEN V("unknown-op", e.op, e.op)
  ELSE IF e.entry \notin EntryPoints THEN V("unknown-entry-point", e.entry, e.entry)
  ELSE LET c == Contract(e) IN
       IF c = <<>> THEN OK
       ELSE IF c[1] = "not-total" THEN V(IF e.outcome = "panic" THEN "panic" ELSE IF e.outcome = "hang" THEN "hang" ELSE "crash", e.entry, e.detail)
       ELSE IF c[1] = "time-bound" THEN V("time-not-bounded-by-input", [entry |-> e.entry, len |-> e.len, bound_us |-> c[2]], e.cpu_us)
       ELSE V("allocation-not-proportional-to-input", [entry |-> e.entry, len |-> e.len, bound_kib |-> c[2]], e.alloc_kib)
InitR == TInit(0)
NextR == TNext(Same)
JudgeR == Judge(VerdictR)
=============================================================================
