INIT InitCG
NEXT NextCG
INVARIANT JudgeCG
CHECK_DEADLOCK FALSE
