---------------------------------- MODULE GCS ----------------------------------
(* C13 / C14: Golomb-coded sets.                                                 *)
(*   value(item)  = floor(SipHash-2-4(key, item) * (N*M) / 2^64)   (limb naturals) *)
(*   bytes        = the sorted values, delta coded: unary quotient (delta >> P),   *)
(*                  a zero bit, P remainder bits most significant first, zero      *)
(*                  padded to a byte.                                             *)
(* SipHash is an environment function (positional facts: sips[k] is the hash of    *)
(* key || items[k]).  Sorting is not re-done in TLA+: the harness proposes the      *)
(* order as a permutation and the specification checks that it IS a permutation and *)
(* that the values are non-decreasing along it.  The byte string is verified by a   *)
(* single scan that checks, value by value, that the stream holds exactly the       *)
(* prescribed bits (Golomb-Rice coding is a bijection, so this is byte equality).   *)
EXTENDS LibCodec

\* ---- limb helpers ------------------------------------------------------------------
\* floor(a / 2^k)
NShr(a, k) ==
  LET d == NDropLimbs(a, k \div 15)  r == k % 15
  IN IF r = 0 THEN d ELSE NDivModSmall(d, Pow2(r))[1]
\* a mod 2^k
NLow(a, k) ==
  LET full == k \div 15  r == k % 15
      lo == Take(a, full)
  IN IF r = 0 THEN NNorm(lo) ELSE NNorm(lo \o <<NLimb(a, full + 1) % Pow2(r)>>)

\* ---- values ----------------------------------------------------------------------------
Modulus(n, mBytes) == NMul(NFromSmall(n), NFromBytesBE(mBytes))          \* n < 2^31 here
Reduce(sip8, nm) == NShr(NMul(NFromBytesBE(sip8), nm), 64)

\* ---- verifying scan of the filter bytes -----------------------------------------------------
BitAt(bytes, pos) == (bytes[(pos \div 8) + 1] \div Pow2(7 - (pos % 8))) % 2      \* pos 0-based, MSB first
NBits(bytes) == 8 * Len(bytes)
\* acc = [pos, last, ok, why]; one step checks the encoding of value v
ScanStep(bytes, p, acc, v) ==
  IF ~acc.ok THEN acc
  ELSE IF NCmp(v, acc.last) < 0 THEN [acc EXCEPT !.ok = FALSE, !.why = "values-not-sorted"]
  ELSE LET delta == NSub(v, acc.last)
           qn == NShr(delta, p)
       IN IF ~NFitsSmall(qn) \/ NToSmall(qn) > 100000 THEN [acc EXCEPT !.ok = FALSE, !.why = "quotient-too-large-for-model"]
          ELSE LET q == NToSmall(qn)
                   endp == acc.pos + q + 1 + p
               IN IF endp > NBits(bytes) THEN [acc EXCEPT !.ok = FALSE, !.why = "stream-too-short"]
                  ELSE IF \E j \in 0..(q - 1) : BitAt(bytes, acc.pos + j) # 1 THEN [acc EXCEPT !.ok = FALSE, !.why = "unary-quotient"]
                  ELSE IF BitAt(bytes, acc.pos + q) # 0 THEN [acc EXCEPT !.ok = FALSE, !.why = "unary-terminator"]
                  ELSE LET rem == FoldLeft(LAMBDA a, j : NMulSmallAdd(a, 2, BitAt(bytes, acc.pos + q + 1 + j)), <<>>, [j \in 1..p |-> j - 1])
                       IN IF NNorm(rem) # NLow(delta, p) THEN [acc EXCEPT !.ok = FALSE, !.why = "remainder-bits"]
                          ELSE [acc EXCEPT !.pos = endp, !.last = v]
\* vals: the expected values in non-decreasing order
ScanFilter(bytes, p, vals) ==
  LET r == FoldLeft(LAMBDA acc, v : ScanStep(bytes, p, acc, v), [pos |-> 0, last |-> <<>>, ok |-> TRUE, why |-> ""], vals)
  IN IF ~r.ok THEN r.why
     ELSE IF NBits(bytes) - r.pos >= 8 THEN "trailing-bytes"
     ELSE IF \E j \in r.pos..(NBits(bytes) - 1) : BitAt(bytes, j) # 0 THEN "non-zero-padding"
     ELSE "ok"

IsPermutation(order, n) == Len(order) = n /\ {order[k] : k \in 1..n} = 1..n
=============================================================================
