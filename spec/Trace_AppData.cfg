INIT InitAD
NEXT NextAD
INVARIANT JudgeAD
CHECK_DEADLOCK FALSE
