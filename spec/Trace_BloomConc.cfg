INIT InitC
NEXT NextC
INVARIANT JudgeC
CHECK_DEADLOCK FALSE
