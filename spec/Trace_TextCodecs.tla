-------------------------- MODULE Trace_TextCodecs --------------------------
EXTENDS TextCodecs, TraceBase

V(clause, exp, got) == <<clause, exp, got>>
VS(clause, exp, got) == <<clause, Cut(exp), Cut(got)>>
OK == <<>>
\* purity: every slice argument's backing array (up to cap) is unchanged
Pure(e) == IF "mem0" \in DOMAIN e THEN e.mem0 = e.mem1 ELSE TRUE

Verdict(e) ==
  IF "panic" \in DOMAIN e THEN V("panic", e.op, e.panic)
  ELSE IF ~Pure(e) THEN VS("argument-memory-modified", e.mem0, e.mem1)
  ELSE
  CASE e.op = "B58Encode" ->
         LET x == B58Enc(e.b) IN IF x = e.ret THEN OK ELSE VS("base58-encode", x, e.ret)
    [] e.op = "B58Decode" ->
         LET x == B58Dec(e.s) IN IF x = e.ret THEN OK ELSE VS("base58-decode", x, e.ret)
    [] e.op = "CheckEncode" ->
         IF EnvGet(e.env, "sha256d", <<e.ver>> \o e.b) = Missing THEN EnvMissingV("sha256d")
         ELSE LET x == CheckEnc(e.env, e.ver, e.b) IN IF x = e.ret THEN OK ELSE VS("check-encode", x, e.ret)
    [] e.op = "CheckDecode" ->
         LET d == B58Dec(e.s) IN
         IF Len(d) >= 5 /\ EnvGet(e.env, "sha256d", SubSeq(d, 1, Len(d) - 4)) = Missing THEN EnvMissingV("sha256d")
         ELSE LET x == CheckDec(e.env, e.s)
                  got == [ok |-> e.ok, err |-> e.err, ver |-> e.ver, payload |-> e.ret]
              IN IF x = got THEN OK ELSE V("check-decode", [x EXCEPT !.payload = Cut(@)], [got EXCEPT !.payload = Cut(@)])
    [] e.op = "Bech32Encode" ->
         LET x == Bech32Enc(e.hrp, e.data)  got == [ok |-> e.ok, s |-> e.ret]
         \* a result longer than 90 characters is not a bech32 string (the property quantifies within that limit):
         \* Encode may produce it or refuse it
         IN IF x = got \/ (x.ok /\ Len(x.s) > 90 /\ ~got.ok) THEN OK ELSE V("bech32-encode", x, got)
    [] e.op = "Bech32Decode" ->
         LET x == Bech32Dec(e.s)  got == [ok |-> e.ok, hrp |-> e.rhrp, data |-> e.rdata]
         IN IF x = got THEN OK ELSE V("bech32-decode", x, got)
    [] e.op = "ConvertBits" ->
         LET x == ConvertBitsSpec(e.data, e.from, e.to, e.pad)  got == [ok |-> e.ok, out |-> e.ret]
         IN IF x = got THEN OK ELSE V("convert-bits", [x EXCEPT !.out = Cut(@)], [got EXCEPT !.out = Cut(@)])
    [] OTHER -> V("unknown-op", e.op, e.op)

V3(p, e, s) == Verdict(e)
Init == TInit(0)
Next == TNext(Same)
JudgeInv == Judge(V3)
=============================================================================
