INIT Init
NEXT Next
INVARIANT OrderIndependent
CONSTANTS
 SkipMatched = TRUE
 Recheck = TRUE
 Emit = FALSE
CHECK_DEADLOCK FALSE
