INIT Init
NEXT Next
INVARIANT OrderIndependent
CONSTANT Recheck = TRUE
CHECK_DEADLOCK FALSE
