INIT Init
NEXT Next
CONSTANT Depth = 3
CHECK_DEADLOCK FALSE
