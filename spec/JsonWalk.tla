---------------------------------- MODULE JsonWalk ----------------------------------
(* Growth X05 (and the JSON inputs of C08): jsonpb/jsonpb.go transcribed.                 *)
(* The package wraps a protobuf JSON (un)marshaller and rewrites the JSON tree on the way:  *)
(*   Unmarshal:  convertHex     hex strings      -> base64 (64 hex digits = a block/tx hash,  *)
(*                                                   byte-reversed first)                     *)
(*   Marshal:    convertBase64  base64 strings   -> hex    (32 bytes = a hash, reversed)      *)
(* A JSON value is a tagged tuple (uniform shapes, TLC cannot compare a tuple to a string):  *)
(*   <<"s", bytes>>  <<"n", k>>  <<"b", 0|1>>  <<"z">>  <<"a", <<v1, ...>>>>                  *)
(*   <<"o", << <<key1, v1>>, ... >>>>     keys are byte sequences, sorted, distinct            *)
(* Base64 (RFC 4648 standard alphabet, '=' padding, Go's non-strict reader: CR / LF are      *)
(* skipped anywhere, unused trailing bits are ignored) and hex are specified here in full.   *)
EXTENDS LibBytes

Tag(v) == v[1]
Str(b) == <<"s", b>>
Null == <<"z">>

\* ---- base64 ---------------------------------------------------------------------------------
B64Alphabet == <<65,66,67,68,69,70,71,72,73,74,75,76,77,78,79,80,81,82,83,84,85,86,87,88,89,90,
                 97,98,99,100,101,102,103,104,105,106,107,108,109,110,111,112,113,114,115,116,117,118,119,120,121,122,
                 48,49,50,51,52,53,54,55,56,57,43,47>>
B64Val(c) == IF c >= 65 /\ c <= 90 THEN c - 65
             ELSE IF c >= 97 /\ c <= 122 THEN c - 71
             ELSE IF c >= 48 /\ c <= 57 THEN c + 4
             ELSE IF c = 43 THEN 62 ELSE IF c = 47 THEN 63 ELSE -1

B64Enc(b) ==
  LET n == Len(b)
      full == n \div 3
      grp(k) == LET x == b[3 * k - 2]  y == b[3 * k - 1]  z == b[3 * k] IN
                <<B64Alphabet[(x \div 4) + 1], B64Alphabet[((x % 4) * 16 + y \div 16) + 1],
                  B64Alphabet[((y % 16) * 4 + z \div 64) + 1], B64Alphabet[(z % 64) + 1]>>
      body == Concat([k \in 1..full |-> grp(k)])
      tail == IF n % 3 = 0 THEN <<>>
              ELSE IF n % 3 = 1 THEN LET x == b[n] IN <<B64Alphabet[(x \div 4) + 1], B64Alphabet[((x % 4) * 16) + 1], 61, 61>>
              ELSE LET x == b[n - 1]  y == b[n] IN
                   <<B64Alphabet[(x \div 4) + 1], B64Alphabet[((x % 4) * 16 + y \div 16) + 1], B64Alphabet[((y % 16) * 4) + 1], 61>>
  IN body \o tail

\* [ok, out].  Go's base64.StdEncoding.DecodeString.
B64Dec(s) ==
  LET t == SelectSeq(s, LAMBDA c : c # 10 /\ c # 13)
      p == IndexOf(t, 61)
      body == IF p = 0 THEN t ELSE SubSeq(t, 1, p - 1)
      pad == IF p = 0 THEN <<>> ELSE SubSeq(t, p, Len(t))
      r == Len(body) % 4
      framed == \/ p = 0 /\ r = 0
                \/ p > 0 /\ r = 2 /\ pad = <<61, 61>>
                \/ p > 0 /\ r = 3 /\ pad = <<61>>
      v == [k \in 1..Len(body) |-> B64Val(body[k])]
      full == Len(body) \div 4
      grp(k) == LET a == v[4 * k - 3]  bb == v[4 * k - 2]  c == v[4 * k - 1]  d == v[4 * k] IN
                <<a * 4 + bb \div 16, (bb % 16) * 16 + c \div 4, (c % 4) * 64 + d>>
      n == Len(body)
      tail == IF r = 2 THEN <<v[n - 1] * 4 + v[n] \div 16>>
              ELSE IF r = 3 THEN <<v[n - 2] * 4 + v[n - 1] \div 16, (v[n - 1] % 16) * 16 + v[n] \div 4>>
              ELSE <<>>
  IN IF ~framed \/ \E k \in 1..Len(body) : v[k] < 0 THEN [ok |-> FALSE, out |-> <<>>]
     ELSE [ok |-> TRUE, out |-> Concat([k \in 1..full |-> grp(k)]) \o tail]

\* ---- the two string rules -------------------------------------------------------------------
\* Unmarshal direction.  64 hex digits are a hash in display order: decoded and byte-reversed; any other
\* even-length hex string is decoded as it stands; everything else is left alone.
HexRule(s) ==
  IF IsHexStr(s) THEN (IF Len(s) = 64 THEN B64Enc(Rev(UnHex(s))) ELSE B64Enc(UnHex(s))) ELSE s
\* Marshal direction.  32 decoded bytes are a hash: shown reversed; other decodable strings as plain hex.
B64Rule(s) ==
  LET d == B64Dec(s) IN
  IF ~d.ok THEN s ELSE IF Len(d.out) = 32 THEN HexStr(Rev(d.out)) ELSE HexStr(d.out)

\* ---- the walk ------------------------------------------------------------------------------------
\* Shared by both directions (the code has two copies of it): Rule rewrites a string.
\*   object:  string members are rewritten, containers are walked, null members are DELETED, the rest is kept
\*   array:   the kind of the FIRST element decides: strings -> every string element is rewritten (others kept),
\*            object / array -> every element is walked (a non-container element is kept), otherwise untouched
\*   a bare string / number / bool / null at the top is returned unchanged
RECURSIVE Walk(_, _)
Walk(v, dir) ==
  LET rule(s) == IF dir = "hex" THEN HexRule(s) ELSE B64Rule(s) IN
  CASE Tag(v) = "o" ->
         LET kept == SelectSeq(v[2], LAMBDA kv : Tag(kv[2]) # "z")
         IN <<"o", [k \in 1..Len(kept) |->
                      LET m == kept[k][2] IN
                      <<kept[k][1], IF Tag(m) = "s" THEN Str(rule(m[2]))
                                    ELSE IF Tag(m) \in {"o", "a"} THEN Walk(m, dir) ELSE m>>]>>
    [] Tag(v) = "a" ->
         IF Len(v[2]) = 0 THEN v
         ELSE LET first == Tag(v[2][1]) IN
              IF first = "s" THEN <<"a", [k \in 1..Len(v[2]) |-> IF Tag(v[2][k]) = "s" THEN Str(rule(v[2][k][2])) ELSE v[2][k]]>>
              ELSE IF first \in {"o", "a"} THEN <<"a", [k \in 1..Len(v[2]) |-> Walk(v[2][k], dir)]>>
              ELSE v
    [] OTHER -> v

ConvertHex(v) == Walk(v, "hex")
ConvertBase64(v) == Walk(v, "b64")

\* number of nodes (for the allocation / size clauses and the generator's bound)
RECURSIVE Size(_)
Size(v) == IF Tag(v) = "o" THEN 1 + FoldLeft(LAMBDA acc, kv : acc + Size(kv[2]), 0, v[2])
           ELSE IF Tag(v) = "a" THEN 1 + FoldLeft(LAMBDA acc, x : acc + Size(x), 0, v[2])
           ELSE 1
=============================================================================
