------------------------------- MODULE Trace_CoinSet -------------------------------
EXTENDS CoinSet, TraceBase, LibNat
V(clause, exp, got) == <<clause, exp, got>>
OK == <<>>

SelectVerdict(e) ==
  LET sc == SelCoins(e.coins, e.sel)
      tot == TotalValue(sc) IN
  IF e.ok /\ \E k \in 1..Len(e.sel) : e.sel[k] \notin 1..Len(e.coins) THEN V("selection-not-from-offered-coins", Len(e.coins), e.sel)
  ELSE IF e.ok /\ Cardinality({e.sel[k] : k \in 1..Len(e.sel)}) # Len(e.sel) THEN V("selection-repeats-a-coin", "distinct", e.sel)
  ELSE IF e.ok /\ Len(e.sel) > e.maxinputs THEN V("selection-exceeds-max-inputs", [max |-> e.maxinputs, over |-> Len(e.sel) - e.maxinputs], e.sel)
  ELSE IF e.ok /\ ~Satisfies(e.target, e.minchange, tot) THEN V("selection-total", [target |-> e.target, minchange |-> e.minchange], tot)
  ELSE
  CASE e.selector = "MinIndex" ->
         IF MinIndexOK(e.coins, e.ok, e.sel, e.target, e.minchange, e.maxinputs) THEN OK
         ELSE V("min-index-shortest-prefix", PrefixLen(e.coins, e.target, e.minchange, e.maxinputs), [ok |-> e.ok, sel |-> e.sel])
    [] e.selector = "MinNumber" ->
         IF DescPrefixOK(e.coins, e.ok, e.sel, e.target, e.minchange, e.maxinputs, LAMBDA c : c.value) THEN OK
         ELSE V("min-number-descending-prefix", "shortest prefix by descending value", [ok |-> e.ok, sel |-> e.sel])
    [] e.selector = "MaxValueAge" ->
         IF DescPrefixOK(e.coins, e.ok, e.sel, e.target, e.minchange, e.maxinputs, VA) THEN OK
         ELSE V("max-value-age-descending-prefix", "shortest prefix by descending value-age", [ok |-> e.ok, sel |-> e.sel])
    [] e.selector = "MinPriority" ->
         IF MinPriorityOK(e.coins, e.ok, e.sel, e.target, e.minchange, e.maxinputs, e.minavg) THEN OK
         ELSE V("selection-average-value-age", [minavg |-> e.minavg, n |-> Len(e.sel)], TotalValueAge(sc))
    [] OTHER -> V("unknown-op", e.selector, e.selector)

\* coin set histories: abstract state = sequence of coins
UpdCS(s, e) == IF e.op = "CsNew" THEN e.coins
               ELSE IF e.op = "CsPush" THEN Push(s, e.coin)
               ELSE IF e.op = "CsPop" THEN Pop(s)
               ELSE IF e.op = "CsShift" THEN Shift(s)
               ELSE s
TxKey(c) == IF "txk" \in DOMAIN c THEN c.txk ELSE c.id
PostOK(e, s) ==
  LET q == e.post IN
  IF q.num # Len(s) THEN V("coinset-count", Len(s), q.num)
  ELSE IF q.total # TotalValue(s) THEN V("coinset-total-value", TotalValue(s), q.total)
  ELSE IF q.totalage # TotalValueAge(s) THEN V("coinset-total-value-age", TotalValueAge(s), q.totalage)
  ELSE IF q.ids # [k \in 1..Len(s) |-> s[k].id] THEN V("coinset-contents", [k \in 1..Len(s) |-> s[k].id], q.ids)
  \* a transaction built from the set spends exactly the set's outpoints (funding transaction txk, output index), in order
  ELSE IF q.txins # [k \in 1..Len(s) |-> <<TxKey(s[k]), s[k].index>>] THEN V("transaction-inputs", [k \in 1..Len(s) |-> <<TxKey(s[k]), s[k].index>>], q.txins)
  ELSE OK

VerdictCS(p, e, s) ==
  IF "panic" \in DOMAIN e THEN V("panic", e.op, e.panic)
  ELSE IF e.op = "Select" THEN SelectVerdict(e)
  ELSE IF e.op = "SelectBig" THEN
         \* coins whose value-age exceeds 2^53 (values and confirmations up to 2^27): the ranking key is the exact product,
         \* compared as a limb natural (TLC integers have 32 bits).  Only successful selections are judged.
         LET K(c) == IF e.selector = "MaxValueAge" THEN NMul(NFromSmall(c.value), NFromSmall(c.confs)) ELSE NFromSmall(c.value)
             n == Len(e.coins)
             k == Len(e.sel)
             sc == [j \in 1..k |-> e.coins[e.sel[j]]]
         IN IF ~e.ok THEN OK
            ELSE IF \E j \in 1..k : e.sel[j] \notin 1..n THEN V("selection-not-from-offered-coins", n, e.sel)
            ELSE IF Cardinality({e.sel[j] : j \in 1..k}) # k THEN V("selection-repeats-a-coin", "distinct", e.sel)
            ELSE IF k > e.maxinputs THEN V("selection-exceeds-max-inputs", e.maxinputs, e.sel)
            ELSE IF ~Satisfies(e.target, e.minchange, TotalValue(sc)) THEN V("selection-total", e.target, TotalValue(sc))
            ELSE IF \E j \in 1..(k - 1) : Satisfies(e.target, e.minchange, TotalValue(SubSeq(sc, 1, j))) THEN V("descending-prefix-not-shortest", "no shorter prefix qualifies", e.sel)
            ELSE IF \E j \in 1..(k - 1) : NCmp(K(sc[j]), K(sc[j + 1])) < 0 THEN V("descending-order-of-exact-keys", "descending", e.sel)
            ELSE IF \E c \in 1..n : c \notin {e.sel[j] : j \in 1..k} /\ NCmp(K(e.coins[c]), K(sc[k])) > 0
              THEN V("descending-order-of-exact-keys", "nothing left out ranks above the last selected coin", e.sel)
            ELSE OK
  ELSE IF e.op = "SimpleCoin" THEN
         \* coin k is output k of the transaction: its hash, index, value, script; confirmations as given; value-age = product
         LET n == Len(e.values)
             bad == {k \in 1..n : \/ e.coins[k].hash # e.fresh \/ e.coins[k].index # k - 1 \/ e.coins[k].value # e.values[k]
                                   \/ e.coins[k].confs # e.confs + k - 1 \/ e.coins[k].va # e.values[k] * (e.confs + k - 1)
                                   \/ e.coins[k].script # <<81, k - 1>>}
             sum(F(_)) == FoldLeft(LAMBDA acc, k : acc + F(k), 0, [k \in 1..n |-> k])
         IN IF Len(e.coins) # n THEN V("simple-coin-count", n, Len(e.coins))
            ELSE IF bad # {} THEN V("simple-coin-fields", CHOOSE k \in bad : TRUE, e.coins[CHOOSE k \in bad : TRUE])
            ELSE IF e.num # n \/ e.total # sum(LAMBDA k : e.values[k]) \/ e.totalage # sum(LAMBDA k : e.values[k] * (e.confs + k - 1))
              THEN V("coinset-total-value", [num |-> n], [num |-> e.num, total |-> e.total, totalage |-> e.totalage])
            ELSE OK
  ELSE IF e.op \in {"CsNew", "CsPush"} THEN PostOK(e, s)
  ELSE IF e.op = "CsPop" THEN
         IF e.ret # (IF Len(p) = 0 THEN 0 ELSE p[Len(p)].id) THEN V("pop-result", IF Len(p) = 0 THEN 0 ELSE p[Len(p)].id, e.ret) ELSE PostOK(e, s)
  ELSE IF e.op = "CsShift" THEN
         IF e.ret # (IF Len(p) = 0 THEN 0 ELSE p[1].id) THEN V("shift-result", IF Len(p) = 0 THEN 0 ELSE p[1].id, e.ret) ELSE PostOK(e, s)
  ELSE IF e.op = "CsObserve" THEN PostOK(e, s)
  ELSE V("unknown-op", e.op, e.op)

InitCS == TInit(<<>>)
NextCS == TNext(UpdCS)
JudgeCS == Judge(VerdictCS)
=============================================================================
