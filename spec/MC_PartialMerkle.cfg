INIT Init
NEXT Next
INVARIANT RoundTrip
CONSTANT MaxN = 10
CHECK_DEADLOCK FALSE
