INIT InitX
NEXT NextX
INVARIANT JudgeX
CHECK_DEADLOCK FALSE
