SPECIFICATION Spec
CONSTANTS
 MaxTx = 3
 Depth = 3
 Emit = TRUE
CHECK_DEADLOCK FALSE
