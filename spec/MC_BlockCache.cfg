SPECIFICATION Spec
INVARIANT Distinct
PROPERTY Stable
CONSTANTS
 MaxTx = 3
 Depth = 5
 Emit = FALSE
CHECK_DEADLOCK FALSE
