INIT Init
NEXT Next
INVARIANT OrderIndependent
CONSTANTS
 SkipMatched = TRUE
 Recheck = FALSE
 Emit = FALSE
CHECK_DEADLOCK FALSE
