INIT Init
NEXT Next
INVARIANT OrderIndependent
CONSTANTS
 Recheck = FALSE
 Emit = FALSE
CHECK_DEADLOCK FALSE
