INIT Init
NEXT Next
INVARIANT OrderIndependent
CONSTANT Recheck = FALSE
CHECK_DEADLOCK FALSE
