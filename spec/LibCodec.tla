------------------------------ MODULE LibCodec ------------------------------
(* Base58, power-of-two regrouping, CompactSize.                            *)
EXTENDS LibNat, LibGF32

\* Bitcoin Base58 alphabet as ASCII codes
B58Alphabet == <<49,50,51,52,53,54,55,56,57,
                 65,66,67,68,69,70,71,72,74,75,76,77,78,80,81,82,83,84,85,86,87,88,89,90,
                 97,98,99,100,101,102,103,104,105,106,107,109,110,111,112,113,114,115,116,
                 117,118,119,120,121,122>>
B58ValT == MkSeq(256, LAMBDA c : IndexOf(B58Alphabet, c - 1) - 1)
B58Val(c) == IF c \in 0..255 THEN B58ValT[c + 1] ELSE -1

\* digits (most significant first) of limb number n in base 58
B58Digits(n) ==
  LET step(acc, i) == IF NIsZero(acc.n) THEN acc
                      ELSE LET qr == NDivModSmall(acc.n, 58)
                           IN [n |-> qr[1], out |-> <<qr[2]>> \o acc.out]
  IN FoldLeft(step, [n |-> NNorm(n), out |-> <<>>], [i \in 1..(3 * Len(n) + 1) |-> i]).out

B58Enc(b) ==
  LET ds == B58Digits(NFromBytesBE(b))
  IN Rep(49, LeadingCount(b, 0)) \o [i \in 1..Len(ds) |-> B58Alphabet[ds[i] + 1]]

B58Dec(s) ==
  IF \E i \in 1..Len(s) : B58Val(s[i]) < 0 THEN <<>>
  ELSE Rep(0, LeadingCount(s, 49)) \o
       NToBytesBE(FoldLeft(LAMBDA acc, c : NMulSmallAdd(acc, 58, B58Val(c)), <<>>, s))

\* general regrouping of from-bit groups into to-bit groups, MSB first --------
GroupBits(data, from) ==
  [i \in 1..(from * Len(data)) |->
     ((data[((i - 1) \div from) + 1] % Pow2(from)) \div Pow2(from - 1 - ((i - 1) % from))) % 2]
\* result: [ok, out, rem (number of left-over bits), remZero]
Regroup(data, from, to) ==
  LET bits == GroupBits(data, from)
      full == Len(bits) \div to
      rem  == Len(bits) % to
      out  == [k \in 1..full |-> ValMSB(SubSeq(bits, (k - 1) * to + 1, k * to))]
      tail == SubSeq(bits, full * to + 1, Len(bits))
  IN [out |-> out, rem |-> rem, tail |-> tail]
RegroupPad(data, from, to) ==
  LET r == Regroup(data, from, to)
  IN IF r.rem = 0 THEN r.out
     ELSE Append(r.out, ValMSB(r.tail \o Rep(0, to - r.rem)))
TailZero(r) == \A i \in 1..Len(r.tail) : r.tail[i] = 0

\* CompactSize (Bitcoin var-int) of a small n (< 2^31)
CompactSize(n) ==
  IF n < 253 THEN <<n>>
  ELSE IF n < 65536 THEN <<253>> \o LE16(n)
  ELSE <<254, n % 256, (n \div 256) % 256, (n \div 65536) % 256, n \div 16777216>>
=============================================================================
