----------------------------- MODULE LibBytes -----------------------------
(* Pure operators on byte / bit / symbol sequences.  No variables.          *)
(* All loops are folds (TLC: RECURSIVE is quadratic in depth).              *)
EXTENDS Integers, Sequences, FiniteSets, SequencesExt, Bitwise

Byte == 0..255
Min2(a, b) == IF a < b THEN a ELSE b
Max2(a, b) == IF a > b THEN a ELSE b

Pow2(k) == 2^k

\* sequence helpers ---------------------------------------------------------
Take(s, n) == SubSeq(s, 1, Min2(n, Len(s)))
Drop(s, n) == SubSeq(s, n + 1, Len(s))
\* first 64 elements (verdict details are kept short)
Cut(s) == IF Len(s) > 64 THEN SubSeq(s, 1, 64) ELSE s
\* eager sequence <<f(1), ..., f(n)>> (TLC evaluates [i \in 1..n |-> e] lazily and re-evaluates
\* e on every access; tables and hot accumulators must be materialised tuples)
MkSeq(n, f(_)) == FoldLeft(LAMBDA acc, i : Append(acc, f(i)), <<>>, [i \in 1..n |-> i])
Rep(x, n)  == [i \in 1..n |-> x]
Rev(s)     == [i \in 1..Len(s) |-> s[Len(s) + 1 - i]]
Concat(ss) == FoldLeft(LAMBDA a, b : a \o b, <<>>, ss)
AllIn(s, S) == \A i \in 1..Len(s) : s[i] \in S
IsByteSeq(s) == AllIn(s, Byte)

\* number of leading elements equal to x
LeadingCount(s, x) ==
  LET f(acc, e) == IF acc.run /\ e = x THEN [run |-> TRUE, n |-> acc.n + 1]
                                        ELSE [run |-> FALSE, n |-> acc.n]
  IN FoldLeft(f, [run |-> TRUE, n |-> 0], s).n

\* lexicographic comparison of integer sequences: -1, 0, 1
LexCmp(a, b) ==
  LET n == Min2(Len(a), Len(b))
      f(acc, i) == IF acc # 0 THEN acc
                   ELSE IF a[i] < b[i] THEN -1 ELSE IF a[i] > b[i] THEN 1 ELSE 0
      c == FoldLeft(f, 0, [i \in 1..n |-> i])
  IN IF c # 0 THEN c
     ELSE IF Len(a) < Len(b) THEN -1 ELSE IF Len(a) > Len(b) THEN 1 ELSE 0

\* bits ---------------------------------------------------------------------
\* bits of v, most significant first, width w
BitsMSB(v, w) == [i \in 1..w |-> (v \div Pow2(w - i)) % 2]
\* value of a bit sequence read most significant first (must fit 31 bits)
ValMSB(bs) == FoldLeft(LAMBDA acc, b : acc * 2 + b, 0, bs)
BytesToBitsMSB(bs) == [i \in 1..(8 * Len(bs)) |-> (bs[((i - 1) \div 8) + 1] \div Pow2(7 - ((i - 1) % 8))) % 2]
\* bit i (0-based) of a byte sequence, LSB-first inside each byte (BIP37 order)
BitLSB(bs, i) == (bs[(i \div 8) + 1] \div Pow2(i % 8)) % 2

\* little / big endian small integers (<= 3 bytes safely; callers keep < 2^31)
LE16(v) == <<v % 256, (v \div 256) % 256>>
BE16(v) == <<(v \div 256) % 256, v % 256>>

\* ASCII -----------------------------------------------------------------------
IsLowerA(c) == c >= 97 /\ c <= 122
IsUpperA(c) == c >= 65 /\ c <= 90
IsDigitA(c) == c >= 48 /\ c <= 57
ToLowerA(c) == IF IsUpperA(c) THEN c + 32 ELSE c
ToUpperA(c) == IF IsLowerA(c) THEN c - 32 ELSE c
LowerStr(s) == [i \in 1..Len(s) |-> ToLowerA(s[i])]
UpperStr(s) == [i \in 1..Len(s) |-> ToUpperA(s[i])]
\* index (1-based) of first / last occurrence of x in s, 0 if none
IndexOf(s, x) ==
  FoldLeft(LAMBDA acc, i : IF acc = 0 /\ s[i] = x THEN i ELSE acc, 0, [i \in 1..Len(s) |-> i])
LastIndexOf(s, x) ==
  FoldLeft(LAMBDA acc, i : IF s[i] = x THEN i ELSE acc, 0, [i \in 1..Len(s) |-> i])
CountOf(s, x) == FoldLeft(LAMBDA acc, e : IF e = x THEN acc + 1 ELSE acc, 0, s)

\* hex digits of a byte sequence as ASCII codes (lower case) ---------------
HexDigit(n) == IF n < 10 THEN 48 + n ELSE 87 + n
HexStr(bs) == [i \in 1..(2 * Len(bs)) |->
                 IF i % 2 = 1 THEN HexDigit(bs[(i + 1) \div 2] \div 16)
                              ELSE HexDigit(bs[i \div 2] % 16)]
HexVal(c) == IF IsDigitA(c) THEN c - 48
             ELSE IF c >= 97 /\ c <= 102 THEN c - 87
             ELSE IF c >= 65 /\ c <= 70 THEN c - 55 ELSE -1
IsHexStr(s) == Len(s) % 2 = 0 /\ \A i \in 1..Len(s) : HexVal(s[i]) >= 0
UnHex(s) == [i \in 1..(Len(s) \div 2) |-> HexVal(s[2 * i - 1]) * 16 + HexVal(s[2 * i])]
=============================================================================
