INIT Init
NEXT Next
VIEW SynView
INVARIANT TableSane
CHECK_DEADLOCK FALSE
CONSTANTS
  Code = "bech"
  W = 89
  MaxW = 4
  Source = "spec"
