-------------------------------- MODULE KeyPool --------------------------------
(* C15 at design level: a pool of extended keys as Go objects whose four byte     *)
(* buffers (key, cached public key, chain code, parent fingerprint) live on a heap *)
(* of buffer ids.  The model records which operations allocate fresh buffers and   *)
(* which share them (as the implementation does after the Neuter fix):            *)
(*   NewMaster / Parse      fresh buffers                                          *)
(*   Child                  fresh key, chain code, fingerprint; nothing shared      *)
(*   Neuter (private key)   fresh copies (NeuterShares = FALSE) -- with            *)
(*                          NeuterShares = TRUE it shares pub/cc/fp like the       *)
(*                          original code and TLC exhibits the interference        *)
(*   Neuter (public key)    returns the SAME object (documented)                   *)
(*   Zero                   wipes the object's buffers and kills the object        *)
(* Invariant Independent: no buffer of a live object has been wiped, i.e. every    *)
(* key that has not itself been zeroed still has its material.                    *)
(* The same module generates the operation histories replayed on the real code.   *)
EXTENDS Integers, Sequences, FiniteSets, TLC, Json, CSV, IOUtils

CONSTANTS MaxKeys, MaxDepth, NeuterShares, Emit

VARIABLES kpObj,     \* slot -> object id (0 = empty); two slots may hold the same object
          kpBufs,    \* object id -> set of buffer ids it references
          kpPriv,    \* object id -> is private
          kpWiped,   \* set of wiped buffer ids
          kpNextObj, kpNextBuf, kpHist
kpvars == <<kpObj, kpBufs, kpPriv, kpWiped, kpNextObj, kpNextBuf, kpHist>>

Slots == 1..MaxKeys
Live(s) == kpObj[s] # 0
D == IF "GEN_DEPTH" \in DOMAIN IOEnv THEN atoi(IOEnv.GEN_DEPTH) ELSE MaxDepth

Init == /\ kpObj = [s \in Slots |-> 0] /\ kpBufs = <<>> /\ kpPriv = <<>> /\ kpWiped = {}
        /\ kpNextObj = 1 /\ kpNextBuf = 1 /\ kpHist = <<>>

NewObj(slot, bufs, priv, op) ==
  /\ kpObj' = [kpObj EXCEPT ![slot] = kpNextObj]
  /\ kpBufs' = Append(kpBufs, bufs) /\ kpPriv' = Append(kpPriv, priv)
  /\ kpNextObj' = kpNextObj + 1
  /\ kpHist' = Append(kpHist, op)
Fresh(n) == kpNextBuf..(kpNextBuf + n - 1)

NewMaster(d) == NewObj(d, Fresh(4), TRUE, [o |-> "NewMaster", s |-> 0, d |-> d]) /\ kpNextBuf' = kpNextBuf + 4 /\ UNCHANGED kpWiped
Reparse(s, d) == Live(s) /\ NewObj(d, Fresh(4), kpPriv[kpObj[s]], [o |-> "Reparse", s |-> s, d |-> d]) /\ kpNextBuf' = kpNextBuf + 4 /\ UNCHANGED kpWiped
Child(s, d, hard) ==
  /\ Live(s) /\ (hard => kpPriv[kpObj[s]])
  /\ NewObj(d, Fresh(4), kpPriv[kpObj[s]], [o |-> IF hard THEN "ChildH" ELSE "Child0", s |-> s, d |-> d])
  /\ kpNextBuf' = kpNextBuf + 4 /\ UNCHANGED kpWiped
Neuter(s, d) ==
  /\ Live(s)
  /\ IF kpPriv[kpObj[s]]
       THEN IF NeuterShares
              THEN NewObj(d, kpBufs[kpObj[s]], FALSE, [o |-> "Neuter", s |-> s, d |-> d]) /\ UNCHANGED kpNextBuf
              ELSE NewObj(d, Fresh(4), FALSE, [o |-> "Neuter", s |-> s, d |-> d]) /\ kpNextBuf' = kpNextBuf + 4
       ELSE /\ d = s        \* the same object comes back; the harness keeps it in the same slot
            /\ kpHist' = Append(kpHist, [o |-> "Neuter", s |-> s, d |-> s])
            /\ UNCHANGED <<kpObj, kpBufs, kpPriv, kpNextObj, kpNextBuf>>
  /\ UNCHANGED kpWiped
SetNet(s) == Live(s) /\ kpHist' = Append(kpHist, [o |-> "SetNet", s |-> s, d |-> 0])
             /\ UNCHANGED <<kpObj, kpBufs, kpPriv, kpWiped, kpNextObj, kpNextBuf>>
Zero(s) ==
  /\ Live(s)
  /\ kpWiped' = kpWiped \cup kpBufs[kpObj[s]]
  /\ kpObj' = [t \in Slots |-> IF kpObj[t] = kpObj[s] THEN 0 ELSE kpObj[t]]
  /\ kpHist' = Append(kpHist, [o |-> "Zero", s |-> s, d |-> 0])
  /\ UNCHANGED <<kpBufs, kpPriv, kpNextObj, kpNextBuf>>

Step == \/ \E d \in Slots : NewMaster(d)
        \/ \E s, d \in Slots : Reparse(s, d) \/ Child(s, d, TRUE) \/ Child(s, d, FALSE) \/ Neuter(s, d)
        \/ \E s \in Slots : SetNet(s) \/ Zero(s)
Next == /\ Len(kpHist) < D
        /\ Step
        /\ (Emit /\ Len(kpHist) + 1 = D) => CSVWrite("%1$s", <<ToJson([ops |-> kpHist'])>>, IOEnv.GEN_OUT)

Independent == \A s \in Slots : Live(s) => kpBufs[kpObj[s]] \cap kpWiped = {}
=============================================================================
